import sys, os
sys.path.insert(0, os.path.dirname(os.path.abspath(__file__)))
sys.dont_write_bytecode = True
from sa.cli import main
sys.exit(main(sys.argv[1:]))
