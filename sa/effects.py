# -*- coding: utf-8 -*-
"""Local effect facts extracted from function bodies: file-system sinks, token mutations,
global writes, list mutations.  Everything is syntactic + resolved through the Program."""

import ast

from .model import local_names, walk_function, norm

OS_MUTATORS = {
    "replace", "rename", "renames", "remove", "unlink", "chmod", "chown", "truncate", "utime", "makedirs", "mkdir",
    "rmdir", "removedirs", "link", "symlink", "lchown", "system", "popen", "write", "ftruncate", "mkfifo",
}
SHUTIL_MUTATORS = {"copy", "copy2", "copyfile", "copymode", "copystat", "copytree", "move", "rmtree", "chown"}
PATH_MUTATORS = {"write_text", "write_bytes", "unlink", "rename", "replace", "touch", "chmod", "mkdir", "rmdir", "open"}

TOKEN_MUTATORS = {
    "set_value", "set_indent", "set_hierarchy", "add_context", "pop_context", "set_code_tags", "clear_code_tags",
    "set_all_code_tags", "set_filename",
}
LIST_MUTATORS = {"append", "extend", "insert", "pop", "remove", "reverse", "sort", "clear", "__setitem__", "__delitem__"}
DICT_MUTATORS = {"update", "setdefault", "pop", "popitem", "clear"}


class Sink:
    def __init__(self, fi, node, kind, api, target, mode=None):
        self.fi = fi
        self.node = node
        self.kind = kind  # 'open-write' | 'os' | 'shutil' | 'path' | 'process'
        self.api = api
        self.target = target  # ast expr or None
        self.mode = mode

    @property
    def key(self):
        return "%s:%s" % (self.fi.key, norm(self.node))


def _open_mode(call):
    mode = None
    if len(call.args) >= 2:
        mode = call.args[1]
    for k in call.keywords:
        if k.arg == "mode":
            mode = k.value
    if mode is None:
        return "r"
    if isinstance(mode, ast.Constant) and isinstance(mode.value, str):
        return mode.value
    return "?"


def fs_sinks(program, functions=None):
    """Every call in the program that may mutate the file system or spawn a process."""
    out = []
    funcs = functions if functions is not None else program.functions.values()
    for fi in funcs:
        locs = None
        for n in walk_function(fi.node):
            if not isinstance(n, ast.Call):
                continue
            f = n.func
            if isinstance(f, ast.Name) and f.id == "open":
                if locs is None:
                    locs = local_names(fi.node)
                if f.id in locs or f.id in fi.module.bindings:
                    continue
                mode = _open_mode(n)
                if mode == "?" or any(c in mode for c in "wax+"):
                    out.append(Sink(fi, n, "open-write", "open", n.args[0] if n.args else None, mode))
                continue
            if isinstance(f, ast.Attribute):
                ent = program.resolve_expr(fi.module, f.value) if isinstance(f.value, (ast.Name, ast.Attribute)) else None
                ext = ent[1] if ent and ent[0] == "external" else None
                if ext == "os" and f.attr in OS_MUTATORS:
                    out.append(Sink(fi, n, "os", "os." + f.attr, n.args[0] if n.args else None))
                elif ext == "shutil" and f.attr in SHUTIL_MUTATORS:
                    out.append(Sink(fi, n, "shutil", "shutil." + f.attr, n.args[1] if len(n.args) > 1 else None))
                elif ext in ("subprocess",):
                    out.append(Sink(fi, n, "process", "subprocess." + f.attr, None))
                elif ext in ("tempfile",):
                    out.append(Sink(fi, n, "os", "tempfile." + f.attr, None))
                elif ext == "io" and f.attr == "open":
                    out.append(Sink(fi, n, "open-write", "io.open", n.args[0] if n.args else None, _open_mode(n)))
                elif f.attr in ("write_text", "write_bytes"):
                    out.append(Sink(fi, n, "path", "Path." + f.attr, f.value))
            elif isinstance(f, ast.Name):
                ent = program.resolve_name(fi.module, f.id)
                if ent and ent[0] == "external":
                    parts = ent[1].split(".")
                    if parts[0] == "os" and parts[-1] in OS_MUTATORS:
                        out.append(Sink(fi, n, "os", ent[1], n.args[0] if n.args else None))
                    elif parts[0] == "shutil" and parts[-1] in SHUTIL_MUTATORS:
                        out.append(Sink(fi, n, "shutil", ent[1], n.args[1] if len(n.args) > 1 else None))
                    elif parts[0] == "subprocess":
                        out.append(Sink(fi, n, "process", ent[1], None))
    return out


def dynamic_code_sites(program):
    """exec/eval/compile/__import__/setattr-on-module style dynamism that would defeat the model."""
    out = []
    for fi in program.functions.values():
        for n in walk_function(fi.node):
            if isinstance(n, ast.Call) and isinstance(n.func, ast.Name) and n.func.id in ("exec", "eval", "compile", "__import__"):
                if n.func.id not in fi.module.bindings:
                    out.append((fi, n))
    for mod in program.modules.values():
        for n in mod.tree.body:
            for c in ast.walk(n):
                if isinstance(c, ast.Call) and isinstance(c.func, ast.Name) and c.func.id in ("exec", "eval") and not isinstance(n, (ast.FunctionDef, ast.ClassDef)):
                    out.append((None, c))
    return out


_MEMO = ("lru_cache", "cache", "cached_property", "memoize", "memoized", "memoise", "memoised")


def memoised_functions(program):
    """(fi, decorator text, mutable) for every function of the program carrying a memoising decorator.  `mutable` is
    False only when every return value is provably immutable (constants, strings built from them, tuples of those,
    numbers, None); a memoised mutable result is one object handed to every caller - state that outlives the call."""
    import ast

    from .model import norm, walk_function

    binds = {}

    def immutable(e, depth=0):
        if e is None or isinstance(e, ast.Constant) or isinstance(e, ast.JoinedStr):
            return True
        if isinstance(e, ast.Name) and depth < 6:
            vals = binds.get(e.id)
            return bool(vals) and all(v is not None and immutable(v, depth + 1) for v in vals)
        if isinstance(e, ast.Tuple):
            return all(immutable(x, depth + 1) for x in e.elts)
        if isinstance(e, ast.BinOp):
            return immutable(e.left, depth + 1) and immutable(e.right, depth + 1)
        if isinstance(e, ast.Compare) or isinstance(e, ast.BoolOp) and all(immutable(v, depth + 1) for v in e.values):
            return True
        if isinstance(e, ast.Call) and norm(e.func) in ("str", "int", "len", "bool", "float", "tuple", "frozenset") :
            return True
        if isinstance(e, ast.Call) and isinstance(e.func, ast.Attribute) and e.func.attr in ("join", "format", "lower", "upper", "strip", "decode"):
            return True
        return False

    out = []
    for fi in program.functions.values():
        for d in getattr(fi.node, "decorator_list", []):
            f = d.func if isinstance(d, ast.Call) else d
            t = norm(f)
            if t.split(".")[-1] in _MEMO:
                rets = [n.value for n in walk_function(fi.node) if isinstance(n, ast.Return)]
                binds.clear()
                for n in walk_function(fi.node):
                    if isinstance(n, ast.Assign) and len(n.targets) == 1 and isinstance(n.targets[0], ast.Name):
                        binds.setdefault(n.targets[0].id, []).append(n.value)
                    elif isinstance(n, ast.AugAssign) and isinstance(n.target, ast.Name):
                        binds.setdefault(n.target.id, []).append(n.value)
                    elif isinstance(n, (ast.For, ast.With)):
                        for x in ast.walk(n.target if isinstance(n, ast.For) else n):
                            if isinstance(x, ast.Name) and isinstance(x.ctx, ast.Store):
                                binds.setdefault(x.id, []).append(None)
                mutable = not rets or not all(immutable(v) for v in rets)
                out.append((fi, norm(d), mutable))
    return out
