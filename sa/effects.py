# -*- coding: utf-8 -*-
"""Local effect facts extracted from function bodies: file-system sinks, token mutations,
global writes, list mutations.  Everything is syntactic + resolved through the Program."""

import ast

from .model import local_names, walk_function, norm

OS_MUTATORS = {
    "replace", "rename", "renames", "remove", "unlink", "chmod", "chown", "truncate", "utime", "makedirs", "mkdir",
    "rmdir", "removedirs", "link", "symlink", "lchown", "system", "popen", "write", "ftruncate", "mkfifo",
}
SHUTIL_MUTATORS = {"copy", "copy2", "copyfile", "copymode", "copystat", "copytree", "move", "rmtree", "chown"}
PATH_MUTATORS = {"write_text", "write_bytes", "unlink", "rename", "replace", "touch", "chmod", "mkdir", "rmdir", "open"}

TOKEN_MUTATORS = {
    "set_value", "set_indent", "set_hierarchy", "add_context", "pop_context", "set_code_tags", "clear_code_tags",
    "set_all_code_tags", "set_filename",
}
LIST_MUTATORS = {"append", "extend", "insert", "pop", "remove", "reverse", "sort", "clear", "__setitem__", "__delitem__"}
DICT_MUTATORS = {"update", "setdefault", "pop", "popitem", "clear"}


class Sink:
    def __init__(self, fi, node, kind, api, target, mode=None):
        self.fi = fi
        self.node = node
        self.kind = kind  # 'open-write' | 'os' | 'shutil' | 'path' | 'process'
        self.api = api
        self.target = target  # ast expr or None
        self.mode = mode

    @property
    def key(self):
        return "%s:%s" % (self.fi.key, norm(self.node))


def _open_mode(call):
    mode = None
    if len(call.args) >= 2:
        mode = call.args[1]
    for k in call.keywords:
        if k.arg == "mode":
            mode = k.value
    if mode is None:
        return "r"
    if isinstance(mode, ast.Constant) and isinstance(mode.value, str):
        return mode.value
    return "?"


def fs_sinks(program, functions=None):
    """Every call in the program that may mutate the file system or spawn a process."""
    out = []
    funcs = functions if functions is not None else program.functions.values()
    for fi in funcs:
        locs = None
        for n in walk_function(fi.node):
            if not isinstance(n, ast.Call):
                continue
            f = n.func
            if isinstance(f, ast.Name) and f.id == "open":
                if locs is None:
                    locs = local_names(fi.node)
                if f.id in locs or f.id in fi.module.bindings:
                    continue
                mode = _open_mode(n)
                if mode == "?" or any(c in mode for c in "wax+"):
                    out.append(Sink(fi, n, "open-write", "open", n.args[0] if n.args else None, mode))
                continue
            if isinstance(f, ast.Attribute):
                ent = program.resolve_expr(fi.module, f.value) if isinstance(f.value, (ast.Name, ast.Attribute)) else None
                ext = ent[1] if ent and ent[0] == "external" else None
                if ext == "os" and f.attr in OS_MUTATORS:
                    out.append(Sink(fi, n, "os", "os." + f.attr, n.args[0] if n.args else None))
                elif ext == "shutil" and f.attr in SHUTIL_MUTATORS:
                    out.append(Sink(fi, n, "shutil", "shutil." + f.attr, n.args[1] if len(n.args) > 1 else None))
                elif ext in ("subprocess",):
                    out.append(Sink(fi, n, "process", "subprocess." + f.attr, None))
                elif ext in ("tempfile",):
                    out.append(Sink(fi, n, "os", "tempfile." + f.attr, None))
                elif ext == "io" and f.attr == "open":
                    out.append(Sink(fi, n, "open-write", "io.open", n.args[0] if n.args else None, _open_mode(n)))
                elif f.attr in ("write_text", "write_bytes"):
                    out.append(Sink(fi, n, "path", "Path." + f.attr, f.value))
            elif isinstance(f, ast.Name):
                ent = program.resolve_name(fi.module, f.id)
                if ent and ent[0] == "external":
                    parts = ent[1].split(".")
                    if parts[0] == "os" and parts[-1] in OS_MUTATORS:
                        out.append(Sink(fi, n, "os", ent[1], n.args[0] if n.args else None))
                    elif parts[0] == "shutil" and parts[-1] in SHUTIL_MUTATORS:
                        out.append(Sink(fi, n, "shutil", ent[1], n.args[1] if len(n.args) > 1 else None))
                    elif parts[0] == "subprocess":
                        out.append(Sink(fi, n, "process", ent[1], None))
    return out


def dynamic_code_sites(program):
    """exec/eval/compile/__import__/setattr-on-module style dynamism that would defeat the model."""
    out = []
    for fi in program.functions.values():
        for n in walk_function(fi.node):
            if isinstance(n, ast.Call) and isinstance(n.func, ast.Name) and n.func.id in ("exec", "eval", "compile", "__import__"):
                if n.func.id not in fi.module.bindings:
                    out.append((fi, n))
    for mod in program.modules.values():
        for n in mod.tree.body:
            for c in ast.walk(n):
                if isinstance(c, ast.Call) and isinstance(c.func, ast.Name) and c.func.id in ("exec", "eval") and not isinstance(n, (ast.FunctionDef, ast.ClassDef)):
                    out.append((None, c))
    return out
