# -*- coding: utf-8 -*-
"""
May-return-None flow.

may_none(program)      functions that return None on some path and something else on another
                       (explicit `return None`, bare `return`, or falling off the end).
unguarded_uses(...)    for every call of such a function: uses of the result in arithmetic, as an index /
                       slice bound, as the receiver of an attribute/subscript access, or as an argument
                       whose parameter the callee uses that way (one call deep) - unless guarded by one of
                       the idioms of this code base: a dominating `is None` / `is not None` / truthiness
                       test on the variable, an enclosing try that catches TypeError/AttributeError (or
                       everything), an early return on None.
"""

import ast

from .flow import Facts
from .model import norm, walk_function


def _is_none(e):
    return e is None or (isinstance(e, ast.Constant) and e.value is None)


def noreturn_functions(program):
    """Functions all of whose paths end in `raise` (helpers like print_error_message). Registers their names with flow."""
    from . import flow

    names = set()
    for fi in program.functions.values():
        if not any(isinstance(n, ast.Raise) for n in walk_function(fi.node)):
            continue
        try:
            f = Facts(fi.node)
        except Exception:
            continue
        if f.exits and all(k == "raise" for k, n, fa in f.exits):
            names.add(fi.name)
    flow.NORETURN.clear()
    flow.NORETURN.update(names)
    return names


def may_none(program):
    noreturn_functions(program)
    out = {}
    for fi in program.functions.values():
        rets = [n for n in walk_function(fi.node) if isinstance(n, ast.Return)]
        non = [r for r in rets if not _is_none(r.value)]
        if not non:
            continue
        # bool-only / constant-only returns are flags, still may be None... keep functions returning values
        explicit = [r for r in rets if _is_none(r.value)]
        falls = False
        try:
            f = Facts(fi.node)
            falls = any(k == "fall" for k, n, fa in f.exits)
        except Exception:
            falls = False
        if explicit or falls:
            out[fi.key] = {"explicit": len(explicit), "falls_off": falls, "non_none": len(non)}
    return out


def none_profile(fi):
    """Under which conditions fi returns None: one sorted guard list per explicit `return None` (conditions that dominate
    it, polarity-normalised, hoisted locals expanded), plus a marker when control can fall off the end.  A tabled
    "this None cannot arrive here" argument was made against this profile; when it changes the argument is void."""
    from .model import expand_text, norm

    f = Facts(fi.node)
    out = []
    for n in walk_function(fi.node):
        if isinstance(n, ast.Return) and _is_none(n.value):
            gs = []
            for t, pol in f.conds_at(n):
                t = t.strip()
                while t.startswith("not "):
                    t = t[4:].strip()
                    if t.startswith("(") and t.endswith(")"):
                        t = t[1:-1].strip()
                    pol = not pol
                try:
                    t = expand_text(fi, ast.parse(t, mode="eval").body)
                except SyntaxError:
                    pass
                gs.append("%s is %s" % (t, pol))
            out.append("; ".join(sorted(gs)))
    if any(k == "fall" for k, n, fa in f.exits):
        out.append("<falls off the end>")
    return sorted(out)


class Use:
    __slots__ = ("fi", "call", "callee", "node", "how", "var")

    def __init__(self, fi, call, callee, node, how, var):
        self.fi = fi
        self.call = call
        self.callee = callee
        self.node = node
        self.how = how
        self.var = var

    @property
    def key(self):
        return "%s:%s<-%s:%s" % (self.fi.key, self.var or "<expr>", self.callee.key.split(":")[-1], self.how)


def _dangerous_use(name_node):
    """How is this Load of a variable used? Returns a label for crash-prone uses, else None."""
    par = getattr(name_node, "_parent", None)
    if isinstance(par, ast.BinOp) and isinstance(par.op, (ast.Add, ast.Sub, ast.Mult, ast.FloorDiv, ast.Mod)):
        return "arithmetic `%s`" % norm(par)[:50]
    if isinstance(par, ast.UnaryOp) and isinstance(par.op, ast.USub):
        return "negation"
    if isinstance(par, ast.Subscript):
        if par.slice is name_node:
            return "index `%s`" % norm(par)[:50]
        if par.value is name_node:
            return "subscripted `%s`" % norm(par)[:50]
    if isinstance(par, ast.Slice):
        # a None slice bound is legal python (means open end): silently wrong rather than a crash; not reported here
        return None
    if isinstance(par, ast.Attribute) and par.value is name_node:
        return "attribute `%s`" % norm(par)[:50]
    if isinstance(par, ast.Compare) and any(isinstance(op, (ast.Lt, ast.LtE, ast.Gt, ast.GtE)) for op in par.ops):
        return "ordering comparison `%s`" % norm(par)[:50]
    if isinstance(par, ast.Call) and isinstance(par.func, ast.Name) and par.func.id in ("range", "len", "int") and name_node in par.args:
        return "%s(%s)" % (par.func.id, norm(name_node))
    if isinstance(par, ast.AugAssign) and par.target is name_node:
        return "augmented assignment"
    return None


def _guarded(facts, node, var):
    for t, pol in facts.conds_at(node):
        tt = t.replace(" ", "")
        if tt in ("%sisNone" % var,) and pol is False:
            return True
        if tt in ("%sisnotNone" % var,) and pol is True:
            return True
        if tt == var and pol is True:
            return True
        if tt == "not" + var and pol is False:
            return True
        # conjunctions are decomposed by Facts already
    return False


def _in_try(node, fnode):
    q = getattr(node, "_parent", None)
    while q is not None and q is not fnode:
        if isinstance(q, ast.Try):
            in_body = any(node is x for s in q.body for x in ast.walk(s))
            if in_body:
                for h in q.handlers:
                    ht = norm(h.type) if h.type is not None else "<bare>"
                    if ht in ("<bare>", "Exception", "BaseException") or "TypeError" in ht or "AttributeError" in ht:
                        return True
        q = getattr(q, "_parent", None)
    return False


def param_crash_uses(fi, pname):
    """Unguarded crash-prone uses of parameter pname inside fi (for the one-call-deep rule)."""
    facts = None
    out = []
    stores = [n.lineno for n in walk_function(fi.node) if isinstance(n, ast.Name) and n.id == pname and isinstance(n.ctx, ast.Store)]
    first_store = min(stores) if stores else 10**9
    for n in walk_function(fi.node):
        if isinstance(n, ast.Name) and n.id == pname and isinstance(n.ctx, ast.Load):
            how = _dangerous_use(n)
            if how is None:
                continue
            if n.lineno > first_store:
                continue  # the parameter has been re-bound before this use
            if facts is None:
                facts = Facts(fi.node)
            if _guarded(facts, n, pname) or _in_try(n, fi.node):
                continue
            out.append((n, how))
    return out


def unguarded_uses(program, cg, mn):
    uses = []
    for key, sites in cg.sites.items():
        fi = program.functions[key]
        facts = None
        for s in sites:
            if s.kind != "resolved" or not s.targets:
                continue
            tg = [t for t in s.targets if t.key in mn]
            if not tg or len(tg) != len(s.targets):
                continue
            callee = tg[0]
            call = s.node
            par = getattr(call, "_parent", None)
            # (1) direct use of the call expression
            how = _dangerous_use(call)
            if how is not None:
                if not _in_try(call, fi.node):
                    uses.append(Use(fi, call, callee, call, how, None))
                continue
            # (2) assigned to a simple name
            var = None
            if isinstance(par, ast.Assign) and len(par.targets) == 1 and isinstance(par.targets[0], ast.Name) and par.value is call:
                var = par.targets[0].id
            if var is None:
                # (3) passed straight into another call
                if isinstance(par, ast.Call) and call in par.args:
                    uses.extend(_arg_flow(program, cg, fi, par, par.args.index(call), call, callee, None))
                continue
            if facts is None:
                facts = Facts(fi.node)
            # other assignments to var in the function make the dataflow ambiguous: only look at uses that are
            # dominated by this very assignment and not re-assigned in between (approximation: single assignment or
            # uses textually after and before the next assignment)
            assigns = sorted([n for n in walk_function(fi.node) if isinstance(n, (ast.Assign, ast.AugAssign, ast.For)) and any(isinstance(x, ast.Name) and x.id == var and isinstance(x.ctx, ast.Store) for x in ast.walk(n))], key=lambda n: n.lineno)
            nxt = [a.lineno for a in assigns if a.lineno > par.lineno]
            limit = min(nxt) if nxt else 10**9
            # `v += 1` right after `v = f()`: the augmented assignment is both the next store and a numeric use
            for a in assigns:
                if isinstance(a, ast.AugAssign) and isinstance(a.target, ast.Name) and a.target.id == var and a.lineno > par.lineno and a.lineno <= limit:
                    if not _guarded(facts, a, var) and not _in_try(a, fi.node) and facts.dominated_by_call(a, norm(call.func)):
                        uses.append(Use(fi, call, callee, a, "augmented assignment `%s`" % norm(a)[:40], var))
                    break
            for n in walk_function(fi.node):
                if isinstance(n, ast.Name) and n.id == var and isinstance(n.ctx, ast.Load) and par.lineno < n.lineno <= limit:
                    if not facts.dominated_by_call(n, norm(call.func)):
                        continue
                    h = _dangerous_use(n)
                    if h is not None:
                        if _guarded(facts, n, var) or _in_try(n, fi.node):
                            continue
                        uses.append(Use(fi, call, callee, n, h, var))
                        break
                    p2 = getattr(n, "_parent", None)
                    if isinstance(p2, ast.Call) and n in p2.args and not _guarded(facts, n, var) and not _in_try(n, fi.node):
                        got = _arg_flow(program, cg, fi, p2, p2.args.index(n), call, callee, var)
                        if got:
                            uses.extend(got[:1])
                            break
    return uses


def _arg_flow(program, cg, fi, outer_call, idx, call, callee, var):
    out = []
    site = None
    for s in cg.sites.get(fi.key, ()):
        if s.node is outer_call:
            site = s
    if site is None or site.kind != "resolved" or len(site.targets) != 1:
        return out
    t = site.targets[0]
    params = t.params[1:] if (t.cls is not None and t.params and t.params[0] == "self") else t.params
    if idx >= len(params):
        return out
    pu = param_crash_uses(t, params[idx])
    if pu:
        n, how = pu[0]
        out.append(Use(fi, call, callee, outer_call, "passed to %s as `%s`, used there in %s" % (t.key.split(":")[-1], params[idx], how), var))
    return out
