# -*- coding: utf-8 -*-
"""
C10 - a rule that has just fixed a file has nothing left to fix (two exact necessary conditions only).

  C10.labels   action-label agreement inside each behaviour module: every constant label that analysis
               stores in a violation's action (`set_action("x")`, `dAction["action"] = "x"`, any key) is
               handled by the fix's dispatch on that key (an `==` comparison, or a chain with a catch-all
               `else`).  A produced-but-unhandled label is a reported, "fixable" violation the fix silently
               skips: it is still there afterwards.
  C10.cycle    Rule.fix re-analyses before fixing, applies the fixes, splices them with one update() and
               clears the violations afterwards; every live rule with fixable True has a real
               _fix_violation below rule.Rule (shared with C03.gating).
  C10.caseidem idempotence of the ~250 rules built on case_utils, as a consequence of proved facts: (1) the value written
               equals the old value modulo case (C03.caseid, re-proved here); (2) every decision of the checkers looks at
               the value only through case-insensitive matchers (both sides lower-cased), so the same prefix / suffix
               exception and the same branch are chosen for the written value; (3) the case transform g is lower or upper
               (g(g(w)) == g(w)) or the identity; (4) the whole-word exception writes the configured spelling, which is then
               a member of the list and compares equal.  Hence expected(expected(v)) == expected(v): a second fix writes
               the same text, and what is still reported is what the rule cannot repair (camelCase & co. write the value
               unchanged).
Does not decide: fix_r(fix_r(s)) == fix_r(s) for the other rule families - idempotence is a run-time fixpoint property.
"""

import ast

from ..flow import Facts, callee_text
from ..model import AnalysisError, norm, walk_function
from ..report import Result
from ..selftest import Variant

LEVEL = "other"
META = {
    "technique": "static analysis: writer/reader agreement of action labels per behaviour module (constant propagation of dictionary keys, if-chain dispatch extraction with catch-all detection), ordering facts in Rule.fix, static rule table (fixable => fix exists)",
    "level_text": "Decides only two structural necessary conditions of per-rule idempotence, for all inputs: the fix understands every instruction the analysis can emit, and the "
    "fix cycle is analyse -> fix each -> splice once -> clear. It does NOT decide that a second application changes nothing; that is a fixpoint of run-time "
    "values (see DESIGN.md, C10).",
    "level_note": "Trusted base: CPython ast, static rule table. Labels computed at run time (non-constant) are out of reach and listed as unproven.",
}


def _chains(fn):
    """if/elif chains in a function: list of (key, labels set, has_else, node). key is the action sub-key or '<action>'."""
    out = []
    seen = set()
    for n in walk_function(fn):
        if not isinstance(n, ast.If) or id(n) in seen:
            continue
        cur = n
        labels = {}
        has_else = False
        bodies = []
        while True:
            seen.add(id(cur))
            bodies.append(cur.body)
            for k, lab in _label_tests(cur.test):
                labels.setdefault(k, set()).add(lab)
            if len(cur.orelse) == 1 and isinstance(cur.orelse[0], ast.If):
                cur = cur.orelse[0]
                continue
            has_else = bool(cur.orelse)
            break
        if not has_else and all(b and isinstance(b[-1], (ast.Return, ast.Continue, ast.Raise, ast.Break)) for b in bodies):
            # guard-clause form: every tested branch leaves, the statements after the chain handle everything else
            par = getattr(n, "_parent", None)
            for field in ("body", "orelse", "finalbody"):
                seq = getattr(par, field, None)
                if isinstance(seq, list) and n in seq and seq.index(n) < len(seq) - 1:
                    has_else = True
        for k, labs in labels.items():
            out.append((k, labs, has_else, n))
    return out


def _label_tests(test):
    res = []
    for c in ast.walk(test):
        if isinstance(c, ast.Compare) and len(c.ops) == 1 and isinstance(c.ops[0], (ast.Eq, ast.NotEq, ast.In)) :
            l, r = c.left, c.comparators[0]
            lits = None
            if isinstance(r, ast.Constant) and isinstance(r.value, str):
                lits = [r.value]
            elif isinstance(r, (ast.List, ast.Tuple)) and all(isinstance(x, ast.Constant) and isinstance(x.value, str) for x in r.elts):
                lits = [x.value for x in r.elts]
            if lits is None:
                continue
            key = None
            if isinstance(l, ast.Subscript) and isinstance(l.slice, ast.Constant) and (norm(l.value).startswith("dAction") or "get_action()" in norm(l.value)):
                key = l.slice.value
            elif isinstance(l, ast.Call) and norm(l.func).endswith("get_action"):
                key = "<action>"
            elif isinstance(l, ast.Name) and l.id in ("sAction",):
                key = "<action>"
            if key is not None:
                for s in lits:
                    res.append((key, s))
    return res


def run(ctx):
    p = ctx.program
    cg = ctx.callgraph()
    rt = ctx.ruletable
    r = Result("C10")
    r.load_table("c10.json")
    r.rule("C10.labels", "labels produced by analysis are handled by the fix's dispatch")
    r.rule("C10.cycle", "Rule.fix = analyse, fix each, one update, clear; fixable => real fix")
    r.rule("C10.caseidem", "case_utils: expected(expected(v)) == expected(v) from value-identity, case-insensitive decisions and idempotent transforms (proof)")
    r.explanation = "Per rules module: constant action labels written vs the labels the fix-reachable functions of the same module compare against, with catch-all detection on each if-chain."
    fix_roots = [m for ci in p.classes.values() for name, m in ci.methods.items() if name == "_fix_violation" and ci.key != "vsg.rule:Rule"]
    reach = cg.reachable(fix_roots)
    n_mod = 0
    for mod in sorted(p.modules.values(), key=lambda m: m.name):
        if not mod.name.startswith("vsg.rules"):
            continue
        funcs = [f for f in p.functions.values() if f.module is mod]
        fixf = [f for f in funcs if f.key in reach and (f.name == "_fix_violation" or not f.name.startswith(("_analyze", "analyze", "_get_tokens", "check_", "create_")))]
        fixf = [f for f in fixf if f.name == "_fix_violation" or any(f.key in cg.reachable([x]) for x in funcs if x.name == "_fix_violation")]
        if not any(f.name == "_fix_violation" for f in funcs):
            continue
        produced = {}
        for f in funcs:
            if f in fixf and f.name != "_analyze":
                pass
            for n in walk_function(f.node):
                if isinstance(n, ast.Assign) and len(n.targets) == 1 and isinstance(n.targets[0], ast.Subscript) and isinstance(n.targets[0].slice, ast.Constant) and norm(n.targets[0].value).startswith("dAction") and isinstance(n.value, ast.Constant) and isinstance(n.value.value, str):
                    produced.setdefault(n.targets[0].slice.value, {}).setdefault(n.value.value, (f, n))
                if isinstance(n, ast.Call) and isinstance(n.func, ast.Attribute) and n.func.attr == "set_action" and n.args and isinstance(n.args[0], ast.Constant) and isinstance(n.args[0].value, str):
                    produced.setdefault("<action>", {}).setdefault(n.args[0].value, (f, n))
        if not produced:
            continue
        handled = {}
        catchall = set()
        for f in fixf:
            rets = [x for x in walk_function(f.node) if isinstance(x, ast.Return)]
            is_pred = bool(rets) and all(isinstance(x.value, ast.Constant) and isinstance(x.value.value, bool) for x in rets)
            for key, labs, has_else, node in _chains(f.node):
                handled.setdefault(key, set()).update(labs)
                if has_else:
                    catchall.add(key)
                if is_pred:
                    # a predicate over the label: the dispatch is the caller's `if pred(..): ... else: ...`
                    for g in fixf:
                        for n2 in walk_function(g.node):
                            if isinstance(n2, ast.If) and n2.orelse and any(isinstance(x, ast.Call) and isinstance(x.func, ast.Name) and x.func.id == f.name for x in ast.walk(n2.test)):
                                catchall.add(key)
        n_mod += 1
        for key, labs in sorted(produced.items()):
            if key not in handled:
                continue  # the fix does not dispatch on this key at all (informational field)
            for lab, (f, n) in sorted(labs.items()):
                kk = "%s:%s=%r" % (mod.name, key, lab)
                if lab in handled[key] or key in catchall:
                    r.ok("C10.labels", kk, "handled%s" % (" by the catch-all else" if lab not in handled[key] else ""), sample=False, nontrivial=lab in handled[key])
                else:
                    r.fail(
                        "C10.labels",
                        kk,
                        "analysis in %s can emit action %s=%r, but the fix only handles %s and has no catch-all: such a violation is reported as fixable and silently left in place" % (mod.name, key, lab, sorted(handled[key])),
                        f.loc(n),
                    )
    r.extra["modules_with_action_dispatch"] = n_mod
    if n_mod < 12:
        raise AnalysisError("only %d rule modules with action labels found" % n_mod)
    r.ok("C10.labels", "modules", "%d behaviour modules: every constant label written by analysis is understood by the fix" % n_mod)

    # ------------------------------------------------------------------ cycle
    fix = p.function("vsg.rule:Rule.fix")
    f = Facts(fix.node)
    calls = {callee_text(n): n for n in walk_function(fix.node) if isinstance(n, ast.Call)}
    need_order = ["self.analyze", "self._fix_violation", "%s.update" % fix.params[1], "self.clear_violations"]
    okc = True
    for i, name in enumerate(need_order):
        if name not in calls:
            okc = False
            r.fail("C10.cycle", fix.key + ":" + name, "Rule.fix no longer calls %s" % name, fix.loc())
            continue
        fa = f.facts_at(calls[name])
        for prev in need_order[:i]:
            if prev == "self._fix_violation":
                continue  # inside a loop that may run zero times
            if ("call", prev) not in fa:
                okc = False
                r.fail("C10.cycle", "%s:%s-after-%s" % (fix.key, name, prev), "%s is not preceded by %s on every path" % (name, prev), fix.loc(calls[name]))
    upd = calls.get("%s.update" % fix.params[1])
    if upd is not None and f.in_loop(upd):
        okc = False
        r.fail("C10.cycle", fix.key + ":update-in-loop", "update() is called once per violation: start indexes of the remaining violations go stale after the first splice", fix.loc(upd))
    fv = calls.get("self._fix_violation")
    if fv is not None and not f.in_loop(fv):
        okc = False
        r.fail("C10.cycle", fix.key + ":fix-not-in-loop", "_fix_violation is not applied to every violation", fix.loc(fv))
    if okc:
        r.ok("C10.cycle", fix.key, "analyse -> _fix_violation for each violation -> one update() -> clear_violations()")
    _caseidem(r, p)
    # fixable => real fix
    nofix = [e for e in rt.live() if e.fixable is True and e.ci.find_method("_fix_violation").key == "vsg.rule:Rule._fix_violation"]
    for e in nofix:
        r.fail("C10.cycle", "%s:no-fix" % e.unique_id, "rule %s is fixable by default but has no _fix_violation: --fix reports it fixed and leaves the violation in place" % e.unique_id, e.ci.module.path)
    if not nofix:
        r.ok("C10.cycle", "fixable-has-fix", "every rule that is fixable by default overrides _fix_violation")
    return r


def _caseidem(r, p):
    from .. import casefold as cf

    mod = p.modules.get("vsg.rules.case_utils")
    if mod is None:
        raise AnalysisError("vsg.rules.case_utils vanished")
    pr = cf.Prover(p, mod)
    K = "vsg.rules.case_utils"
    checkers, casefns = {}, {}
    for st in mod.tree.body:
        if isinstance(st, ast.Assign) and len(st.targets) == 1 and isinstance(st.targets[0], ast.Subscript) and isinstance(st.value, ast.Name):
            t = norm(st.targets[0])
            if t.startswith("dChecker["):
                checkers[t] = st.value.id
            elif t.startswith("dCase[") and t.endswith("['check']"):
                casefns[t] = st.value.id
    if len(checkers) < 4 or len(casefns) < 9:
        raise AnalysisError("dispatch tables of case_utils not found")
    ok = True
    # (1) value identity
    for name in sorted(set(checkers.values())):
        res = cf.prove_checker(pr, pr.func(name))
        bad = [t for o, t in res if not o]
        if bad:
            ok = False
            r.fail("C10.caseidem", "%s:%s:value-identity" % (K, name), "the written value is not proved equal to the old value modulo case (%s): a second analysis may choose other exceptions and write something else" % bad[0][:120], pr.func(name).loc())
    # (2) decisions through case-insensitive matchers only
    for name, sh in sorted(pr.shapes.items()):
        fi = pr.func(name)
        if not cf.LOWERED.get(fi.key):
            ok = False
            r.fail("C10.caseidem", "%s:%s:case-sensitive" % (K, name), "%s compares the text case-sensitively: the value written by the fix can select a different exception than the value analysed, so a second fix may change it again" % name, fi.loc())
    for name in sorted(set(checkers.values())):
        fi = pr.func(name)
        vname = fi.params[0]
        for n in walk_function(fi.node):
            if isinstance(n, (ast.If, ast.While)):
                for c in ast.walk(n.test):
                    if isinstance(c, ast.Compare) and any(isinstance(x, ast.Name) and x.id == vname for x in ast.walk(c)):
                        ok = False
                        r.fail("C10.caseidem", "%s:%s:%s" % (K, name, norm(c)[:40]), "%s branches on a direct comparison of the value (`%s`), not on a case-insensitive matcher" % (name, norm(c)[:50]), fi.loc(c))
    # (3) idempotent transforms
    for slot, name in sorted(casefns.items()):
        kinds = cf.case_transform(pr.func(name))
        if not kinds <= {"lower", "upper", "identity"} or ("lower" in kinds and "upper" in kinds and not any(isinstance(a, ast.Constant) and a.value is None for c in walk_function(pr.func(name).node) if isinstance(c, ast.Call) and norm(c.func) == "create_case_violation" for a in c.args[1:2])):
            ok = False
            r.fail("C10.caseidem", "%s:%s:transform" % (K, name), "%s builds the expected value with %s: not an idempotent case transform" % (name, sorted(kinds)), pr.func(name).loc())
    # (4) whole-word exception
    exc = pr.func("check_for_exception")
    cef = pr.func("case_exception_found")
    t1 = any(isinstance(n, ast.Compare) and len(n.ops) == 1 and isinstance(n.ops[0], ast.NotEq) and norm(n.comparators[0]).startswith("self.case_exceptions[") for n in walk_function(exc.node))
    t2 = any(isinstance(n, ast.Compare) and len(n.ops) == 1 and isinstance(n.ops[0], ast.In) and norm(n.comparators[0]) == "self.case_exceptions" for n in walk_function(cef.node))
    if not (t1 and t2):
        ok = False
        r.fail("C10.caseidem", K + ":whole-word-exception", "the whole-word exception no longer writes a spelling that is then found in the list and compares equal", exc.loc())
    if ok:
        r.ok("C10.caseidem", K, "%d checkers x %d case functions: expected(expected(v)) == expected(v)" % (len(set(checkers.values())), len(casefns)))


VARIANTS = [
    Variant("C10", "prefix exceptions matched case-sensitively", "fire",
            [("vsg/rules/case_utils.py", "def get_matched_prefix(sString, lPrefixes):\n    sLowerString = sString.lower()\n    for sPrefix in lPrefixes:\n        if sLowerString.startswith(sPrefix.lower()):\n            return sPrefix", "def get_matched_prefix(sString, lPrefixes):\n    for sPrefix in lPrefixes:\n        if sString.startswith(sPrefix):\n            return sPrefix")], rule="C10.caseidem"),
    Variant("C10", "lower-case checker capitalises the word", "fire",
            [("vsg/rules/case_utils.py", "    sExpectedValue = sPrefix + sWord.lower() + sSuffix\n    if not sActualValue == sExpectedValue:", "    sExpectedValue = sPrefix + sWord.swapcase() + sSuffix\n    if not sActualValue == sExpectedValue:")], rule="C10.caseidem"),
    Variant("C10", "analysis emits a label the fix does not know", "fire",
            [("vsg/rules/blank_line_below_line_ending_with_token.py", '        dAction["action"] = "Remove"', '        dAction["action"] = "Delete"')], rule="C10.labels"),
    Variant("C10", "update inside the per-violation loop", "fire",
            [("vsg/rule.py", "                self._fix_violation(oViolation)\n                self.had_violations = True\n            oFile.update(self.violations, self.remap)", "                self._fix_violation(oViolation)\n                self.had_violations = True\n                oFile.update(self.violations, self.remap)")],
            rule="C10.cycle"),
    Variant("C10", "fix without re-analysis", "fire",
            [("vsg/rule.py", "        if self.fixable:\n            self.analyze(oFile)\n", "        if self.fixable:\n")], rule="C10.cycle"),
    Variant("C10", "fixable rule loses its fix", "fire",
            [("vsg/rules/remove_tokens.py", "    def _fix_violation(self, oViolation):", "    def _fix_violations(self, oViolation):")], rule="C10.cycle", key="no-fix"),
    Variant("C10", "twin: fix dispatch gains an explicit branch", "silent",
            [("vsg/rules/blank_line_below_line_ending_with_token.py", '        elif dAction["action"] == "Remove":', '        elif dAction["action"] in ("Remove", "Delete"):')]),
]
