# -*- coding: utf-8 -*-
"""
C19 - every accepted file can be checked and fixed without a crash or a hang (crash-shape screen).

  C19.none       may-return-None flow: the result of a function that returns None on some path and a
                 value on another must not reach arithmetic, an index, an attribute access or an ordering
                 comparison (directly, through a local, or one call deep through a parameter) without one
                 of this code base's guard idioms: a dominating `is None` / `is not None` / truthiness
                 test, an enclosing try catching TypeError/AttributeError, an early return.  Sites where
                 presence is established by construction are tabled with the reason.
  C19.shape      expressions that raise whatever the input: a sequence slice or a string constant added
                 to an integer constant (`s[1:] + 1`), `None` in arithmetic, a call of a non-callable
                 constant.
  C19.boundary   the per-file entry point catches exactly ClassifyError (around parsing) and
                 ConfigurationError (around configuring) and returns; inside the classifier every `raise`
                 is a ClassifyError; the classifier helpers that search for a closing token raise the
                 located ClassifyError instead of falling off; no bare/broad `except` swallows errors in
                 the engine (listed).
  C19.key        a look-up with a computed key in a user-supplied mapping (the configuration dictionary, the
                 --fix_only dictionary, and local aliases of their sub-dictionaries) is guarded by one of the
                 idioms all of today's sites use: an enclosing try catching KeyError, a dominating `key in
                 mapping` test, a key that iterates over that very mapping, or an identical look-up earlier in
                 the function inside such a try (whose handler dealt with absence).
  C19.attr       an attribute read on `self` whose name nothing in the program ever binds (no attribute store, no
                 class-level name, no method, no constant setattr) raises AttributeError whenever it is
                 evaluated; configuration cannot create attributes (configure_* only overwrite existing ones).
                 Classes with a base outside the analysed program are exempt.
  C19.progress   every `while` loop in vsg/rules and vsg/vhdlFile/extract changes a variable of its
                 condition or leaves the loop on every path through its body.
  C19.unbound    cross-reference listing only (never an alarm): locals that are possibly unbound on some
                 syntactic path.
Does not decide: totality.  Exceptions from value-dependent indexing, recursion depth and the progress of
the classifier's own loops are out of reach and are not claimed.
"""

import ast

from ..flow import Facts, callee_text
from ..model import AnalysisError, norm, walk_function
from ..report import Result
from ..selftest import Variant
from .. import noneflow as nf

LEVEL = "other"
META = {
    "technique": "static analysis: may-return-None summaries + def-use with guard-idiom recognition (one call deep), type-shape lint for always-raising expressions, exception-boundary enumeration (raise sites / except clauses), loop-progress check, possibly-unbound listing",
    "level_text": "A screen for the crash shapes this code base actually has (None used as a number/index/object, always-raising expressions, non-ClassifyError exceptions out of "
    "the classifier, loops without progress), over all code reachable from the CLI entry point. It decides that these shapes are absent (or triaged), not that no "
    "exception can ever be raised.",
    "level_note": "Trusted base: CPython ast, the call graph. Tabled sites rest on the stated construction arguments. Value-dependent IndexError/KeyError and recursion depth are not analysed.",
}


_USER_MAPS = ("dConfig", "dFixOnly", "configurationFile", "dConfiguration")


def _expand(fi, e, depth=0):
    """Text of e with single-assignment locals replaced by their defining expression (depth 2)."""
    if isinstance(e, ast.Name) and depth < 2:
        vals = [n.value for n in walk_function(fi.node) if isinstance(n, ast.Assign) and len(n.targets) == 1 and isinstance(n.targets[0], ast.Name) and n.targets[0].id == e.id]
        if len(vals) == 1 and isinstance(vals[0], (ast.Subscript, ast.Attribute, ast.Name)):
            return _expand(fi, vals[0], depth + 1)
        return e.id
    if isinstance(e, ast.Subscript):
        return "%s[%s]" % (_expand(fi, e.value, depth), norm(e.slice))
    return norm(e)


def _iter_text(fi, it):
    """what a for statement iterates over, with list()/sorted()/tuple()/.keys()/.items() wrappers removed and hoisted
    locals expanded"""
    while True:
        if isinstance(it, ast.Call) and isinstance(it.func, ast.Name) and it.func.id in ("list", "sorted", "tuple", "set") and len(it.args) == 1:
            it = it.args[0]
        elif isinstance(it, ast.Call) and isinstance(it.func, ast.Attribute) and it.func.attr in ("keys", "items") and not it.args:
            it = it.func.value
        else:
            break
    if isinstance(it, (ast.Name, ast.Subscript, ast.Attribute)):
        return _expand(fi, it)
    return norm(it)


def _in_keyerror_try(fi, node):
    q = getattr(node, "_parent", None)
    while q is not None and q is not fi.node:
        if isinstance(q, ast.Try) and any(node is y for st in q.body for y in ast.walk(st)):
            for h in q.handlers:
                ht = norm(h.type) if h.type is not None else "<bare>"
                if "KeyError" in ht or ht in ("<bare>", "Exception", "LookupError"):
                    return True
        q = getattr(q, "_parent", None)
    return False


def _user_keys(r, p, reach):
    n_sites = 0
    for fi in sorted(p.functions.values(), key=lambda f: f.key):
        if fi.key not in reach:
            continue
        facts = None
        subs = [x for x in walk_function(fi.node) if isinstance(x, ast.Subscript) and isinstance(x.ctx, ast.Load) and not isinstance(x.slice, (ast.Constant, ast.Slice))]
        if not subs:
            continue
        guarded_texts = set()
        for x in subs:
            if _in_keyerror_try(fi, x):
                guarded_texts.add(_expand(fi, x))
        for x in subs:
            full = _expand(fi, x)
            base = _expand(fi, x.value)
            if not any(m in base for m in _USER_MAPS):
                continue
            n_sites += 1
            kk = "%s:%s" % (fi.key, full[:80])
            key = norm(x.slice)
            if _in_keyerror_try(fi, x):
                r.ok("C19.key", kk, "inside try/except KeyError", sample=False)
                continue
            if facts is None:
                facts = Facts(fi.node)
            if any(key in t and ((pol is True and " in " in t and " not in " not in t) or (pol is False and " not in " in t)) for t, pol in facts.conds_at(x)):
                r.ok("C19.key", kk, "dominated by a membership test of the key", sample=False)
                continue
            loopkey = False
            q = getattr(x, "_parent", None)
            while q is not None and q is not fi.node:
                if isinstance(q, ast.For) and any(isinstance(y, ast.Name) and y.id in {z.id for z in ast.walk(x.slice) if isinstance(z, ast.Name)} for y in ast.walk(q.target)) and any(m in _iter_text(fi, q.iter) for m in _USER_MAPS):
                    loopkey = True
                q = getattr(q, "_parent", None)
            if loopkey:
                r.ok("C19.key", kk, "the key iterates over the mapping itself", sample=False)
                continue
            if full in guarded_texts and any(_in_keyerror_try(fi, y) and _expand(fi, y) == full and y.lineno < x.lineno for y in subs):
                r.ok("C19.key", kk, "the same look-up was made earlier inside try/except KeyError (the handler dealt with the missing key)")
                continue
            if r.tabled("C19.key", kk):
                r.ok("C19.key", kk, "tabled", sample=False)
                continue
            r.fail("C19.key", kk, "`%s` looks a computed key up in a user-supplied mapping without a guard (no try/except KeyError, no membership test, no earlier guarded look-up): a rule or name the user did not list raises KeyError - a traceback instead of a report" % norm(x)[:70], fi.loc(x))
    r.extra["user_mapping_lookups"] = n_sites
    if n_sites < 10:
        raise AnalysisError("only %d computed-key look-ups in user-supplied mappings found" % n_sites)


def _option_parse(r, p):
    """Options such as number_of_spaces accept documented textual forms ('>=2', '>1', '<=3', '<4', '2+').  The number is
    read with int(text[k:]) / int(text[:-k]): that is only right - and only free of ValueError - in a branch where the
    text is known to start (end) with a marker of exactly k characters."""
    import re as _re

    n_sites = 0
    for ci in sorted(p.classes.values(), key=lambda c: c.key):
        if not ci.module.name.startswith("vsg.rules"):
            continue
        sites = []
        for m in ci.methods.values():
            if m.cls is not ci:
                continue
            for n in walk_function(m.node):
                if isinstance(n, ast.Call) and isinstance(n.func, ast.Name) and n.func.id == "int" and len(n.args) == 1 and isinstance(n.args[0], ast.Subscript) and isinstance(n.args[0].slice, ast.Slice):
                    sub = n.args[0]
                    if isinstance(sub.value, ast.Attribute) and isinstance(sub.value.value, ast.Name) and sub.value.value.id == "self":
                        sites.append((m, n, sub))
        if not sites:
            continue
        # predicate methods of the class: `self.A.startswith(C)` / endswith, directly or as `if ...: return True`
        pred = {}
        for m in ci.methods.values():
            tests = [x for x in walk_function(m.node) if isinstance(x, ast.Call) and isinstance(x.func, ast.Attribute) and x.func.attr in ("startswith", "endswith") and len(x.args) == 1 and isinstance(x.args[0], ast.Constant) and isinstance(x.args[0].value, str)]
            rets = [x for x in walk_function(m.node) if isinstance(x, ast.Return)]
            if len(tests) == 1 and rets and len(m.params) == 1:
                pred["self.%s()" % m.name] = (norm(tests[0].func.value), tests[0].func.attr, tests[0].args[0].value)

        def guard_of(fi, node, attr_text):
            out = []
            for t, pol in Facts(fi.node).conds_at(node):
                if pol is not True:
                    continue
                if t in pred and pred[t][0] == attr_text:
                    out.append(pred[t][1:])
                mm = _re.fullmatch(_re.escape(attr_text) + r"\.(startswith|endswith)\('(.*)'\)", t)
                if mm:
                    out.append((mm.group(1), mm.group(2)))
            return out

        for m, n, sub in sites:
            n_sites += 1
            attr_text = norm(sub.value)
            lo, hi = sub.slice.lower, sub.slice.upper
            want = None
            if hi is None and isinstance(lo, ast.Constant) and isinstance(lo.value, int) and lo.value > 0:
                want = ("startswith", lo.value)
            elif (lo is None or (isinstance(lo, ast.Constant) and lo.value == 0)) and isinstance(hi, ast.UnaryOp) and isinstance(hi.op, ast.USub) and isinstance(hi.operand, ast.Constant):
                want = ("endswith", hi.operand.value)
            kk = "%s:%s" % (m.key, norm(n))
            if want is None:
                r.unknown("C19.parse", kk, "slice form not understood")
                continue
            gs = guard_of(m, n, attr_text)
            if not gs:
                # the method may be a branch of a dispatcher: every `self.m()` call site must carry the guard
                calls = [(g, c) for g in ci.methods.values() for c in walk_function(g.node) if isinstance(c, ast.Call) and norm(c.func) == "self.%s" % m.name]
                per_call = [guard_of(g, c, attr_text) for g, c in calls]
                if calls and all(per_call):
                    gs = [x for lst in per_call for x in lst]
            good = [g for g in gs if g[0] == want[0] and len(g[1]) == want[1]]
            wrong = [g for g in gs if g[0] == want[0] and len(g[1]) != want[1]]
            if good and not wrong:
                r.ok("C19.parse", kk, "under %s(%r)" % good[0], sample=n_sites < 4)
            elif wrong:
                r.fail("C19.parse", kk, "`%s` runs under %s(%r): the marker has %d character(s) but %d are cut off, so the number is read from the wrong place (ValueError on int(''), or a wrong count)" % (norm(n), wrong[0][0], wrong[0][1], len(wrong[0][1]), want[1]), m.loc(n))
            else:
                r.fail("C19.parse", kk, "`%s` is not dominated by a %s test of %s: a documented value of another textual form reaches it and int() raises ValueError - a traceback instead of a report" % (norm(n), want[0], attr_text), m.loc(n))
    r.extra["option_text_parses"] = n_sites
    if n_sites < 4:
        raise AnalysisError("only %d int(<option text slice>) sites found in rule classes" % n_sites)


def _self_attrs(r, p):
    bound = set()
    for m in p.modules.values():
        for n in ast.walk(m.tree):
            if isinstance(n, ast.Attribute) and isinstance(n.ctx, ast.Store):
                bound.add(n.attr)
            elif isinstance(n, (ast.FunctionDef, ast.ClassDef)):
                bound.add(n.name)
                if isinstance(n, ast.ClassDef):
                    for st in n.body:
                        if isinstance(st, ast.Assign):
                            for t in st.targets:
                                if isinstance(t, ast.Name):
                                    bound.add(t.id)
                        elif isinstance(st, ast.AnnAssign) and isinstance(st.target, ast.Name):
                            bound.add(st.target.id)
            elif isinstance(n, ast.Call) and isinstance(n.func, ast.Name) and n.func.id == "setattr" and len(n.args) >= 2 and isinstance(n.args[1], ast.Constant):
                bound.add(n.args[1].value)
    if len(bound) < 300:
        raise AnalysisError("only %d bound attribute names found" % len(bound))
    n_reads = 0
    for fi in sorted(p.functions.values(), key=lambda f: f.key):
        if not fi.params or fi.params[0] != "self":
            continue
        external = False
        if fi.cls is not None:
            for c in fi.cls.mro or [fi.cls]:
                if len(c.bases) != len(c.base_exprs) or any(b is None for b in c.bases):
                    if [norm(b) for b in c.base_exprs] != ["object"]:
                        external = True
        for n in walk_function(fi.node):
            if isinstance(n, ast.Attribute) and isinstance(n.ctx, ast.Load) and isinstance(n.value, ast.Name) and n.value.id == "self" and not n.attr.startswith("__"):
                n_reads += 1
                if n.attr in bound:
                    continue
                kk = "%s:self.%s" % (fi.key, n.attr)
                if external or r.tabled("C19.attr", kk):
                    r.ok("C19.attr", kk, "class has a base outside the analysed program / tabled", sample=False)
                    continue
                r.fail("C19.attr", kk, "`self.%s` is read in %s but no class, method, assignment or setattr anywhere in vsg binds an attribute of that name: AttributeError whenever this expression is evaluated" % (n.attr, fi.key), fi.loc(n))
    r.extra["self_attribute_reads"] = n_reads
    r.ok("C19.attr", "all", "%d attribute reads on self, every name is bound somewhere" % n_reads)


def run(ctx):
    p = ctx.program
    cg = ctx.callgraph()
    r = Result("C19")
    r.load_table("c19.json")
    r.rule("C19.none", "results that may be None are guarded before numeric/index/attribute use")
    r.rule("C19.shape", "no always-raising expression shapes")
    r.rule("C19.boundary", "ClassifyError/ConfigurationError boundary; classifier raises only ClassifyError")
    r.rule("C19.key", "computed-key look-ups in user-supplied mappings are guarded against a missing key")
    r.rule("C19.attr", "every attribute read on self is bound somewhere in the program")
    r.rule("C19.progress", "while loops in rules/extract make progress")
    r.rule("C19.unbound", "possibly-unbound locals (listing only)")
    r.rule("C19.parse", "int() of a slice of a configured text runs only under a startswith/endswith test of that text whose constant has exactly the sliced length")
    r.explanation = "Whole-program def-use over functions reachable from vsg.__main__:main / apply_rules; each rule's hits are individually triaged (fixed, known finding, or tabled with reason)."
    main = p.function("vsg.__main__:main")
    ar = p.function("vsg.apply_rules:apply_rules")
    reach = cg.reachable([main, ar])
    _user_keys(r, p, reach)
    _self_attrs(r, p)
    _option_parse(r, p)
    # ------------------------------------------------------------------ none
    mn = nf.may_none(p)
    r.extra["functions_that_may_return_none"] = len(mn)
    if len(mn) < 30:
        raise AnalysisError("only %d may-return-None functions found" % len(mn))
    uses = [u for u in nf.unguarded_uses(p, cg, mn) if u.fi.key in reach]
    n_sites = 0
    for k, sites in cg.sites.items():
        if k in reach:
            n_sites += len([s for s in sites if s.kind == "resolved" and s.targets and all(t.key in mn for t in s.targets)])
    r.extra["call_sites_of_may_none_functions"] = n_sites
    seen = set()
    for u in uses:
        kk = u.key
        if kk in seen:
            continue
        seen.add(kk)
        ent = r.tabled("C19.none", kk)
        if ent is not None and "callee_none_profile" in ent:
            prof = nf.none_profile(u.callee)
            if prof != ent["callee_none_profile"]:
                r.fail("C19.none", kk + ":callee-changed", "this use of a possibly-None result was triaged as safe when %s returned None under %s; it now does so under %s, so the recorded argument (%s) no longer applies: a TypeError traceback instead of a report" % (u.callee.key, ent["callee_none_profile"], prof, ent.get("reason", "")[:100]), u.fi.loc(u.node))
                continue
        r.fail(
            "C19.none",
            kk,
            "%s can return None (%s) and its result %sis used as %s without a guard: a TypeError/AttributeError traceback instead of a report"
            % (u.callee.key, "explicit return None" if mn[u.callee.key]["explicit"] else "falls off the end", ("`%s` " % u.var) if u.var else "", u.how),
            u.fi.loc(u.node),
        )
    r.ok("C19.none", "reach:main", "%d call sites of %d may-return-None functions examined; %d unguarded use(s)" % (n_sites, len(mn), len(seen)))
    # ----------------------------------------------------------------- shape
    n_shape = 0
    for fi in p.functions.values():
        if fi.key not in reach:
            continue
        for n in walk_function(fi.node):
            if isinstance(n, ast.BinOp) and isinstance(n.op, (ast.Add, ast.Sub, ast.Mult)):
                l, rr = n.left, n.right
                for a, b in ((l, rr), (rr, l)):
                    seq = (isinstance(a, ast.Subscript) and isinstance(a.slice, ast.Slice)) or (isinstance(a, ast.Constant) and isinstance(a.value, str)) or isinstance(a, (ast.List, ast.JoinedStr))
                    num = isinstance(b, ast.Constant) and isinstance(b.value, (int, float)) and not isinstance(b.value, bool)
                    none = isinstance(b, ast.Constant) and b.value is None
                    if (seq and num and isinstance(n.op, (ast.Add, ast.Sub))) or none:
                        n_shape += 1
                        r.fail("C19.shape", "%s:%s" % (fi.key, norm(n)[:70]), "`%s` combines %s with %s: this raises TypeError whenever it is evaluated" % (norm(n)[:70], "a slice/string/list" if seq else "a value", "a number" if num else "None"), fi.loc(n))
    r.ok("C19.shape", "reach:main", "%d always-raising expression(s) found" % n_shape)
    # -------------------------------------------------------------- boundary
    facts = Facts(ar.node)
    handlers = [(norm(h.type) if h.type is not None else "<bare>", h) for n in walk_function(ar.node) if isinstance(n, ast.Try) for h in n.handlers]
    names = sorted(h[0] for h in handlers)
    if "ClassifyError" in names and "ConfigurationError" in names:
        for ht, h in handlers:
            if ht in ("ClassifyError", "ConfigurationError", "OSError"):
                if facts.handler_falls_through.get(id(h), True):
                    r.fail("C19.boundary", "%s:handler:%s:falls-through" % (ar.key, ht), "the %s handler does not return: processing continues with a half-built state" % ht, ar.loc(h))
                else:
                    r.ok("C19.boundary", "%s:handler:%s" % (ar.key, ht), "caught and turned into a per-file error result")
            else:
                r.fail("C19.boundary", "%s:handler:%s" % (ar.key, ht), "apply_rules catches %s: unexpected errors are hidden or misreported" % ht, ar.loc(h))
    else:
        r.fail("C19.boundary", ar.key + ":handlers", "apply_rules no longer catches ClassifyError and ConfigurationError (has %s)" % names, ar.loc())
    # main continues with the remaining files unless told to stop: the stop flag is only truthy for the configuration/local-rules errors
    # (the flag is the last element of the result tuple; main() breaks out of its file loop when it is truthy.  Its value is
    # resolved through module-level constants and one level of helper calls, so it does not matter where the tuple is built.)
    def module_const(mod, name):
        vals = [st.value for st in mod.tree.body if isinstance(st, ast.Assign) and any(isinstance(t, ast.Name) and t.id == name for t in st.targets)]
        if len(vals) == 1 and isinstance(vals[0], ast.Constant):
            return vals[0].value
        return "?"

    def flag_values(fi, ret, depth=0, env=None):
        """env: parameter name -> set of flag values the caller passes for it"""
        v = ret.value

        def value_of(e, fi_, env_):
            if isinstance(e, ast.Constant):
                return {e.value}
            if isinstance(e, ast.Name):
                if env_ and e.id in env_:
                    return env_[e.id]
                return {module_const(fi_.module, e.id)}
            return {"?"}

        if isinstance(v, ast.Tuple) and v.elts:
            return value_of(v.elts[-1], fi, env)
        if isinstance(v, ast.Call) and isinstance(v.func, ast.Name) and depth < 2:
            ent = p.resolve_expr(fi.module, v.func)
            if ent and ent[0] == "func":
                callee = ent[1]
                env2 = {pn: value_of(a, fi, env) for pn, a in zip(callee.params, v.args)}
                out = set()
                for rr in walk_function(callee.node):
                    if isinstance(rr, ast.Return) and rr.value is not None:
                        out |= flag_values(callee, rr, depth + 1, env2)
                return out or {"?"}
        return {"?"}

    n_flag = 0
    for n in [x for x in walk_function(ar.node) if isinstance(x, ast.Return) and x.value is not None]:
        hs = facts.in_handler(n)
        if hs and hs[0] == "ClassifyError":
            n_flag += 1
            vals = flag_values(ar, n)
            if vals != {False}:
                r.fail("C19.boundary", ar.key + ":classify-error-stops-run", "the result returned for a file that fails to parse carries the stop flag %s (must be the falsy keep-going constant): main() leaves its file loop and the remaining files are never analysed" % sorted(str(x) for x in vals), ar.loc(n))
            else:
                r.ok("C19.boundary", ar.key + ":classify-error-continues", "a rejected file returns the keep-going flag: the remaining files are still processed")
    if not n_flag:
        r.fail("C19.boundary", ar.key + ":classify-error-stops-run", "the ClassifyError handler of apply_rules does not return a per-file result", ar.loc())
    cls_raises = 0
    for fi in p.functions.values():
        mnm = fi.module.name
        if not (mnm.startswith("vsg.vhdlFile.classify") or mnm in ("vsg.vhdlFile.utils", "vsg.vhdlFile.vhdlFile")):
            continue
        for n in walk_function(fi.node):
            if isinstance(n, ast.Raise):
                cls_raises += 1
                t = norm(n.exc) if n.exc is not None else "<re-raise>"
                if "ClassifyError" in t or t in ("e", "<re-raise>"):
                    r.ok("C19.boundary", "%s:raise" % fi.key, t[:60], sample=False, nontrivial=False)
                else:
                    r.fail("C19.boundary", "%s:raise:%s" % (fi.key, t[:40]), "the classifier raises %s, which apply_rules does not catch: a traceback instead of a located syntax message" % t[:60], fi.loc(n))
    if cls_raises < 3:
        raise AnalysisError("classifier raise sites not found")
    # closing-token searches raise instead of falling off
    for name in ("skip_tokens_until_matching_closing_paren", "assign_tokens_until_matching_closing_paren"):
        fi = p.function("vsg.vhdlFile.utils:" + name)
        if fi.key in mn:
            r.fail("C19.boundary", fi.key + ":falls-off", "%s returns None when the closing parenthesis is missing: callers add 1 to it (TypeError) instead of reporting a syntax error" % name, fi.loc())
        else:
            r.ok("C19.boundary", fi.key, "raises the located ClassifyError when the closing parenthesis is missing")
    # running off the end of the token list: the classifier indexes lObjects[iToken] as it advances, so a file that ends
    # inside a construct raises IndexError somewhere in 246 classifier modules; the single call that starts
    # classification must turn that into the ClassifyError the per-file boundary understands
    pf = p.function("vsg.vhdlFile.vhdlFile:vhdlFile._processFile")
    starts = [n for n in walk_function(pf.node) if isinstance(n, ast.Call) and norm(n.func).endswith("design_file.tokenize")]
    if not starts:
        raise AnalysisError("_processFile no longer starts classification through design_file.tokenize")
    for c in starts:
        good = False
        q = getattr(c, "_parent", None)
        while q is not None and q is not pf.node:
            if isinstance(q, ast.Try) and any(c is x for st in q.body for x in ast.walk(st)):
                for h in q.handlers:
                    ht = norm(h.type) if h.type is not None else ""
                    if "IndexError" in ht and any(isinstance(x, ast.Raise) and x.exc is not None and "ClassifyError" in norm(x.exc) for x in ast.walk(h)):
                        good = True
            q = getattr(q, "_parent", None)
        if good:
            r.ok("C19.boundary", pf.key + ":end-of-file", "IndexError while classifying (file ends inside a construct) is converted into ClassifyError")
        else:
            r.fail("C19.boundary", pf.key + ":end-of-file", "classification is started without converting IndexError into ClassifyError: a file that ends in the middle of a construct produces a traceback and stops the whole run instead of a syntax message for that file", pf.loc(c))
    # broad handlers in the engine
    for fi in p.functions.values():
        if fi.key not in reach:
            continue
        for n in walk_function(fi.node):
            if isinstance(n, ast.Try):
                for h in n.handlers:
                    ht = norm(h.type) if h.type is not None else "<bare>"
                    if ht in ("<bare>", "Exception", "BaseException"):
                        kk = "%s:except-%s" % (fi.key, ht)
                        if r.tabled("C19.boundary", kk):
                            r.ok("C19.boundary", kk, "tabled broad handler", sample=False)
                        else:
                            r.fail("C19.boundary", kk, "broad `except %s` in code reachable from the CLI: it can swallow a genuine defect and continue with wrong state" % ht, fi.loc(h))
    # -------------------------------------------------------------- progress
    n_while = 0
    for fi in p.functions.values():
        if not fi.module.name.startswith(("vsg.rules", "vsg.vhdlFile.extract")):
            continue
        for w in [n for n in walk_function(fi.node) if isinstance(n, ast.While)]:
            n_while += 1
            cvars = {x.id for x in ast.walk(w.test) if isinstance(x, ast.Name)}
            cattrs = {norm(x) for x in ast.walk(w.test) if isinstance(x, ast.Attribute)}
            kk = "%s:while %s" % (fi.key, norm(w.test)[:60])
            if isinstance(w.test, ast.Constant) and w.test.value is True:
                if any(isinstance(x, (ast.Break, ast.Return)) for x in ast.walk(w)):
                    r.ok("C19.progress", kk, "while True with an exit", sample=False)
                else:
                    r.fail("C19.progress", kk, "`while True` without break/return", fi.loc(w))
                continue
            ok_all, why = _progress(w, cvars, cattrs)
            if ok_all:
                r.ok("C19.progress", kk, why, sample=n_while < 4)
            else:
                r.unknown("C19.progress", kk, why)
    r.extra["while_loops_in_rules_and_extract"] = n_while
    # --------------------------------------------------------------- unbound
    ub = _possibly_unbound(p, reach)
    r.extra["possibly_unbound_locals"] = len(ub)
    for fi, name, node in ub[:60]:
        r.unknown("C19.unbound", "%s:%s" % (fi.key, name), "possibly unbound on some syntactic path (listing only)")
    return r


def _progress(w, cvars, cattrs):
    """Every path through the body assigns a condition variable, mutates a list named in the condition, or leaves."""

    def block_progress(stmts):
        for s in stmts:
            if isinstance(s, (ast.Return, ast.Break, ast.Raise)):
                return True
            if isinstance(s, (ast.Assign, ast.AugAssign)):
                ts = s.targets if isinstance(s, ast.Assign) else [s.target]
                for t in ts:
                    for x in ast.walk(t):
                        if isinstance(x, ast.Name) and x.id in cvars:
                            return True
                        if isinstance(x, ast.Attribute) and norm(x) in cattrs:
                            return True
            if isinstance(s, ast.Expr) and isinstance(s.value, ast.Call) and isinstance(s.value.func, ast.Attribute) and isinstance(s.value.func.value, ast.Name) and s.value.func.value.id in cvars and s.value.func.attr in ("pop", "remove", "append", "clear", "insert", "extend"):
                return True
            if isinstance(s, ast.If):
                if block_progress(s.body) and block_progress(s.orelse):
                    return True
            if isinstance(s, ast.Try):
                if block_progress(s.body):
                    return True
        return False

    if block_progress(w.body):
        return True, "every path through the body changes %s or leaves" % (sorted(cvars) or sorted(cattrs))
    return False, "not every syntactic path through the body changes %s" % sorted(cvars)


def _possibly_unbound(p, reach):
    out = []
    for fi in p.functions.values():
        if fi.key not in reach:
            continue
        try:
            out.extend(_unbound_in(fi))
        except RecursionError:
            continue
    return out


def _unbound_in(fi):
    """Tiny definite-assignment analysis over the structured flow."""
    params = set(fi.params) | set(fi.kwonly)
    if fi.vararg:
        params.add(fi.vararg)
    if fi.kwarg:
        params.add(fi.kwarg)
    found = []
    assigned_anywhere = {n.id for n in walk_function(fi.node) if isinstance(n, ast.Name) and isinstance(n.ctx, ast.Store)}

    def stores(node):
        return {x.id for x in ast.walk(node) if isinstance(x, ast.Name) and isinstance(x.ctx, ast.Store)}

    def check_loads(node, defined):
        for x in ast.walk(node):
            if isinstance(x, ast.Name) and isinstance(x.ctx, ast.Load) and x.id in assigned_anywhere and x.id not in defined and x.id not in params:
                if not any(f[1] == x.id for f in found):
                    found.append((fi, x.id, x))

    def block(stmts, defined):
        d = set(defined)
        for s in stmts:
            if d is None:
                return None
            if isinstance(s, ast.If):
                check_loads(s.test, d)
                a = block(s.body, d)
                b = block(s.orelse, d)
                if a is None and b is None:
                    return None
                d = (a if b is None else b if a is None else a & b)
            elif isinstance(s, (ast.For, ast.While)):
                if isinstance(s, ast.For):
                    check_loads(s.iter, d)
                    inner = d | stores(s.target)
                else:
                    check_loads(s.test, d)
                    inner = set(d)
                block(s.body, inner)
                if s.orelse:
                    block(s.orelse, d)
            elif isinstance(s, ast.Try):
                a = block(s.body, d)
                outs = [a]
                for h in s.handlers:
                    hd = set(d)
                    if h.name:
                        hd.add(h.name)
                    outs.append(block(h.body, hd))
                outs = [o for o in outs if o is not None]
                if not outs:
                    return None
                nd = outs[0]
                for o in outs[1:]:
                    nd = nd & o
                d = nd
                if s.finalbody:
                    r2 = block(s.finalbody, d)
                    if r2 is None:
                        return None
                    d = r2
            elif isinstance(s, ast.With):
                for it in s.items:
                    check_loads(it.context_expr, d)
                    if it.optional_vars is not None:
                        d |= stores(it.optional_vars)
                d = block(s.body, d)
            elif isinstance(s, (ast.Return, ast.Raise)):
                check_loads(s, d)
                return None
            elif isinstance(s, (ast.Break, ast.Continue)):
                return None
            elif isinstance(s, (ast.FunctionDef, ast.ClassDef)):
                d.add(s.name)
            else:
                if isinstance(s, (ast.Assign, ast.AnnAssign)):
                    v = getattr(s, "value", None)
                    if v is not None:
                        check_loads(v, d)
                elif isinstance(s, ast.AugAssign):
                    check_loads(s.value, d)
                    if isinstance(s.target, ast.Name) and s.target.id not in d and s.target.id not in params:
                        if not any(f[1] == s.target.id for f in found):
                            found.append((fi, s.target.id, s.target))
                else:
                    check_loads(s, d)
                d |= stores(s)
                if isinstance(s, (ast.Import, ast.ImportFrom)):
                    for al in s.names:
                        d.add((al.asname or al.name).split(".")[0])
        return d

    block(fi.node.body, set())
    return found


VARIANTS = [
    Variant("C19", "every non-integer, non-plus form of number_of_spaces parsed as text[2:]", "fire",
            [("vsg/rules/whitespace_between_tokens.py", "        elif self.number_of_spaces_is_gt():\n            return int(self.number_of_spaces[1:])", "        elif self.number_of_spaces_is_gt():\n            return int(self.number_of_spaces[2:])")],
            rule="C19.parse"),
    Variant("C19", "twin: the '>' form tested with startswith in place", "silent",
            [("vsg/rules/whitespace_between_tokens.py", "        elif self.number_of_spaces_is_gt():\n            return int(self.number_of_spaces[1:])", "        elif self.number_of_spaces.startswith(\">\"):\n            return int(self.number_of_spaces[1:])")]),
    Variant("C19", "line-start look-up answers None for every token of the first line", "fire",
            [("vsg/token_map.py", "        if iIndex == 0:\n            return None\n        iTemp = bisect.bisect_left(self.dMap[\"parser\"][\"carriage_return\"], iIndex) - 1\n        if iIndex < self.dMap[\"parser\"][\"carriage_return\"][iTemp]:\n            return iIndex\n", "        iTemp = bisect.bisect_left(self.dMap[\"parser\"][\"carriage_return\"], iIndex) - 1\n        if iTemp < 0:\n            return None\n")],
            rule="C19.none", key="callee-changed"),
    Variant("C19", "twin: the index-0 test of the line-start look-up held in a local", "silent",
            [("vsg/token_map.py", "    def get_index_of_carriage_return_before_index(self, iIndex):\n        if iIndex == 0:\n            return None", "    def get_index_of_carriage_return_before_index(self, iIndex):\n        bFirstToken = iIndex == 0\n        if bFirstToken:\n            return None")]),
    Variant("C19", "parse-error result built by a helper that returns the stop flag", "fire",
            [("vsg/apply_rules.py", "        sOutputErr = f\"Error while processing {sFileName}: {e.message}\"\n        return fExitStatus, testCase, dJsonEntry, sOutputStd, sOutputErr, bKeepProcessingFiles", "        return create_error_result(sFileName, e, testCase)"),
             ("vsg/apply_rules.py", "def create_junit_testcase(sVhdlFileName, oException):", "def create_error_result(sFileName, oException, testCase):\n    dJsonEntry = {\"file_path\": sFileName, \"violations\": []}\n    return True, testCase, dJsonEntry, \"\", f\"Error while processing {sFileName}: {oException.message}\", bStopProcessingFiles\n\n\ndef create_junit_testcase(sVhdlFileName, oException):")], rule="C19.boundary", key="classify-error-stops-run"),
    Variant("C19", "twin: parse-error result built by a helper that returns the keep-going flag", "silent",
            [("vsg/apply_rules.py", "        sOutputErr = f\"Error while processing {sFileName}: {e.message}\"\n        return fExitStatus, testCase, dJsonEntry, sOutputStd, sOutputErr, bKeepProcessingFiles", "        return create_error_result(sFileName, e, testCase)"),
             ("vsg/apply_rules.py", "def create_junit_testcase(sVhdlFileName, oException):", "def create_error_result(sFileName, oException, testCase):\n    dJsonEntry = {\"file_path\": sFileName, \"violations\": []}\n    return True, testCase, dJsonEntry, \"\", f\"Error while processing {sFileName}: {oException.message}\", bKeepProcessingFiles\n\n\ndef create_junit_testcase(sVhdlFileName, oException):")]),
    Variant("C19", "analysis reads a rule attribute nobody defines", "fire",
            [("vsg/rules/previous_line.py", "            if isinstance(lTokens[0], parser.blank_line) or token_is_comment(lTokens[0]):\n                continue", "            if isinstance(lTokens[0], parser.blank_line) or (token_is_comment(lTokens[0]) and self.allow_comment):\n                continue")], rule="C19.attr"),
    Variant("C19", "fix_only look-up loses its KeyError guard", "fire",
            [("vsg/rule.py", "        try:\n            if \"all\" in dFixOnly[\"fix\"][\"rule\"][self.unique_id]:\n                return\n        except KeyError:\n            self.violations = []\n", "        dFixRules = dFixOnly[\"fix\"][\"rule\"]\n        if \"all\" in dFixRules.get(self.unique_id, []):\n            return\n"),
             ("vsg/rule.py", "            if oViolation.get_line_number() in dFixOnly[\"fix\"][\"rule\"][self.unique_id]:", "            if oViolation.get_line_number() in dFixRules[self.unique_id]:")], rule="C19.key"),
    Variant("C19", "twin: fix_only look-up guarded by a membership test", "silent",
            [("vsg/rule.py", "        try:\n            if \"all\" in dFixOnly[\"fix\"][\"rule\"][self.unique_id]:\n                return\n        except KeyError:\n            self.violations = []\n", "        if self.unique_id not in dFixOnly[\"fix\"][\"rule\"]:\n            self.violations = []\n            return\n        if \"all\" in dFixOnly[\"fix\"][\"rule\"][self.unique_id]:\n            return\n")]),
    Variant("C19", "end-of-file IndexError no longer converted", "fire",
            [("vsg/vhdlFile/vhdlFile.py", "            try:\n                design_file.tokenize(self.lAllObjects)\n            except IndexError:\n                raise exceptions.ClassifyError(\"Error: Unexpected end of file detected while parsing file \" + str(self.filename))\n", "            design_file.tokenize(self.lAllObjects)\n")], rule="C19.boundary", key="end-of-file"),
    Variant("C19", "guard removed from open_paren_after_assignment_operator", "fire",
            [("vsg/rules/utils.py", "    iToken = get_index_of_token_in_list(assignment_operator, lTokens)\n    if iToken is None:\n        return False\n    return is_next_token_ignoring_whitespace(parser.open_parenthesis, iToken, lTokens)", "    iToken = get_index_of_token_in_list(assignment_operator, lTokens)\n    return is_next_token_ignoring_whitespace(parser.open_parenthesis, iToken, lTokens)")],
            rule="C19.none", key="open_paren_after_assignment_operator"),
    Variant("C19", "new use of an optional index in arithmetic", "fire",
            [("vsg/rules/utils.py", "def remove_tois_with_pragmas(lToi):", "def index_after_token(oToken, lTokens):\n    return get_index_of_token_in_list(oToken, lTokens) + 1\n\n\ndef remove_tois_with_pragmas(lToi):\n    index_after_token(token.pragma.pragma, [])")],
            rule="C19.none", key="index_after_token"),
    Variant("C19", "string slice plus integer inside int()", "fire",
            [("vsg/rules/whitespace_between_tokens.py", "        elif self.number_of_spaces_is_gt():\n            return int(self.number_of_spaces[1:])", "        elif self.number_of_spaces_is_gt():\n            return int(self.number_of_spaces[1:] + 1)")], rule="C19.shape"),
    Variant("C19", "closing-paren search falls off again", "fire",
            [("vsg/vhdlFile/utils.py", "        iCurrent += 1\n    print_missing_error_message([\")\"], iToken, lObjects)\n", "        iCurrent += 1\n")], rule="C19.boundary", key="skip_tokens_until_matching_closing_paren"),
    Variant("C19", "classifier raises ValueError", "fire",
            [("vsg/vhdlFile/utils.py", "    raise exceptions.ClassifyError(sErrorMessage)\n\n\ndef print_missing_error_message", "    raise ValueError(sErrorMessage)\n\n\ndef print_missing_error_message")], rule="C19.boundary", key="raise"),
    Variant("C19", "apply_rules swallows everything", "fire",
            [("vsg/apply_rules.py", "    except ClassifyError as e:\n        fExitStatus = True\n        testCase = create_junit_testcase(sFileName, e)", "    except Exception as e:\n        fExitStatus = True\n        testCase = create_junit_testcase(sFileName, e)")], rule="C19.boundary"),
    Variant("C19", "twin: optional index checked with `is not None`", "silent",
            [("vsg/rules/utils.py", "    iToken = get_index_of_token_in_list(assignment_operator, lTokens)\n    if iToken is None:\n        return False\n    return is_next_token_ignoring_whitespace(parser.open_parenthesis, iToken, lTokens)", "    iToken = get_index_of_token_in_list(assignment_operator, lTokens)\n    if iToken is not None:\n        return is_next_token_ignoring_whitespace(parser.open_parenthesis, iToken, lTokens)\n    return False")]),
]
