# -*- coding: utf-8 -*-
"""
C05 - token classification does not depend on layout, comments or letter case (necessary conditions).

  C05.neighbour  navigation discipline: inside the classifier (vsg/vhdlFile/classify, the post passes of
                 vhdlFile.py, vhdlFile/utils.py) a token list is never indexed at `i +/- constant`, because
                 the neighbour may be whitespace, a line break or a comment.  The sites that exist today are
                 lexically adjacent by the VHDL grammar or are about layout by definition; each is tabled
                 with its reason and any new one is a violation.
  C05.skipset    the predicates that define "skippable" are siblings and must agree: every `*_or_comment`
                 predicate skips at least {whitespace, carriage_return, blank_line, comment}, every plain
                 whitespace predicate at least {whitespace, carriage_return, blank_line}; the raw-item test of
                 find_next_token is `type(x) == parser.item`.
  C05.scan       look-around in the classifier and its post passes skips comments: a scan loop (or helper)
                 that steps over tokens under a predicate must use one whose skip set contains comments -
                 otherwise adding a comment changes the role of the token after it.
  C05.case       comparisons of token text with literals are case-insensitive: no `get_value()` (unlowered)
                 compared with a literal containing a letter, no lowered value compared with a literal containing
                 an upper-case letter.
Does not decide: role equality under re-layout (behaviour of ~8 300 lines of look-ahead); the per-line stages
(comment continuation, pragma regular expressions on the raw line) are line-based by design.
"""

import ast

from ..model import AnalysisError, norm, walk_function
from ..report import Result
from ..selftest import Variant

LEVEL = "other"
META = {
    "technique": "static analysis: repository-specific lints over the classifier's syntax tree - neighbour-index enumeration against a triaged table, evaluation of the skip predicates to class sets and sibling comparison, scan-loop predicate check, case-sensitivity comparison lint, single-step skip lint",
    "level_text": "Lint-level necessary conditions, for all inputs: the classifier never looks at a fixed-offset neighbour (except triaged lexically-adjacent cases), all "
    "look-around goes through predicates that skip whitespace, line breaks and comments alike, and text comparisons are case-insensitive. These are the "
    "ways a hand-written classifier becomes layout-dependent; role equality itself is not decided.",
    "level_note": "Trusted base: CPython ast, the analyser. The tabled neighbour sites are assumptions about lexical adjacency recorded with their reason.",
}

LISTS = ("lObjects", "lTokens", "lAllObjects", "self.lAllObjects", "lAllTokens")


def _in_scope(fi):
    mn = fi.module.name
    return mn.startswith("vsg.vhdlFile.classify") or mn in ("vsg.vhdlFile.vhdlFile", "vsg.vhdlFile.utils")


def _pred_classes(p, fi):
    """Set of 'module:Class' a boolean predicate function accepts through isinstance tests (returns True)."""
    out = set()
    for n in walk_function(fi.node):
        if isinstance(n, ast.Call) and isinstance(n.func, ast.Name) and n.func.id == "isinstance" and len(n.args) == 2:
            ks = n.args[1].elts if isinstance(n.args[1], ast.Tuple) else [n.args[1]]
            for k in ks:
                ent = p.resolve_expr(fi.module, k) if isinstance(k, (ast.Name, ast.Attribute)) else None
                if ent and ent[0] == "class":
                    out.add(ent[1].key)
        # token_map style: self.is_token_at_index(parser.whitespace, iIndex)
        if isinstance(n, ast.Call) and isinstance(n.func, ast.Attribute) and n.func.attr == "is_token_at_index" and n.args:
            k = n.args[0]
            ent = p.resolve_expr(fi.module, k) if isinstance(k, (ast.Name, ast.Attribute)) else None
            if ent and ent[0] == "class":
                out.add(ent[1].key)
    return out


WS = {"vsg.parser:whitespace", "vsg.parser:carriage_return", "vsg.parser:blank_line"}
CM = {"vsg.parser:comment"}


def run(ctx):
    p = ctx.program
    r = Result("C05")
    r.load_table("c05.json")
    r.rule("C05.neighbour", "no fixed-offset neighbour indexing in the classifier (triaged exceptions tabled)")
    r.rule("C05.skipset", "skip predicates agree on what is skippable")
    r.rule("C05.scan", "look-around skips comments as well as whitespace")
    r.rule("C05.case", "text comparisons are case-insensitive")
    r.rule("C05.position", "no tokenizer decision depends on the absolute position of an element within the line")
    r.explanation = "Syntax-tree lints restricted to the classifier modules; predicates are evaluated to the set of token classes they accept."
    # ------------------------------------------------------------- position
    # the tokenizer works on one physical line at a time; if a decision depended on *where in the line* an element stands
    # (index parity, index compared with a constant) the tokens of a statement would depend on what else shares its line
    n_loops = 0
    for fi in sorted(p.functions.values(), key=lambda f: f.key):
        if fi.module.name != "vsg.tokens":
            continue
        idx = set()
        for n in walk_function(fi.node):
            if isinstance(n, ast.For):
                n_loops += 1
                if isinstance(n.iter, ast.Call) and norm(n.iter.func) == "enumerate" and isinstance(n.target, ast.Tuple):
                    idx.add(norm(n.target.elts[0]))
                elif isinstance(n.iter, ast.Call) and norm(n.iter.func) == "range" and isinstance(n.target, ast.Name):
                    idx.add(n.target.id)
        for n in walk_function(fi.node):
            bad = None
            if isinstance(n, ast.BinOp) and isinstance(n.op, (ast.Mod, ast.FloorDiv, ast.BitAnd)) and any(isinstance(x, ast.Name) and x.id in idx for x in ast.walk(n)):
                bad = n
            elif isinstance(n, ast.Compare) and any(isinstance(c, ast.Constant) and isinstance(c.value, int) for c in [n.left] + list(n.comparators)) and any(isinstance(x, ast.Name) and x.id in idx for x in ast.walk(n)) and not any(isinstance(x, ast.Call) and norm(x.func) == "len" for x in ast.walk(n)):
                bad = n
            if bad is not None:
                r.fail("C05.position", "%s:%s" % (fi.key, norm(bad)[:60]), "the tokenizer decides on `%s`, the absolute position of an element within the line: the same statement is tokenized differently depending on what precedes it on its line (joining or splitting lines changes the roles)" % norm(bad)[:60], fi.loc(bad))
    if n_loops < 8:
        raise AnalysisError("only %d loops found in vsg/tokens.py" % n_loops)
    r.ok("C05.position", "vsg.tokens", "%d loops: indexes are used for neighbour access and slicing only" % n_loops)
    # ------------------------------------------------------------ neighbour
    n_sites = 0
    for fi in sorted(p.functions.values(), key=lambda f: f.key):
        if not _in_scope(fi):
            continue
        for x in walk_function(fi.node):
            if isinstance(x, ast.Subscript) and not isinstance(x.slice, ast.Slice):
                s = x.slice
                if isinstance(s, ast.BinOp) and isinstance(s.op, (ast.Add, ast.Sub)) and isinstance(s.right, ast.Constant) and isinstance(s.right.value, int) and norm(x.value).startswith(LISTS):
                    n_sites += 1
                    kk = "%s:%s" % (fi.key, norm(x))
                    r.fail(
                        "C05.neighbour",
                        kk,
                        "the classifier looks at the fixed-offset neighbour `%s`: whitespace, a line break or a comment between the two tokens changes what it sees" % norm(x),
                        fi.loc(x),
                    )
    # look-ahead helpers that compare *adjacent* list positions (advance by one without a skip helper) are the same
    # hazard behind a function call: derived by shape, then who-may-call - nobody in the classifier scope
    adjacent = {}
    for fi in p.functions.values():
        if fi.module.name != "vsg.vhdlFile.utils" or fi.cls is not None:
            continue
        loops = [n for n in walk_function(fi.node) if isinstance(n, (ast.While, ast.For))]
        if not loops or len(fi.params) < 3:
            continue
        idx_subs = [n for n in walk_function(fi.node) if isinstance(n, ast.Subscript) and isinstance(n.slice, ast.Name) and norm(n.value) in fi.params and not isinstance(n.slice, ast.Slice)]
        steps = [n for n in walk_function(fi.node) if isinstance(n, ast.AugAssign) and isinstance(n.op, ast.Add) and isinstance(n.value, ast.Constant) and n.value.value == 1]
        skips = [n for n in walk_function(fi.node) if isinstance(n, ast.Call) and (norm(n.func).startswith("find_next") or norm(n.func).startswith("find_previous"))]
        takes_types = any(isinstance(n, ast.Call) and norm(n.func) == "isinstance" and len(n.args) == 2 and isinstance(n.args[1], ast.Subscript) for n in walk_function(fi.node))
        if idx_subs and steps and not skips and takes_types and any(norm(s.target) == norm(x.slice) for s in steps for x in idx_subs):
            adjacent[fi.name] = fi
    r.extra["adjacent_lookahead_helpers"] = sorted(adjacent)
    if "are_next_consecutive_token_types" not in adjacent:
        raise AnalysisError("the exact-adjacency look-ahead helper is no longer recognised by shape (found %s)" % sorted(adjacent))
    for fi in sorted(p.functions.values(), key=lambda f: f.key):
        if not _in_scope(fi) or fi.name in adjacent:
            continue
        for x in walk_function(fi.node):
            if isinstance(x, ast.Call) and norm(x.func).split(".")[-1] in adjacent:
                kk = "%s:%s" % (fi.key, norm(x))
                n_sites += 1
                r.fail("C05.neighbour", kk, "the classifier uses the exact-adjacency look-ahead `%s`: it matches a fixed sequence of list positions, so whitespace, a line break or a comment between the tokens changes what it sees (the `_ignoring_whitespace` variant skips them)" % norm(x)[:70], fi.loc(x))
    # the same hazard through a helper that looks at exactly the position it is given: a loop-free function of
    # vhdlFile/utils.py that subscripts its list parameter with its index parameter (derived by shape) and is called
    # from the classifier with `i + c` / `i - c`
    exact = {}
    for fi in p.functions.values():
        if fi.module.name != "vsg.vhdlFile.utils" or fi.cls is not None:
            continue
        if any(isinstance(n, (ast.For, ast.While)) for n in walk_function(fi.node)):
            continue
        for n in walk_function(fi.node):
            if isinstance(n, ast.Subscript) and isinstance(n.slice, ast.Name) and n.slice.id in fi.params and isinstance(n.value, ast.Name) and n.value.id in fi.params:
                exact.setdefault(fi.name, set()).add(fi.params.index(n.slice.id))
    r.extra["exact_position_helpers"] = sorted(exact)
    if "object_value_is" not in exact:
        raise AnalysisError("the exact-position helpers are no longer recognised by shape (found %s)" % sorted(exact))
    for fi in sorted(p.functions.values(), key=lambda f: f.key):
        if not _in_scope(fi):
            continue
        for x in walk_function(fi.node):
            if not isinstance(x, ast.Call):
                continue
            fn = norm(x.func).split(".")[-1]
            for i in exact.get(fn, ()):
                a = x.args[i] if i < len(x.args) else None
                if isinstance(a, ast.BinOp) and isinstance(a.op, (ast.Add, ast.Sub)) and isinstance(a.right, ast.Constant) and isinstance(a.right.value, int) and a.right.value != 0:
                    n_sites += 1
                    kk = "%s:%s" % (fi.key, norm(x))
                    r.fail("C05.neighbour", kk, "the classifier hands the fixed-offset position `%s` to %s(), which looks at exactly that position: whitespace, a line break or a comment between the two tokens changes what it sees" % (norm(a), fn), fi.loc(x))
    r.extra["neighbour_sites"] = n_sites
    if n_sites < 10:
        raise AnalysisError("only %d neighbour-index sites found (expected ~21): enumeration broken" % n_sites)
    # -------------------------------------------------------------- skipset
    preds = {
        "vsg.vhdlFile.utils:token_is_whitespace_or_comment": "or_comment",
        "vsg.vhdlFile.utils:is_whitespace": "or_comment",
        "vsg.vhdlFile.utils:token_is_whitespace": "plain",
        "vsg.token_map:New.is_token_at_index_whitespace": "plain",
        "vsg.token_map:New.is_token_at_index_whitespace_or_comment": "or_comment",
    }
    sets = {}
    for key, kind in preds.items():
        fi = p.function(key)
        cs = _pred_classes(p, fi)
        sets[key] = cs
        need = WS | (CM if kind == "or_comment" else set())
        miss = need - cs
        if miss:
            r.fail("C05.skipset", key, "skip predicate %s does not skip %s: look-around through it is sensitive to %s" % (fi.name, sorted(miss), "comments" if miss & CM else "layout"), fi.loc())
        else:
            r.ok("C05.skipset", key, "skips %s" % sorted(c.split(":")[1] for c in cs))
    r.extra["skip_sets"] = {k: sorted(v) for k, v in sets.items()}
    fnt = p.function("vsg.vhdlFile.utils:find_next_token")
    tests = [norm(n.test) for n in walk_function(fnt.node) if isinstance(n, ast.If)]
    if tests == ["type(oToken) == parser.item"]:
        r.ok("C05.skipset", fnt.key, "raw-item search: skips everything already classified (whitespace, comments, pragmas, code)")
    else:
        r.fail("C05.skipset", fnt.key, "find_next_token no longer selects the next raw item with `type(x) == parser.item`: %s" % tests, fnt.loc())
    # the *_ignoring_whitespace helpers go through the or_comment predicate
    for name in ("find_next_non_whitespace_token", "find_previous_non_whitespace_token"):
        fi = p.function("vsg.vhdlFile.utils:" + name)
        calls = [norm(n.func) for n in walk_function(fi.node) if isinstance(n, ast.Call)]
        if "token_is_whitespace_or_comment" in calls:
            r.ok("C05.skipset", fi.key, "skips through token_is_whitespace_or_comment")
        else:
            r.fail("C05.skipset", fi.key, "%s no longer skips comments (does not use token_is_whitespace_or_comment)" % name, fi.loc())
    # ----------------------------------------------------------------- scan
    plain_names = {k.split(":")[1].split(".")[-1] for k, v in preds.items() if v == "plain"} | {"token_is_whitespace_token", "token_is_carriage_return"}
    n_scan = 0
    n_single = 0
    for fi in sorted(p.functions.values(), key=lambda f: f.key):
        if not _in_scope(fi):
            continue
        if fi.module.name == "vsg.vhdlFile.utils" and fi.name in ("remove_trailing_whitespace", "remove_all_trailing_whitespace", "remove_whitespace_from_token_list", "remove_consecutive_whitespace_tokens", "fix_blank_lines", "fix_trailing_whitespace", "token_is_whitespace", "does_token_start_line"):
            continue  # layout editing helpers used by rules, not look-around of the classifier
        if fi.module.name == "vsg.vhdlFile.utils" and not fi.name.startswith(("find_", "are_", "is_next", "is_token", "detect_", "skip_", "get_")):
            continue  # list filters for rules (remove_*_from_token_list ...) are not look-around
        for lp in [n for n in walk_function(fi.node) if isinstance(n, (ast.For, ast.While))]:
            for n in ast.walk(lp):
                if isinstance(n, ast.If) and n.body and isinstance(n.body[0], (ast.Continue,)) or (isinstance(n, ast.If) and isinstance(n.test, ast.UnaryOp) and isinstance(n.test.op, ast.Not) and n.body and isinstance(n.body[0], (ast.Return, ast.Break))):
                    test = n.test.operand if isinstance(n.test, ast.UnaryOp) else n.test
                    skipped = _skip_classes(p, fi, test, plain_names)
                    if skipped is None:
                        continue
                    n_scan += 1
                    kk = "%s:%s" % (fi.key, norm(n.test)[:70])
                    if skipped & WS and not (skipped & CM):
                        r.fail("C05.scan", kk, "a scan in the classifier steps over whitespace but stops at comments (`%s`): a comment inserted before the token changes the role assigned to it" % norm(n.test)[:80], fi.loc(n))
                    else:
                        r.ok("C05.scan", kk, "skips %s" % sorted(c.split(":")[1] for c in skipped), sample=n_scan < 4)
        # a conditional single step: `if <layout test>(L[i]): i = i + 1` skips at most one layout token
        in_loop_ifs = {id(n) for lp in walk_function(fi.node) if isinstance(lp, (ast.For, ast.While)) for n in ast.walk(lp) if isinstance(n, ast.If)}
        for n in walk_function(fi.node):
            if not isinstance(n, ast.If) or n.orelse or len(n.body) != 1 or id(n) in in_loop_ifs:
                continue
            st = n.body[0]
            idx = None
            if isinstance(st, ast.AugAssign) and isinstance(st.op, ast.Add) and isinstance(st.target, ast.Name) and isinstance(st.value, ast.Constant) and st.value.value == 1:
                idx = st.target.id
            elif isinstance(st, ast.Assign) and len(st.targets) == 1 and isinstance(st.targets[0], ast.Name):
                v = st.value
                t = st.targets[0].id
                if isinstance(v, ast.BinOp) and isinstance(v.op, ast.Add) and norm(v.left) == t and isinstance(v.right, ast.Constant) and v.right.value == 1:
                    idx = t
                elif isinstance(v, ast.Call) and norm(v.func).split(".")[-1] == "increment_token_count" and len(v.args) == 1 and norm(v.args[0]) == t:
                    idx = t
            if idx is None:
                continue
            test = n.test.operand if isinstance(n.test, ast.UnaryOp) and isinstance(n.test.op, ast.Not) else n.test
            if isinstance(n.test, ast.UnaryOp):
                continue
            skipped = _skip_classes(p, fi, test, plain_names)
            if not skipped or not (skipped & WS) or not any(isinstance(x, ast.Subscript) and norm(x.slice) == idx for x in ast.walk(test)):
                continue
            n_scan += 1
            n_single += 1
            r.fail("C05.scan", "%s:single-step:%s" % (fi.key, norm(n.test)[:70]), "the classifier steps over at most one layout token (`if %s: %s`): a line break, a blank line or a comment at that place - all legal there - leaves the index on layout and changes the role assigned to what follows" % (norm(n.test)[:60], norm(st)[:40]), fi.loc(n))
    r.extra["scan_sites"] = n_scan
    r.extra["single_step_skips"] = n_single
    # ----------------------------------------------------------------- case
    n_cmp = 0
    for fi in sorted(p.functions.values(), key=lambda f: f.key):
        if not _in_scope(fi):
            continue
        for n in walk_function(fi.node):
            if isinstance(n, ast.Compare) and len(n.ops) == 1 and isinstance(n.ops[0], (ast.Eq, ast.NotEq, ast.In, ast.NotIn)):
                l, rr = n.left, n.comparators[0]
                for a, b in ((l, rr), (rr, l)):
                    lits = _lits(b)
                    if lits is None:
                        continue
                    at = norm(a)
                    lowered = at.endswith(".get_lower_value()") or at.endswith(".lower()") or "lower" in at.lower()
                    raw = at.endswith(".get_value()")
                    if not (lowered or raw):
                        # local holding a value: resolve one assignment
                        if isinstance(a, ast.Name):
                            vals = [x.value for x in walk_function(fi.node) if isinstance(x, ast.Assign) and len(x.targets) == 1 and isinstance(x.targets[0], ast.Name) and x.targets[0].id == a.id]
                            if len(vals) == 1:
                                vt = norm(vals[0])
                                lowered = vt.endswith(".get_lower_value()") or vt.endswith(".lower()")
                                raw = vt.endswith(".get_value()")
                    if not (lowered or raw):
                        continue
                    n_cmp += 1
                    kk = "%s:%s" % (fi.key, norm(n)[:80])
                    if raw and any(any(ch.isalpha() for ch in s) for s in lits):
                        r.fail("C05.case", kk, "the token's text is compared case-sensitively with %s: a keyword written in another case is classified differently" % sorted(lits), fi.loc(n))
                    elif lowered and any(any(ch.isupper() for ch in s) for s in lits):
                        r.fail("C05.case", kk, "a lower-cased value is compared with %s, which contains upper-case letters and can never match" % sorted(lits), fi.loc(n))
                    else:
                        r.ok("C05.case", kk, "case-insensitive or symbol comparison", sample=n_cmp < 4, nontrivial=any(any(ch.isalpha() for ch in s) for s in lits))
    r.extra["text_comparisons"] = n_cmp
    if n_cmp < 30:
        raise AnalysisError("only %d text comparisons found in the classifier" % n_cmp)
    # literal arguments handed to the lower-casing helpers must not be compared raw inside them
    ovi = p.function("vsg.vhdlFile.utils:object_value_is")
    cmpn = [n for n in walk_function(ovi.node) if isinstance(n, ast.Compare)]
    if len(cmpn) == 1 and "get_lower_value()" in norm(cmpn[0].left) and ".lower()" in norm(cmpn[0].comparators[0]):
        r.ok("C05.case", ovi.key, "object_value_is lowers both sides (415+ keyword tests go through it)")
    else:
        r.fail("C05.case", ovi.key, "object_value_is no longer compares lower-cased text with the lower-cased literal", ovi.loc())
    return r


def _lits(e):
    if isinstance(e, ast.Constant) and isinstance(e.value, str):
        return {e.value}
    if isinstance(e, (ast.List, ast.Tuple, ast.Set)) and e.elts and all(isinstance(x, ast.Constant) and isinstance(x.value, str) for x in e.elts):
        return {x.value for x in e.elts}
    return None


def _skip_classes(p, fi, test, plain_names):
    """Classes skipped by the condition of a scan step, or None if the condition is not a token-kind test."""
    out = set()
    found = False
    for n in ast.walk(test):
        if isinstance(n, ast.Call):
            fname = norm(n.func).split(".")[-1]
            ent = p.resolve_expr(fi.module, n.func) if isinstance(n.func, (ast.Name, ast.Attribute)) else None
            if fname == "isinstance" and len(n.args) == 2:
                ks = n.args[1].elts if isinstance(n.args[1], ast.Tuple) else [n.args[1]]
                for k in ks:
                    e2 = p.resolve_expr(fi.module, k) if isinstance(k, (ast.Name, ast.Attribute)) else None
                    if e2 and e2[0] == "class":
                        out.add(e2[1].key)
                        found = True
            elif ent and ent[0] == "func" and ent[1].module.name in ("vsg.vhdlFile.utils", "vsg.rules.utils") and ("whitespace" in fname or "comment" in fname):
                out |= _pred_classes(p, ent[1])
                found = True
    return out if found else None


VARIANTS = [
    Variant("C05", "attribute designator looked up right behind the tick again (e9b52e5 reverted)", "fire",
            [("vsg/vhdlFile/vhdlFile.py", "utils.classify_predefined_types(lTokens, utils.find_next_non_whitespace_token(iToken + 1, lTokens))", "utils.classify_predefined_types(lTokens, iToken + 1)")],
            rule="C05.neighbour", key="classify_predefined_types"),
    Variant("C05", "package body recognised by the raw position two after `package`", "fire",
            [("vsg/vhdlFile/classify/package_declaration.py", "        if not utils.find_in_next_n_tokens(\"body\", 5, iCurrent, lObjects):", "        if not utils.object_value_is(lObjects, iCurrent + 2, \"body\"):")],
            rule="C05.neighbour", key="object_value_is"),
    Variant("C05", "instantiation look-ahead steps over one whitespace token instead of searching the colon", "fire",
            [("vsg/vhdlFile/classify/component_instantiation_statement.py", "    iCurrent = utils.increment_token_count(iCurrent)\n    iCurrent = utils.find_next_token(iCurrent, lObjects)\n    if not utils.object_value_is(lObjects, iCurrent, \":\"):", "    iCurrent = utils.increment_token_count(iCurrent)\n    if utils.token_is_whitespace_token(lObjects[iCurrent]):\n        iCurrent = utils.increment_token_count(iCurrent)\n    if not utils.object_value_is(lObjects, iCurrent, \":\"):")],
            rule="C05.scan", key="single-step"),
    Variant("C05", "twin: instantiation look-ahead keeps the search, position held in a second local", "silent",
            [("vsg/vhdlFile/classify/component_instantiation_statement.py", "    iCurrent = utils.increment_token_count(iCurrent)\n    iCurrent = utils.find_next_token(iCurrent, lObjects)\n    if not utils.object_value_is(lObjects, iCurrent, \":\"):", "    iAfterLabel = utils.increment_token_count(iCurrent)\n    iCurrent = utils.find_next_token(iAfterLabel, lObjects)\n    if not utils.object_value_is(lObjects, iCurrent, \":\"):")]),
    Variant("C05", "character-literal candidates filtered by index parity within the line", "fire",
            [("vsg/tokens.py", "        if lLiteral[1] == lNextLiteral[0] and lLiteral[0] == lPreviousLiteral[1]:", "        if iIndex % 2 == 1 and lLiteral[0] == lPreviousLiteral[1]:")], rule="C05.position"),
    Variant("C05", "name detection matches `(` only directly or after one whitespace token", "fire",
            [("vsg/vhdlFile/vhdlFile.py", "        if utils.are_next_consecutive_token_types_ignoring_whitespace([parser.open_parenthesis], iToken + 1, lTokens):\n            lTokens[iToken] = oToken.convert_to(todo.name)", "        if utils.are_next_consecutive_token_types([parser.open_parenthesis], iToken + 1, lTokens) or utils.are_next_consecutive_token_types([parser.whitespace, parser.open_parenthesis], iToken + 1, lTokens):\n            lTokens[iToken] = oToken.convert_to(todo.name)")], rule="C05.neighbour"),
    Variant("C05", "look-behind helper that stops at comments", "fire",
            [("vsg/vhdlFile/utils.py", "def find_previous_non_whitespace_token(iToken, lObjects):\n    iCurrent = iToken\n    for iIndex in range(iToken, -1, -1):\n        oToken = lObjects[iIndex]\n        if token_is_whitespace_or_comment(oToken):",
              "def find_previous_non_whitespace_token(iToken, lObjects):\n    iCurrent = iToken\n    for iIndex in range(iToken, -1, -1):\n        oToken = lObjects[iIndex]\n        if token_is_whitespace(oToken):")],
            rule="C05.skipset", key="find_previous_non_whitespace_token"),
    Variant("C05", "post pass peeks at the next token directly", "fire",
            [("vsg/vhdlFile/vhdlFile.py", "        if utils.are_next_consecutive_token_types_ignoring_whitespace([parser.open_parenthesis], iToken + 1, lTokens):\n            lTokens[iToken] = oToken.convert_to(todo.name)",
              "        if isinstance(lTokens[iToken + 1], parser.open_parenthesis):\n            lTokens[iToken] = oToken.convert_to(todo.name)")], rule="C05.neighbour", key="check_for_name"),
    Variant("C05", "keyword compared case-sensitively", "fire",
            [("vsg/vhdlFile/utils.py", "    if lAllObjects[iToken].get_lower_value() == sString.lower():", "    if lAllObjects[iToken].get_value() == sString:")], rule="C05.case"),
    Variant("C05", "comment dropped from the or_comment predicate", "fire",
            [("vsg/vhdlFile/utils.py", "        or isinstance(oToken, parser.carriage_return)\n        or isinstance(oToken, parser.comment)\n        or isinstance(oToken, parser.blank_line)\n        or isinstance(oToken, parser.preprocessor)\n    ):\n        return True\n    else:\n        return False\n\n\ndef token_is_whitespace_token",
              "        or isinstance(oToken, parser.carriage_return)\n        or isinstance(oToken, parser.blank_line)\n        or isinstance(oToken, parser.preprocessor)\n    ):\n        return True\n    else:\n        return False\n\n\ndef token_is_whitespace_token")],
            rule="C05.skipset", key="token_is_whitespace_or_comment"),
    Variant("C05", "new backwards scan in a post pass that ignores only whitespace", "fire",
            [("vsg/vhdlFile/vhdlFile.py", "def remove_beginning_of_file_tokens(lTokens):", "def get_token_preceding(iToken, lTokens):\n    for iIndex in range(iToken - 1, -1, -1):\n        if utils.token_is_whitespace(lTokens[iIndex]):\n            continue\n        return lTokens[iIndex]\n    return None\n\n\ndef remove_beginning_of_file_tokens(lTokens):")],
            rule="C05.scan", key="get_token_preceding"),
    Variant("C05", "twin: classifier compares a lowered local with a lower-case word", "silent",
            [("vsg/vhdlFile/utils.py", "    elif sValue == \"downto\":", "    elif sValue in (\"downto\",):")]),
]
