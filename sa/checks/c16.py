# -*- coding: utf-8 -*-
"""
C16 - write-back is all-or-nothing and keeps the file's mode.

Decides (for every input, crash point and OS-call failure, because these are facts about the
shape of the only code that can touch the file):

  C16.sinks     closed world of file-system mutators reachable from main(): each is either a report
                output whose path comes from a command-line option, the backup copy, or part of the
                write-back protocol function.  Nothing under vsg/rules, vsg/vhdlFile, vsg/rule*.py
                mutates the file system.
  C16.protocol  in the write-back function, on every structured path:
                stat(source) -> open(tmp != source, "w") -> all writes inside the with ->
                chmod(tmp, that stat's st_mode) -> replace(tmp, source); no other mutation of
                source; replace is not in a handler/finally and is skipped by any exception raised
                before it; finally removes tmp and swallows FileNotFoundError only.
  C16.order     in apply_rules: write-back is dominated by successful construction (ClassifyError
                handler leaves), configure (ConfigurationError handler leaves), completion of fix,
                `fix` and `had_violations`; backup precedes fix and is guarded by `backup`.
Trusted: os.replace == rename(2) atomicity; open(p,"w") touches only p.
Does not decide: durability (no fsync), a pre-existing <name>.tmp, kill between replace and remove.
"""

import ast

from ..effects import fs_sinks
from ..flow import Facts, callee_text
from ..model import AnalysisError, norm, walk_function
from ..report import Result

LEVEL = "other"
META = {
    "technique": "static analysis: closed-world enumeration of file-system sinks + structured-flow dominance (must-precede) in the write-back function and apply_rules + call-graph reachability",
    "level_text": "Decides, for every input and every crash/fault point, the *shape* of the only code that can touch the source file: "
    "who may mutate the file system (closed world), and that the write-back function follows stat -> open(tmp,'w') -> write -> chmod(tmp) -> "
    "os.replace(tmp, source) with cleanup in finally, guarded in apply_rules by parse-ok, configure-ok, fix-done, --fix and had_violations. "
    "A crash-point guarantee is a property of the statement order on every path, which is exactly what this decides; the OS-level behaviour is trusted.",
    "level_note": "Trusted base: os.replace is atomic rename(2); open(p,'w') truncates only p; CPython ast; the analyser. Not decided: durability "
    "(no fsync, not claimed by the property), a pre-existing <name>.tmp, SIGKILL between replace and remove (harmless), faults inside shutil.copy2.",
}


def _single_assignments(fnode):
    """name -> value expr for names assigned exactly once in the function (plain Name target)."""
    seen = {}
    for n in walk_function(fnode):
        if isinstance(n, ast.Assign):
            for t in n.targets:
                if isinstance(t, ast.Name):
                    seen.setdefault(t.id, []).append(n.value)
        elif isinstance(n, (ast.AugAssign, ast.AnnAssign)) and isinstance(n.target, ast.Name):
            seen.setdefault(n.target.id, []).append(None)
        elif isinstance(n, (ast.For,)):
            for x in ast.walk(n.target):
                if isinstance(x, ast.Name):
                    seen.setdefault(x.id, []).append(None)
        elif isinstance(n, ast.With):
            for it in n.items:
                if it.optional_vars is not None:
                    for x in ast.walk(it.optional_vars):
                        if isinstance(x, ast.Name):
                            seen.setdefault(x.id, []).append(None)
    return {k: v[0] for k, v in seen.items() if len(v) == 1 and v[0] is not None}


def _expand(expr, assigns, depth=0):
    """Substitute singly-assigned local names by their defining expressions (bounded)."""
    if expr is None or depth > 4:
        return expr
    if isinstance(expr, ast.Name) and expr.id in assigns:
        return _expand(assigns[expr.id], assigns, depth + 1)
    return expr


def _mentions_attr(expr, attr):
    return any(isinstance(n, ast.Attribute) and n.attr == attr for n in ast.walk(expr))


def _names(expr):
    return {n.id for n in ast.walk(expr) if isinstance(n, ast.Name)}


def _const_suffix(expr, source_text):
    """If expr is <source> + non-empty constant (f-string or concatenation), return the constant part."""
    if isinstance(expr, ast.JoinedStr):
        parts = expr.values
        if len(parts) >= 2 and isinstance(parts[0], ast.FormattedValue) and norm(parts[0].value) == source_text:
            rest = parts[1:]
            if all(isinstance(p, ast.Constant) and isinstance(p.value, str) for p in rest):
                return "".join(p.value for p in rest)
    if isinstance(expr, ast.BinOp) and isinstance(expr.op, ast.Add):
        if norm(expr.left) == source_text and isinstance(expr.right, ast.Constant) and isinstance(expr.right.value, str):
            return expr.right.value
    return None


def run(ctx):
    p = ctx.program
    cg = ctx.callgraph()
    r = Result("C16")
    r.rule("C16.sinks", "every file-system mutator reachable from main() is a CLI-named report output, the backup copy, or inside the write-back protocol function")
    r.rule("C16.protocol", "write-back = stat -> open(tmp!=source,'w') -> writes in with -> chmod(tmp, st_mode) -> replace(tmp, source); finally removes tmp; nothing else touches source")
    r.rule("C16.read", "a read error never comes with partial content: every return of the reader that can carry an error returns the empty-list literal")
    r.rule("C16.order", "write-back dominated by parse ok, configure ok, fix done, --fix and had_violations; backup before fix")
    r.explanation = (
        "Static enumeration of all file-system mutating call sites of vsg/ (ast, resolved through imports), classification of "
        "each target expression by local def-use, structured-flow dominance inside the write-back function and apply_rules, and "
        "call-graph reachability from main() and from the rule engine. Decides the protocol shape for all crash points; does not "
        "decide durability or behaviour of the OS calls themselves."
    )
    r.assumptions = [
        "os.replace is atomic (rename(2)); open(path,'w') creates/truncates only `path`",
        "no exec/eval/monkey-patching in vsg/ (checked by C15)",
    ]
    main = p.function("vsg.__main__:main")
    apply_rules = p.function("vsg.apply_rules:apply_rules")
    reach = cg.reachable([main, apply_rules])

    sinks = fs_sinks(p)
    if len(sinks) < 6:
        raise AnalysisError("only %d file-system sinks found in vsg/ (expected >= 6): sink detection broken" % len(sinks))

    protocol_funcs = {}
    for s in sinks:
        assigns = _single_assignments(s.fi.node)
        tgt = _expand(s.target, assigns) if s.target is not None else None
        ttext = norm(tgt) if tgt is not None else "<none>"
        key = "%s:%s(%s)" % (s.fi.key, s.api, norm(s.target) if s.target is not None else "")
        reachable = s.fi.key in reach
        modname = s.fi.module.name
        in_engine = modname.startswith(("vsg.rules", "vsg.vhdlFile", "vsg.rule", "vsg.token", "vsg.parser", "vsg.block_rule", "vsg.violation"))
        if in_engine:
            r.fail("C16.sinks", key, "file-system mutation inside the rule/parse engine: fixing must stay in memory until write-back", s.fi.loc(s.node), excerpt=norm(s.node))
            continue
        if not reachable:
            r.note("sink not reachable from main (ignored): %s" % key)
            continue
        # classification
        if tgt is not None and _names(tgt) & {"commandLineArguments", "oCLA"} and isinstance(tgt, ast.Attribute):
            r.ok("C16.sinks", key, "report output named by CLI option %s" % ttext)
            continue
        if tgt is not None and norm(tgt) == "oJunitFile.filename":
            r.ok("C16.sinks", key, "junit output path (junit.xmlfile(commandLineArguments.junit))")
            continue
        if s.api.startswith("shutil.copy") and len(s.node.args) == 2:
            src, dst = s.node.args
            suf = _const_suffix(_expand(dst, assigns), norm(src))
            if suf:
                r.ok("C16.sinks", key, "backup copy: destination = source + %r, source only read" % suf)
                protocol_funcs.setdefault(s.fi.key, {"fi": s.fi, "role": "backup"})
                continue
        if tgt is not None and (_mentions_attr(tgt, "filename") or "sFileName" in _names(tgt) or "tmp" in ttext.lower()):
            protocol_funcs.setdefault(s.fi.key, {"fi": s.fi, "role": "writeback"})
            protocol_funcs[s.fi.key]["role"] = "writeback"
            continue
        r.fail("C16.sinks", key, "unclassified file-system writer reachable from main(): target %s" % ttext, s.fi.loc(s.node), excerpt=norm(s.node))

    wb = [v["fi"] for v in protocol_funcs.values() if v["role"] == "writeback"]
    if len(wb) != 1:
        if not wb:
            raise AnalysisError("no write-back function found (no sink whose target derives from the source file name)")
        for fi in wb[1:]:
            r.fail("C16.sinks", fi.key, "second function writing a path derived from the source file name", fi.loc())
    _protocol(r, p, wb[0])
    _order(r, p, cg, apply_rules, wb[0], [v["fi"] for v in protocol_funcs.values() if v["role"] == "backup"])

    # rule engine cannot reach any sink function
    engine_roots = [f for k, f in p.functions.items() if k in ("vsg.rule_list:rule_list.fix", "vsg.rule_list:rule_list.check_rules", "vsg.rule:Rule.fix", "vsg.rule:Rule.analyze")]
    if len(engine_roots) < 4:
        raise AnalysisError("engine entry points vanished")
    ereach = cg.reachable(engine_roots)
    sink_funcs = {s.fi.key for s in sinks}
    hit = sorted(sink_funcs & set(ereach))
    for k in hit:
        r.fail("C16.sinks", "engine-reaches:" + k, "a file-system mutator is reachable from the rule engine", path=[x[0] for x in cg.path(ereach, k)])
    if not hit:
        r.ok("C16.sinks", "engine-unreachable", "%d functions reachable from rule_list.fix/check_rules, none contains a sink" % len(ereach))
    _read_error(r, p)
    _parse_error_swallow(r, p)
    # "a file that fails to configure is never modified" needs the configuration error to be raised at all: the
    # validation of the `rule` section (decided under C12.validate) is the producer of the error C16.order relies on
    from . import c12 as _c12

    scratch12 = Result("C12")
    _c12._validate_exists(scratch12, p, p.function("vsg.rule_list:rule_list._validate_configuration_rule_exists"))
    for f in scratch12.findings:
        r.fail("C16.order", "configure-error-raised:" + f.key, "an invalid configuration may no longer stop the run before write-back: " + f.message, f.loc)
    if not scratch12.findings:
        r.ok("C16.order", "configure-error-raised", "every unknown name under `rule` raises ConfigurationError (loop never left early), which the ConfigurationError handler in apply_rules turns into a return before fix and write-back")
    return r


def _parse_error_swallow(r, p):
    """"Write-back happens only after the file parsed" rests on apply_rules seeing the ClassifyError.  The model
    constructor swallows it in one documented case, --force_fix.  The handler is evaluated for every truth assignment of
    the flags it tests: whenever force_fix is false the error must leave the constructor."""
    import itertools

    pf = p.function("vsg.vhdlFile.vhdlFile:vhdlFile._processFile")
    handlers = [h for t in walk_function(pf.node) if isinstance(t, ast.Try) for h in t.handlers if h.type is not None and "ClassifyError" in norm(h.type)]
    if not handlers:
        r.ok("C16.order", pf.key + ":parse-error", "the constructor never catches ClassifyError: every parse error reaches apply_rules")
        return
    for h in handlers:
        atoms = sorted({norm(x) for t in ast.walk(h) if isinstance(t, (ast.If, ast.IfExp, ast.While)) for x in ast.walk(t.test) if isinstance(x, ast.Attribute) and isinstance(x.ctx, ast.Load) and not isinstance(getattr(x, "_parent", None), ast.Attribute)})
        ff = [a for a in atoms if a.endswith("force_fix")]
        kk = pf.key + ":parse-error"
        if not ff or len(atoms) > 6:
            r.fail("C16.order", kk, "the constructor swallows ClassifyError under a condition that does not mention force_fix (%s)" % atoms, pf.loc(h))
            continue

        def ev(e, env):
            if isinstance(e, ast.BoolOp):
                vals = [ev(v, env) for v in e.values]
                return all(vals) if isinstance(e.op, ast.And) else any(vals)
            if isinstance(e, ast.UnaryOp) and isinstance(e.op, ast.Not):
                return not ev(e.operand, env)
            if norm(e) in env:
                return env[norm(e)]
            raise ValueError(norm(e))

        def raises(stmts, env):
            for st in stmts:
                if isinstance(st, ast.Raise):
                    return True
                if isinstance(st, ast.If):
                    if raises(st.body if ev(st.test, env) else st.orelse, env):
                        return True
                elif isinstance(st, (ast.Return, ast.Break, ast.Continue)):
                    return False
            return False

        bad = None
        try:
            for vals in itertools.product([False, True], repeat=len(atoms)):
                env = dict(zip(atoms, vals))
                if not env[ff[0]] and not raises(h.body, env):
                    bad = env
                    break
        except ValueError as e:
            r.fail("C16.order", kk, "the condition under which a parse error is swallowed (`%s`) is not a boolean combination of flags" % e, pf.loc(h))
            continue
        if bad is None:
            r.ok("C16.order", kk, "a parse error leaves the constructor whenever --force_fix is not given (%d flag combinations evaluated)" % (2 ** len(atoms)))
        else:
            r.fail("C16.order", kk, "a parse error is swallowed although --force_fix is not given (%s): apply_rules goes on to fix and write back a file it could not parse" % ", ".join("%s=%s" % (k.split(".")[-1], v) for k, v in bad.items()), pf.loc(h))


def _read_error(r, p):
    """Write-back replaces the file with what was read and fixed.  Nothing between the reader and write_vhdl_file looks at
    the read error again (only the unfixable source_file_001 reports it), so all-or-nothing rests on the reader: if it
    reports an error it must hand back no content at all - a prefix of the file plus an error would be fixed and written
    over the whole file."""
    rd = p.function("vsg.vhdlFile.utils:read_vhdlfile")
    rets = [n for n in ast.walk(rd.node) if isinstance(n, ast.Return) and n.value is not None]  # nested helpers included
    pairs = [n for n in rets if isinstance(n.value, ast.Tuple) and len(n.value.elts) == 2]
    if len(pairs) < 2:
        raise AnalysisError("read_vhdlfile no longer returns (content, error) pairs")
    for n in pairs:
        content, err = n.value.elts
        kk = "%s:return %s" % (rd.key, norm(n.value)[:50])
        if isinstance(err, ast.Constant) and err.value is None:
            r.ok("C16.read", kk, "no error on this path")
        elif isinstance(content, ast.List) and not content.elts:
            r.ok("C16.read", kk, "error is returned with the empty-list literal")
        else:
            r.fail("C16.read", kk, "the reader can return an error together with the content `%s`: lines read before an I/O error would be analysed, fixed and written over the whole file (a truncated file published by --fix)" % norm(content)[:40], rd.loc(n))
    # any other return of a call must be of a nested helper whose own returns were checked above
    for n in rets:
        if n in pairs:
            continue
        if isinstance(n.value, ast.Call) and isinstance(n.value.func, ast.Name) and any(isinstance(d, ast.FunctionDef) and d.name == n.value.func.id for d in ast.walk(rd.node)):
            continue
        if isinstance(n.value, ast.Name) or isinstance(n.value, ast.List):
            continue  # a helper returning the line list alone
        r.fail("C16.read", "%s:return %s" % (rd.key, norm(n.value)[:50]), "read_vhdlfile returns something that is not a (content, error) pair", rd.loc(n))


def _protocol(r, p, fi):
    fn = fi.node
    facts = Facts(fn)
    assigns = _single_assignments(fn)
    K = fi.key
    calls = [n for n in walk_function(fn) if isinstance(n, ast.Call)]

    def by(api):
        return [c for c in calls if callee_text(c) == api]

    replaces = by("os.replace") + by("os.rename")
    if len(replaces) != 1:
        r.fail("C16.protocol", K + ":replace-count", "expected exactly one os.replace in the write-back function, found %d" % len(replaces), fi.loc())
        return
    rep = replaces[0]
    if callee_text(rep) != "os.replace" or len(rep.args) != 2:
        r.fail("C16.protocol", K + ":replace-api", "publication must be os.replace(tmp, source)", fi.loc(rep))
        return
    tmp_e, src_e = rep.args
    src_text = norm(src_e)
    tmp_def = _expand(tmp_e, assigns)
    suffix = _const_suffix(tmp_def, src_text)
    if not suffix:
        r.fail("C16.protocol", K + ":tmp-distinct", "temporary path %s is not provably source + non-empty constant suffix" % norm(tmp_def), fi.loc(rep))
    else:
        r.ok("C16.protocol", K + ":tmp-distinct", "tmp = %s + %r" % (src_text, suffix))
    tmp_text = norm(tmp_e)

    # stat of the source before anything else, result variable
    stats = [c for c in by("os.stat") if c.args and norm(c.args[0]) == src_text]
    stat_var = None
    for k, v in assigns.items():
        if isinstance(v, ast.Call) and v in stats:
            stat_var = k
    if not stats or stat_var is None:
        r.fail("C16.protocol", K + ":stat", "no os.stat(%s) captured before writing" % src_text, fi.loc())
    # opens
    opens = [c for c in calls if isinstance(c.func, ast.Name) and c.func.id == "open"]
    wopens = []
    for c in opens:
        mode = "r"
        if len(c.args) > 1 and isinstance(c.args[1], ast.Constant):
            mode = c.args[1].value
        for kw in c.keywords:
            if kw.arg == "mode" and isinstance(kw.value, ast.Constant):
                mode = kw.value.value
        if any(ch in str(mode) for ch in "wax+"):
            wopens.append((c, mode))
    if len(wopens) != 1:
        r.fail("C16.protocol", K + ":open-count", "expected exactly one writing open(), found %d" % len(wopens), fi.loc())
        return
    op, mode = wopens[0]
    if norm(op.args[0]) != tmp_text:
        r.fail("C16.protocol", K + ":open-target", "the writing open() targets %s, not the temporary %s" % (norm(op.args[0]), tmp_text), fi.loc(op))
    elif mode != "w":
        r.fail("C16.protocol", K + ":open-mode", "temporary opened with mode %r (must be 'w': a stale tmp must be truncated, never appended)" % mode, fi.loc(op))
    else:
        r.ok("C16.protocol", K + ":open-target", "open(%s, 'w')" % tmp_text)
    # the with statement owning the open
    with_stmt = None
    for n in walk_function(fn):
        if isinstance(n, ast.With) and any(it.context_expr is op for it in n.items):
            with_stmt = n
    if with_stmt is None:
        r.fail("C16.protocol", K + ":with", "temporary is not opened in a with statement (handle may stay open / unflushed at replace)", fi.loc(op))
        return
    handle = None
    for it in with_stmt.items:
        if it.context_expr is op and isinstance(it.optional_vars, ast.Name):
            handle = it.optional_vars.id
    inside = {id(n) for n in ast.walk(with_stmt)}
    writes = [c for c in calls if isinstance(c.func, ast.Attribute) and c.func.attr in ("write", "writelines") and isinstance(c.func.value, ast.Name) and c.func.value.id == handle]
    if not writes:
        r.fail("C16.protocol", K + ":writes", "no write on the temporary's handle", fi.loc(with_stmt))
    for w in writes:
        if id(w) not in inside:
            r.fail("C16.protocol", K + ":write-outside-with", "write on the handle outside the with block", fi.loc(w))
    if id(rep) in inside:
        r.fail("C16.protocol", K + ":replace-inside-with", "os.replace executes while the temporary is still open (content may be unflushed)", fi.loc(rep))
    # chmod
    chmods = [c for c in by("os.chmod")]
    good_chmod = None
    for c in chmods:
        if len(c.args) == 2 and norm(c.args[0]) == tmp_text and isinstance(c.args[1], ast.Attribute) and c.args[1].attr == "st_mode" and norm(c.args[1].value) == stat_var:
            good_chmod = c
        elif c.args and norm(c.args[0]) == src_text:
            r.fail("C16.protocol", K + ":chmod-source", "chmod applied to the source path before publication", fi.loc(c))
    if good_chmod is None:
        r.fail("C16.protocol", K + ":chmod", "no os.chmod(%s, %s.st_mode) on the temporary" % (tmp_text, stat_var), fi.loc())
    # ordering by dominance
    fr = facts.facts_at(rep)
    need = [("os.stat", "stat before replace"), ("open", "open before replace"), ("os.chmod", "chmod(tmp) before replace")]
    if handle:
        need.append(("%s.write" % handle, "content written before replace"))
    for callee, what in need:
        if ("call", callee) in fr:
            r.ok("C16.protocol", K + ":order:" + callee, what + " on every path")
        else:
            r.fail("C16.protocol", K + ":order:" + callee, "os.replace is not dominated by %s (%s)" % (callee, what), fi.loc(rep))
    if good_chmod is not None:
        fc = facts.facts_at(good_chmod)
        if handle and ("call", "%s.write" % handle) not in fc:
            r.fail("C16.protocol", K + ":order:chmod-after-write", "chmod not dominated by the writes", fi.loc(good_chmod))
        if id(good_chmod) in inside:
            r.note("chmod inside the with block (harmless)")
        if ("call", "os.stat") not in fc:
            r.fail("C16.protocol", K + ":order:stat-before-chmod", "chmod not dominated by os.stat(source)", fi.loc(good_chmod))
    if stats:
        fs = facts.facts_at(stats[0])
        if any(x[0] == "call" and x[1] in ("open", "os.replace", "os.chmod") for x in fs):
            r.fail("C16.protocol", K + ":stat-first", "os.stat(source) happens after a mutation", fi.loc(stats[0]))
    # replace must not be in a handler or finally; and no handler between partial write and replace
    if facts.in_handler(rep):
        r.fail("C16.protocol", K + ":replace-in-handler", "os.replace inside an except handler", fi.loc(rep))
    tries = [n for n in walk_function(fn) if isinstance(n, ast.Try)]
    for t in tries:
        fin_ids = {id(x) for s in t.finalbody for x in ast.walk(s)}
        if id(rep) in fin_ids:
            r.fail("C16.protocol", K + ":replace-in-finally", "os.replace inside finally: it would run after a failed write", fi.loc(rep))
        body_ids = {id(x) for s in t.body for x in ast.walk(s)}
        if t.handlers and id(with_stmt) in body_ids and id(rep) not in body_ids:
            r.fail(
                "C16.protocol",
                K + ":swallow-before-replace",
                "a try/except encloses the write but not os.replace: a failed write can be swallowed and a truncated temporary published",
                fi.loc(t),
            )
    # statements sequencing: with ... then replace in the same block
    r.ok("C16.protocol", K + ":replace-placement", "os.replace outside handlers/finally, in the same try body as the write")
    # other mutations of source
    for s in fs_sinks(p, [fi]):
        if s.node is rep or s.node is op:
            continue
        tgt = s.target
        if tgt is not None and norm(tgt) == src_text:
            r.fail("C16.protocol", K + ":other-source-mutation:" + s.api, "%s mutates the source path directly" % norm(s.node), fi.loc(s.node))
        elif s.api in ("os.remove", "os.unlink"):
            if tgt is None or norm(tgt) != tmp_text:
                r.fail("C16.protocol", K + ":remove-target", "%s removes something other than the temporary" % norm(s.node), fi.loc(s.node))
            else:
                # must be in finally, guarded by FileNotFoundError only
                ok_fin = False
                for t in tries:
                    fin_ids = {id(x) for st in t.finalbody for x in ast.walk(st)}
                    if id(s.node) in fin_ids:
                        ok_fin = True
                if not ok_fin:
                    r.fail("C16.protocol", K + ":cleanup-not-finally", "temporary is not removed in a finally clause (left behind on failure)", fi.loc(s.node))
                else:
                    inner = [t for t in tries if id(s.node) in {id(x) for st in t.body for x in ast.walk(st)}]
                    bad = False
                    for t in inner:
                        for h in t.handlers:
                            ht = norm(h.type) if h.type is not None else "<bare>"
                            if ht != "FileNotFoundError":
                                bad = True
                                r.fail("C16.protocol", K + ":cleanup-handler:" + ht, "cleanup swallows %s (only FileNotFoundError is expected after a successful replace)" % ht, fi.loc(h))
                    if not bad:
                        r.ok("C16.protocol", K + ":cleanup", "finally: os.remove(tmp) swallowing FileNotFoundError only")
    removes = [c for c in by("os.remove") + by("os.unlink")]
    if not removes:
        r.fail("C16.protocol", K + ":cleanup-missing", "temporary file is never removed on failure", fi.loc())
    # handlers of the function must not re-publish
    for t in tries:
        for h in t.handlers:
            for n in ast.walk(h):
                if isinstance(n, ast.Call) and callee_text(n) in ("os.replace", "os.rename", "shutil.move", "shutil.copy", "shutil.copy2", "shutil.copyfile"):
                    r.fail("C16.protocol", K + ":handler-publishes", "an except handler publishes a file", fi.loc(n))


def _order(r, p, cg, apply_rules, wb, backups):
    # an "extract function" refactoring may move the fix / write-back block into a helper of the same module: the
    # ordering facts are decided on apply_rules with such helpers inlined
    from ..model import inline_helpers

    apply_rules = inline_helpers(p, apply_rules, toward={wb.name} | {b.name for b in backups})
    fn = apply_rules.node
    facts = Facts(fn)
    K = apply_rules.key

    def _calls_of(target):
        out = []
        for n in walk_function(fn):
            if isinstance(n, ast.Call) and isinstance(n.func, (ast.Name, ast.Attribute)):
                ent = p.resolve_expr(apply_rules.module, n.func)
                if ent and ent[0] == "func" and ent[1] is target:
                    out.append(n)
        return out

    order = {}

    def _pre(n):
        order[id(n)] = len(order)
        for c in ast.iter_child_nodes(n):
            _pre(c)

    _pre(fn)
    wcalls = _calls_of(wb)
    # all call sites of the write-back function in the whole program
    all_sites = [(k, s) for k, ss in cg.sites.items() for s in ss if s.kind == "resolved" and wb in s.targets]
    for k, s in all_sites:
        if k != apply_rules.key and k not in apply_rules.inlined:
            r.fail("C16.order", "%s:calls-writeback" % k, "write-back called from outside apply_rules (unguarded by parse/configure/fix ordering)", p.functions[k].loc(s.node))
    if not wcalls:
        raise AnalysisError("apply_rules no longer calls the write-back function %s" % wb.key)
    ctor = None
    for n in walk_function(fn):
        if isinstance(n, ast.Call):
            ent = p.resolve_expr(apply_rules.module, n.func) if isinstance(n.func, (ast.Name, ast.Attribute)) else None
            if ent and ent[0] == "class" and ent[1].key == "vsg.vhdlFile.vhdlFile:vhdlFile":
                ctor = callee_text(n)
    if ctor is None:
        raise AnalysisError("apply_rules does not construct vhdlFile any more")
    for w in wcalls:
        fw = facts.facts_at(w)
        reqs = [
            (("call", ctor), "successful parse (ClassifyError handler must leave the function)"),
            (("call", "configure_rules"), "successful configuration (ConfigurationError handler must leave)"),
            (("call", "oRules.fix"), "completion of oRules.fix (all fixing in memory first)"),
            (("cond", "commandLineArguments.fix", True), "--fix given"),
            (("cond", "oRules.had_violations", True), "a rule actually fixed something"),
        ]
        for fact, what in reqs:
            kk = "%s:writeback-dominated-by:%s" % (K, fact[1])
            if fact in fw:
                r.ok("C16.order", kk, what)
            else:
                r.fail("C16.order", kk, "write-back is not dominated by: " + what, apply_rules.loc(w))
        if facts.in_handler(w):
            r.fail("C16.order", K + ":writeback-in-handler", "write-back inside an exception handler", apply_rules.loc(w))
    # handlers of Classify/Configuration errors must leave the function
    n_h = 0
    for t in walk_function(fn):
        if isinstance(t, ast.Try):
            for h in t.handlers:
                ht = norm(h.type) if h.type is not None else "<bare>"
                if "ClassifyError" in ht or "ConfigurationError" in ht or ht in ("<bare>", "Exception", "BaseException"):
                    n_h += 1
                    kk = "%s:handler-leaves:%s" % (K, ht)
                    if facts.handler_falls_through.get(id(h), True):
                        r.fail("C16.order", kk, "the %s handler falls through to the fix/write-back code" % ht, apply_rules.loc(h))
                    else:
                        r.ok("C16.order", kk, "handler returns on every path")
    if n_h < 2:
        raise AnalysisError("apply_rules no longer has ClassifyError/ConfigurationError handlers (found %d)" % n_h)
    # backup ordering
    class _S:
        def __init__(self, node):
            self.node = node

    for b in backups:
        for s in [_S(n) for n in _calls_of(b)]:
            if True:
                fb = facts.facts_at(s.node)
                kk = K + ":backup"
                okb = True
                if ("cond", "commandLineArguments.backup", True) not in fb:
                    okb = r.fail("C16.order", kk + ":guard", "backup not guarded by --backup", apply_rules.loc(s.node)) and False
                if ("call", "oRules.fix") in fb:
                    okb = False
                    r.fail("C16.order", kk + ":after-fix", "backup taken after fixing", apply_rules.loc(s.node))
                # the fix call must come later in the same or an enclosing block
                fixes = [c for c in walk_function(fn) if isinstance(c, ast.Call) and callee_text(c) == "oRules.fix"]
                if not fixes or any(order[id(c)] < order[id(s.node)] for c in fixes):
                    okb = False
                    r.fail("C16.order", kk + ":before-fix", "backup does not precede oRules.fix", apply_rules.loc(s.node))
                if ("call", ctor) not in fb:
                    okb = False
                    r.fail("C16.order", kk + ":after-parse", "backup taken before the file parsed", apply_rules.loc(s.node))
                if okb:
                    r.ok("C16.order", kk, "backup under --backup, after parse/configure, before fix")


from ..selftest import Variant  # noqa: E402

_AR = "vsg/apply_rules.py"
VARIANTS = [
    Variant("C16", "rule-name validation stops at the first pseudo name", "fire",
            [("vsg/rule_list.py", "            if rule_does_not_exist_in_list(sRule, lRuleNames):", "            if is_global_configuration(sRule):\n                return\n            if rule_does_not_exist_in_list(sRule, lRuleNames):")],
            rule="C16.order", key="configure-error-raised"),
    Variant("C16", "parse error swallowed whenever --fix is given", "fire",
            [("vsg/vhdlFile/vhdlFile.py", "            if self.commandLineArguments.force_fix and self.commandLineArguments.fix:\n                print(e.message)\n                print(\"\")\n                print(\"INFO:  The --force_fix option was enabled.\")\n                print(\"       Proceeding to analyze and apply fixes.\")\n                print(\"\")\n            else:\n                raise e", "            if not self.commandLineArguments.force_fix and not self.commandLineArguments.fix:\n                raise e\n            print(e.message)")], rule="C16.order", key="parse-error"),
    Variant("C16", "twin: force_fix handler written as a guard clause", "silent",
            [("vsg/vhdlFile/vhdlFile.py", "            if self.commandLineArguments.force_fix and self.commandLineArguments.fix:\n                print(e.message)\n                print(\"\")\n                print(\"INFO:  The --force_fix option was enabled.\")\n                print(\"       Proceeding to analyze and apply fixes.\")\n                print(\"\")\n            else:\n                raise e", "            if not self.commandLineArguments.force_fix or not self.commandLineArguments.fix:\n                raise e\n            print(e.message)")]),
    Variant("C16", "reader returns what it read so far together with the error", "fire",
            [("vsg/vhdlFile/utils.py", "    except OSError as e:\n        return [], e\n\n\ndef is_token_at_end_of_line", "    except OSError as e:\n        return lPartial, e\n\n\ndef is_token_at_end_of_line"),
             ("vsg/vhdlFile/utils.py", "    if sFileName == \"stdin\":\n        return _read(sys.stdin), None", "    lPartial = []\n    if sFileName == \"stdin\":\n        return _read(sys.stdin), None")], rule="C16.read"),
    Variant("C16", "chmod after replace", "fire",
            [(_AR, "        os.chmod(tmpfile, myStat.st_mode)\n        os.replace(tmpfile, oVhdlFile.filename)\n",
              "        os.replace(tmpfile, oVhdlFile.filename)\n        os.chmod(oVhdlFile.filename, myStat.st_mode)\n")],
            rule="C16.protocol", key="chmod"),
    Variant("C16", "write source in place", "fire",
            [(_AR, 'with open(tmpfile, "w", encoding="utf-8"', 'with open(oVhdlFile.filename, "w", encoding="utf-8"')],
            rule="C16.protocol", key="open-target"),
    Variant("C16", "swallow write error then publish", "fire",
            [(_AR, '''        with open(tmpfile, "w", encoding="utf-8", newline=dConfig.get("linesep")) as oFile:
            oFile.write("\\n".join(oVhdlFile.get_lines()[1:]))
            oFile.write("\\n")
''', '''        try:
            with open(tmpfile, "w", encoding="utf-8", newline=dConfig.get("linesep")) as oFile:
                oFile.write("\\n".join(oVhdlFile.get_lines()[1:]))
                oFile.write("\\n")
        except OSError:
            pass
''')], rule="C16.protocol", key="swallow-before-replace"),
    Variant("C16", "replace moved to finally", "fire",
            [(_AR, "        os.replace(tmpfile, oVhdlFile.filename)\n    except PermissionError as err:", "        pass\n    except PermissionError as err:"),
             (_AR, "    finally:\n        try:\n            os.remove(tmpfile)", "    finally:\n        os.replace(tmpfile, oVhdlFile.filename)\n        try:\n            os.remove(tmpfile)")],
            rule="C16.protocol"),
    Variant("C16", "ClassifyError handler falls through", "fire",
            [(_AR, '        sOutputErr = f"Error while processing {sFileName}: {e.message}"\n        return fExitStatus, testCase, dJsonEntry, sOutputStd, sOutputErr, bKeepProcessingFiles\n\n    oVhdlFile.set_indent_map',
              '        sOutputErr = f"Error while processing {sFileName}: {e.message}"\n        oVhdlFile = vhdlFile.vhdlFile([""])\n\n    oVhdlFile.set_indent_map')],
            rule="C16.order", key="handler-leaves"),
    Variant("C16", "write without had_violations", "fire",
            [(_AR, "        if oRules.had_violations:\n            write_vhdl_file(oVhdlFile, oConfig.dConfig)", "        write_vhdl_file(oVhdlFile, oConfig.dConfig)")],
            rule="C16.order", key="had_violations"),
    Variant("C16", "backup after fix", "fire",
            [(_AR, "        if commandLineArguments.backup:\n            create_backup_file(sFileName)\n        oRules.fix(commandLineArguments.fix_phase, commandLineArguments.skip_phase, fix_only)\n",
              "        oRules.fix(commandLineArguments.fix_phase, commandLineArguments.skip_phase, fix_only)\n        if commandLineArguments.backup:\n            create_backup_file(sFileName)\n")],
            rule="C16.order", key="backup"),
    Variant("C16", "rule writes a debug file", "fire",
            [("vsg/rule.py", '        self._print_debug_message("Fixing rule: " + self.unique_id)', '        self._print_debug_message("Fixing rule: " + self.unique_id)\n            open(oFile.filename + ".log", "a").write(self.unique_id)')],
            rule="C16.sinks"),
    Variant("C16", "tmp removed outside finally", "fire",
            [(_AR, "    finally:\n        try:\n            os.remove(tmpfile)\n        except FileNotFoundError:\n            pass", "    try:\n        os.remove(tmpfile)\n    except FileNotFoundError:\n        pass")],
            rule="C16.protocol", key="cleanup"),
    Variant("C16", "twin: rename tmp variable and reorder stat", "silent",
            [(_AR, '    tmpfile = f"{oVhdlFile.filename}.tmp"\n    myStat = os.stat(oVhdlFile.filename)\n', '    myStat = os.stat(oVhdlFile.filename)\n    tmpfile = oVhdlFile.filename + ".vsgtmp"\n')]),
    Variant("C16", "twin: catch OSError instead of PermissionError", "silent",
            [(_AR, "    except PermissionError as err:", "    except OSError as err:")]),
]
