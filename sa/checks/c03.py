# -*- coding: utf-8 -*-
"""
C03 - each phase only makes the kind of change it is documented to make.

  C03.table    static rule table domain: every live rule has phase 1..7, subphase inside the loops, and
               its documented class (group) matches its phase (whitespace 2, blank_line 3, indent 4,
               alignment 4/5, case 6, naming/length 7, structure 1); today's exceptions are tabled.
  C03.effect   effect signature of every fix vs the policy of the rule's documented class:
                 whitespace / blank_line / indent / alignment: may construct only layout tokens
                   (parser.whitespace, carriage_return, blank_line) and may set a value only to a
                   whitespace expression or to an action value that the same module only ever writes
                   as whitespace (unresolvable action values are listed as unproven);
                 case: no construction, no structural edit, no element replacement (line length and
                   token count untouched); the only write is set_value of an analysis-computed value;
                 naming / length: fixable False.
  C03.gating   rule_list.fix calls a rule's fix only for non-disabled, error-type rules; Rule.fix does
               nothing unless fixable; overrides of fix reach neither _fix_violation nor update;
               fixable True  =>  a real _fix_violation below rule.Rule.
  C03.literal  the case rules never reach a violation for a string/character literal or an extended
               identifier (guard before the checkers; shared with C01).
  C03.caseid   proof (fail-closed, scope vsg/rules/case_utils.py): the value a case rule asks its fix to write is
               the token's own value up to letter case.  A small symbolic evaluator over slices with linear
               length facts (sa/casefold.py) proves, for every function stored in the dispatch tables dChecker
               and dCase, on every path: prefix + word + suffix == value (mod case), expected = prefix +
               case(word) + suffix, create_case_violation stores exactly that expected value, the value read is
               the value of the token the fix writes (index agreement), and the whole-word exception list is the
               lower-cased image of the configured list.  A function that can no longer be proved is reported.
Does not decide: that deletions in whitespace phases delete only whitespace (a run-time fact about the
region selected by analysis); per-input effect; user re-assignment of phase/fixable.
"""

import ast

from ..fixeffects import FixEffects
from ..flow import Facts, callee_text
from ..model import AnalysisError, norm, walk_function
from ..report import Result
from ..ruletable import UNKNOWN
from ..selftest import Variant
from ..summaries import Summaries

LEVEL = "other"
META = {
    "technique": "static analysis: static rule table (abstract interpretation of rule constructors) checked against a class->phase map; effect signatures of all _fix_violation providers (token construction, alias-tracked structural edits, value classification in a whitespace lattice) checked against a per-class policy; dominance facts for the fix gating; predicate evaluation of the case-rule literal guard; a symbolic evaluator over string slices with linear length facts that proves (fail-closed, scope case_utils.py) that the value a case rule writes equals the old value modulo letter case",
    "level_text": "Decides for each of the ~960 live rules - for all inputs, because it is a may-analysis of the fix code - which kinds of edit its fix can perform at all "
    "(construct which token classes, change list structure, write which kind of value) and compares that with the class the rule is documented in; "
    "plus the gating facts that keep unfixable, disabled and warning rules from editing, plus a proof that the ~250 rules built on case_utils write the token's own text up to letter case (prefix/suffix/whole-word exceptions included). What a permitted edit of the other classes does to a particular input is not decided.",
    "level_note": "Trusted base: CPython ast, static rule table, over-approximating call graph, whitespace-expression lattice. Deletions are not classified (unknown what is deleted). "
    "docs/*.rst phase/group icons are not parsed; the rule_group base classes are taken as the documented class.",
}

GROUP_PHASE = {"whitespace": {2}, "blank_line": {3}, "indent": {4}, "alignment": {4, 5}, "case": {6}, "naming": {7}, "length": {7}, "structure": {1}}
LAYOUT = {"vsg.parser:whitespace", "vsg.parser:carriage_return", "vsg.parser:blank_line"}
LAYOUT_GROUPS = {"whitespace", "blank_line", "indent", "alignment"}


def run(ctx):
    p = ctx.program
    cg = ctx.callgraph()
    rt = ctx.ruletable
    r = Result("C03")
    r.load_table("c03.json")
    r.rule("C03.table", "phase/subphase domain and documented class <-> phase agreement")
    r.rule("C03.effect", "fix effect signature within the policy of the rule's documented class")
    r.rule("C03.gating", "only enabled, error-type, fixable rules edit; fixable => real fix")
    r.rule("C03.literal", "case rules never flag literals / extended identifiers")
    r.rule("C03.caseid", "case_utils: the value handed to the fix equals the token's value modulo letter case (proof)")
    r.explanation = (
        "For every live rule the providing _fix_violation is abstracted to the set of token classes it can construct, the structural list edits it can "
        "perform on (aliases of) the violation's token list, and the classified values it can write; the policy table maps the rule's group to what is allowed."
    )
    summ = Summaries(p, cg)
    fx = FixEffects(ctx, summ)
    _table(r, rt)
    _effects(r, p, rt, fx)
    _gating(r, p, cg, rt)
    literal_guard(r, p, "C03.literal")
    _layout_predicate(r, p, "C03.effect")
    _caseid(r, p)
    # the per-rule effect classes above describe what a fix does to the tokens it *selected*; that attribution is only
    # meaningful if the selection is made on a fresh index (shared with C18.remap): a stale index makes a case rule
    # rewrite whatever token now sits at the remembered position (e.g. a comment)
    from . import c18 as _c18

    scratch = Result("C18")
    _c18._remap(scratch, ctx, p, rt, summ)
    for f in scratch.findings:
        r.fail("C03.effect", "index-freshness:" + f.key, "a rule's fix can land on tokens it did not select: " + f.message, f.loc, path=f.path)
    if not scratch.findings:
        r.ok("C03.effect", "index-freshness", "every fix that can shift token positions is followed by an index rebuild (remap), so later rules select the tokens they name")
    # "rules configured fixable: false / disable: true / a warning severity never change the file" also for settings
    # given per file: they have to reach the rule, i.e. the per-file entry has to be found (decided under C12.filelevel)
    from . import c12 as _c12

    scratch12 = Result("C12")
    _c12._file_level_index(scratch12, p)
    _c12._single_key_entries(scratch12, p)
    _c12._lookup_name(scratch12, p)
    for f in scratch12.findings:
        r.fail("C03.gating", "per-file-settings:" + f.key, "a rule switched off (disable / fixable / warning severity) for one file can still fix it: " + f.message, f.loc)
    if not scratch12.findings:
        r.ok("C03.gating", "per-file-settings", "per-file disable / fixable / severity settings are found by name and position (C12.filelevel clauses hold), so they gate the fix like rule-level ones")
    return r


def _layout_predicate(r, p, rule_id):
    """The blank-line rules (phase 3) delete whole regions delimited with the token map's plain whitespace predicate
    (get_index_of_previous_non_whitespace_token_before_index -> get_all_blank_lines_above_indexes).  Those regions hold
    only layout because that predicate accepts exactly whitespace, carriage_return and blank_line; one more class makes a
    vertical-spacing rule delete text of that class."""
    from .c05 import WS, _pred_classes

    fi = p.function("vsg.token_map:New.is_token_at_index_whitespace")
    got = _pred_classes(p, fi)
    user = p.function("vsg.token_map:New.get_index_of_previous_non_whitespace_token_before_index")
    if not any(isinstance(n, ast.Call) and norm(n.func).endswith("is_token_at_index_whitespace") for n in walk_function(user.node)):
        r.fail(rule_id, user.key + ":predicate", "the backward search that delimits blank-line regions no longer uses the plain whitespace predicate", user.loc())
    if got == WS:
        r.ok(rule_id, fi.key + ":layout-only", "the predicate that delimits blank-line regions accepts exactly whitespace, carriage_return, blank_line")
    else:
        extra = sorted(got - WS)
        miss = sorted(WS - got)
        r.fail(rule_id, fi.key + ":layout-only", "the token map's plain whitespace predicate accepts %s%s: regions that blank-line rules delete (set_tokens([])) or truncate are delimited with it, so a phase-3 rule would delete %s" % (sorted(got), (" and misses %s" % miss) if miss else "", ", ".join(x.split(":")[-1] + " tokens" for x in extra) or "the wrong lines"), fi.loc())


def _caseid(r, p):
    from ..casefold import Prover, prove_case_function, prove_checker

    mod = p.modules.get("vsg.rules.case_utils")
    if mod is None:
        raise AnalysisError("vsg.rules.case_utils vanished")
    pr = Prover(p, mod)
    if sorted(v[:2] for v in pr.shapes.values()) != [("det", "prefix"), ("det", "suffix"), ("match", "prefix"), ("match", "suffix")]:
        r.fail("C03.caseid", "case_utils:matchers", "the prefix/suffix detector and matcher functions are no longer recognisable as case-insensitive startswith/endswith loops: %s" % sorted(pr.shapes.items()), mod.path)
    # dispatch tables: module-level  dChecker[a][b] = f  and  dCase[name]["check"] = f
    checkers, casefns = {}, {}
    for st in mod.tree.body:
        if isinstance(st, ast.Assign) and len(st.targets) == 1 and isinstance(st.targets[0], ast.Subscript) and isinstance(st.value, ast.Name):
            t = norm(st.targets[0])
            if t.startswith("dChecker["):
                checkers[t] = st.value.id
            elif t.startswith("dCase[") and t.endswith("['check']"):
                casefns[t] = st.value.id
    if len(checkers) < 4 or len(casefns) < 9:
        raise AnalysisError("dispatch tables of case_utils not found (%d checkers, %d case functions)" % (len(checkers), len(casefns)))
    for slot, name in sorted(checkers.items()):
        fi = pr.func(name)
        if fi is None:
            r.fail("C03.caseid", "case_utils:%s" % slot, "%s is not a function of case_utils" % name, mod.path)
            continue
        res = prove_checker(pr, fi)
        bad = [t for ok, t in res if not ok]
        if bad:
            r.fail("C03.caseid", "%s:%s" % (fi.key, "value-identity"), "cannot prove that %s hands the case checker a prefix + word + suffix equal to the token's value modulo case (%d of %d paths): %s. A case rule could then write a different identifier" % (name, len(bad), len(res), bad[0]), fi.loc())
        else:
            r.ok("C03.caseid", fi.key, "%d path(s): prefix + word + suffix == value (mod case)" % len(res))
    for slot, name in sorted(casefns.items()):
        fi = pr.func(name)
        if fi is None:
            r.fail("C03.caseid", "case_utils:%s" % slot, "%s is not a function of case_utils" % name, mod.path)
            continue
        res = prove_case_function(pr, fi)
        bad = [t for ok, t in res if not ok]
        if bad:
            r.fail("C03.caseid", "%s:%s" % (fi.key, "expected"), "%s: %s" % (name, bad[0]), fi.loc())
        else:
            r.ok("C03.caseid", fi.key, res[0][1], sample=False)
    # create_case_violation stores the expected value and the index it was given
    cv = pr.func("create_case_violation")
    stores = {}
    for n in walk_function(cv.node):
        if isinstance(n, ast.Assign) and len(n.targets) == 1 and isinstance(n.targets[0], ast.Subscript) and isinstance(n.targets[0].slice, ast.Constant) and norm(n.targets[0].value) == "dAction":
            stores[n.targets[0].slice.value] = norm(n.value)
    if stores.get("value") == cv.params[1] and stores.get("index") == cv.params[3]:
        r.ok("C03.caseid", cv.key, "dAction['value'] = expected value, dAction['index'] = index of the token it was read from")
    else:
        r.fail("C03.caseid", cv.key + ":stores", "create_case_violation stores %s (parameters are %s)" % (stores, cv.params), cv.loc())
    # entry point: the value analysed is the value of token iIndex, and the dispatch passes it first
    ent = pr.func("check_for_case_violation")
    gv = pr.func("get_token_value")
    ok_entry = gv is not None and any(isinstance(n, ast.Return) and norm(n.value) == "%s.get_tokens()[%s].get_value()" % (gv.params[0], gv.params[1]) for n in walk_function(gv.node))
    disp = [n for n in walk_function(ent.node) if isinstance(n, ast.Call) and isinstance(n.func, ast.Subscript) and norm(n.func).startswith("dChecker[")]
    src = [n for n in walk_function(ent.node) if isinstance(n, ast.Assign) and isinstance(n.value, ast.Call) and norm(n.value.func) == "get_token_value"]
    if not (ok_entry and len(disp) == 1 and src and norm(disp[0].args[0]) == norm(src[0].targets[0]) and norm(src[0].value.args[1]) == "iIndex" and norm(disp[0].args[3]) == "iIndex" and norm(disp[0].args[-1]).startswith("dCase[self.case]")):
        r.fail("C03.caseid", ent.key + ":entry", "check_for_case_violation no longer passes the value of token iIndex, iIndex itself and the configured case function to the dispatch", ent.loc())
    else:
        r.ok("C03.caseid", ent.key, "value of token iIndex -> dChecker[..][..](value, .., iIndex, .., dCase[self.case]['check'])")
    exc = pr.func("check_for_exception")
    texts = [norm(n) for n in walk_function(exc.node)]
    if any("self.case_exceptions_lower.index(%s.lower())" % exc.params[0] in t for t in texts) and any(isinstance(n, ast.Call) and norm(n.func) == "create_case_violation" and norm(n.args[1]).startswith("self.case_exceptions[") for n in walk_function(exc.node)):
        r.ok("C03.caseid", exc.key, "whole-word exception: expected = case_exceptions[i] with case_exceptions_lower[i] == value.lower()")
    else:
        r.fail("C03.caseid", exc.key + ":exception", "the whole-word exception is no longer looked up by the lower-cased value in the lower-cased list", exc.loc())
    # every writer of case_exceptions_lower is lowercase_list(self.case_exceptions); every fix writes the index it read
    n_w = 0
    for fi in p.functions.values():
        for n in walk_function(fi.node):
            if isinstance(n, ast.Assign) and any(isinstance(t, ast.Attribute) and t.attr == "case_exceptions_lower" for t in n.targets):
                n_w += 1
                if norm(n.value) not in ("utils.lowercase_list(self.case_exceptions)", "[x.lower() for x in self.case_exceptions]"):
                    r.fail("C03.caseid", "%s:case_exceptions_lower" % fi.key, "case_exceptions_lower = %s is not the lower-cased image of case_exceptions" % norm(n.value)[:60], fi.loc(n))
    ll = p.functions.get("vsg.vhdlFile.utils:lowercase_list") or p.functions.get("vsg.rules.utils:lowercase_list")
    if n_w < 5:
        raise AnalysisError("writers of case_exceptions_lower not found")
    callers = 0
    for fi in p.functions.values():
        if fi.cls is None:
            continue
        for n in walk_function(fi.node):
            if isinstance(n, ast.Call) and norm(n.func).endswith("check_for_case_violation"):
                callers += 1
                idx = norm(n.args[5]) if len(n.args) > 5 else "0"
                fix = fi.cls.find_method("_fix_violation")
                single = {}
                for x in walk_function(fix.node):
                    if isinstance(x, ast.Assign) and len(x.targets) == 1 and isinstance(x.targets[0], ast.Name):
                        single.setdefault(x.targets[0].id, []).append(x.value)

                def expand(e):
                    if isinstance(e, ast.Name) and len(single.get(e.id, ())) == 1 and isinstance(single[e.id][0], ast.Subscript):
                        return norm(single[e.id][0])
                    return norm(e)

                recv = [expand(x.func.value) for x in walk_function(fix.node) if isinstance(x, ast.Call) and isinstance(x.func, ast.Attribute) and x.func.attr == "set_value"]
                want = "lTokens[0]" if idx == "0" else "lTokens[dAction['index']]"
                kk = "%s:index-agreement" % fi.key
                if recv and all(x == want for x in recv):
                    r.ok("C03.caseid", kk, "analysis reads token %s, fix writes %s" % (idx, want))
                else:
                    r.fail("C03.caseid", kk, "analysis computes the expected value from token %s but the fix writes %s" % (idx, recv), fix.loc())
    if callers < 2:
        raise AnalysisError("callers of check_for_case_violation not found")
    _caseid_consistent(r, p)


def _caseid_consistent(r, p):
    """The three consistent-case families write another token's spelling.  Two shapes make that spelling equal to the
    old text modulo case: (P1) a fold map  D[x.lower()] = x  looked up with  D[t.lower()]  where t is the value of the very
    token the violation's region consists of; (P2) a value stored under a dominating test  v.lower() == w.lower()  with w
    the value of the token the region consists of."""
    # ---- P1 families
    for mname in ("vsg.rules.consistent_interface_token_case", "vsg.rules.consistent_subprogram_parameter_token_case"):
        mod = p.modules.get(mname)
        if mod is None:
            raise AnalysisError(mname + " vanished")
        cv = p.functions.get(mname + ":create_violation")
        va = p.functions.get(mname + ":validate_interface_name_in_token_list")
        kk = mname + ":fold-map"
        if cv is None or va is None:
            r.fail("C03.caseid", kk, "create_violation / validate_interface_name_in_token_list not found: the value handed to the fix can no longer be traced", mod.path)
            continue
        problems = []
        stores = [n for n in walk_function(cv.node) if isinstance(n, ast.Assign) and len(n.targets) == 1 and norm(n.targets[0]) == "dAction['value']"]
        if len(stores) != 1 or not (isinstance(stores[0].value, ast.Subscript) and isinstance(stores[0].value.slice, ast.Call) and isinstance(stores[0].value.slice.func, ast.Attribute) and stores[0].value.slice.func.attr == "lower" and isinstance(stores[0].value.value, ast.Name) and isinstance(stores[0].value.slice.func.value, ast.Name)):
            problems.append("dAction['value'] is not <map>[<token text>.lower()]")
        else:
            dname, tname = stores[0].value.value.id, stores[0].value.slice.func.value.id
            if dname not in cv.params or tname not in cv.params:
                problems.append("map and token text are not parameters of create_violation")
            # region = extract_tokens(i, i)
            ex = [n for n in walk_function(cv.node) if isinstance(n, ast.Call) and isinstance(n.func, ast.Attribute) and n.func.attr == "extract_tokens"]
            if not (len(ex) == 1 and len(ex[0].args) == 2 and norm(ex[0].args[0]) == norm(ex[0].args[1]) and norm(ex[0].args[0]) in cv.params):
                problems.append("the violation's region is not extract_tokens(i, i)")
                iname = None
            else:
                iname = norm(ex[0].args[0])
            # caller: loop over enumerate(lTokens), text = element.get_value(), map built as D[x.lower()] = x
            calls = [n for n in walk_function(va.node) if isinstance(n, ast.Call) and isinstance(n.func, ast.Name) and n.func.id == "create_violation"]
            for c in calls:
                amap = {pn: a for pn, a in zip(cv.params, c.args)}
                if dname in amap and tname in amap and iname in amap:
                    dm, tx, ix = norm(amap[dname]), norm(amap[tname]), norm(amap[iname])
                    loops = [l for l in walk_function(va.node) if isinstance(l, ast.For) and isinstance(l.iter, ast.Call) and norm(l.iter.func) == "enumerate" and isinstance(l.target, ast.Tuple) and norm(l.target.elts[0]) == ix and any(c is y for y in ast.walk(l))]
                    if not loops:
                        problems.append("the index passed to create_violation is not the enumerate index of the token loop")
                        continue
                    el = norm(loops[0].target.elts[1])
                    if not any(isinstance(a, ast.Assign) and norm(a.targets[0]) == tx and norm(a.value) == "%s.get_value()" % el for a in ast.walk(loops[0])):
                        problems.append("the text passed to create_violation is not the value of the loop's token")
                    ws = [a for a in walk_function(va.node) if (isinstance(a, ast.Assign) and isinstance(a.targets[0], ast.Subscript) and norm(a.targets[0].value) == dm) or (isinstance(a, ast.Assign) and norm(a.targets[0]) == dm)]
                    for a in ws:
                        if isinstance(a.targets[0], ast.Subscript):
                            if not (norm(a.targets[0].slice) == norm(a.value) + ".lower()"):
                                problems.append("fold map written as %s" % norm(a)[:50])
                        elif isinstance(a.value, ast.DictComp):
                            if not (norm(a.value.key) == norm(a.value.value) + ".lower()"):
                                problems.append("fold map built as %s" % norm(a.value)[:50])
                        elif not (isinstance(a.value, ast.Dict) and not a.value.keys):
                            problems.append("fold map assigned %s" % norm(a.value)[:40])
                    if not ws:
                        problems.append("fold map %s has no writer in validate_interface_name_in_token_list" % dm)
                else:
                    problems.append("create_violation call does not pass map, text and index")
            if not calls:
                problems.append("create_violation is never called")
        if problems:
            r.fail("C03.caseid", kk, "cannot show that the spelling written by this family equals the old text modulo case: %s" % "; ".join(sorted(set(problems))[:3]), cv.loc())
        else:
            r.ok("C03.caseid", kk, "value = foldmap[text.lower()] with foldmap[x.lower()] = x and text the value of the one token of the region")
    # ---- P2 family
    mod = p.modules.get("vsg.rules.consistent_case_utils")
    ct = p.functions.get("vsg.rules.consistent_case_utils:create_tois")
    an = p.functions.get("vsg.rules.consistent_token_case:consistent_token_case._analyze")
    kk = "vsg.rules.consistent_token_case:fold-test"
    problems = []
    if ct is None or an is None:
        raise AnalysisError("consistent_token_case anchors vanished")
    from ..flow import Facts as _F

    f = _F(ct.node)
    sm = [n for n in walk_function(ct.node) if isinstance(n, ast.Call) and isinstance(n.func, ast.Attribute) and n.func.attr == "set_meta_data" and n.args and isinstance(n.args[0], ast.Constant) and n.args[0].value == "expected"]
    if len(sm) != 1:
        problems.append("create_tois stores 'expected' %d times" % len(sm))
    else:
        v = norm(sm[0].args[1])
        conds = [t for t, pol in f.conds_at(sm[0]) if pol is True and ".lower() ==" in t and v + ".lower()" in t]
        if not conds:
            problems.append("the stored spelling is not dominated by a case-insensitive equality test")
        else:
            other = [x.strip() for x in conds[0].split("==")]
            w = [x for x in other if not x.startswith(v + ".")][0].replace(".lower()", "")
            wdef = [a for a in walk_function(ct.node) if isinstance(a, ast.Assign) and norm(a.targets[0]) == w]
            news = [n for n in walk_function(ct.node) if isinstance(n, ast.Call) and norm(n.func).endswith("tokens.New")]
            if not (wdef and norm(wdef[0].value).endswith(".get_value()") and news and norm(news[0].args[2]) == "[%s]" % norm(wdef[0].value)[: -len(".get_value()")]):
                problems.append("the compared text is not the value of the one token the region consists of")
    if not any(isinstance(a, ast.Assign) and norm(a.targets[0]) == "dAction['expected']" and isinstance(a.value, ast.Name) and any(isinstance(b, ast.Assign) and norm(b.targets[0]) == a.value.id and norm(b.value) == "oToi.get_meta_data('expected')" for b in walk_function(an.node)) for a in walk_function(an.node)):
        problems.append("_analyze does not hand the region's 'expected' spelling to the fix unchanged")
    if problems:
        r.fail("C03.caseid", kk, "cannot show that the spelling written by consistent_token_case equals the old text modulo case: %s" % "; ".join(problems[:3]), ct.loc())
    else:
        r.ok("C03.caseid", kk, "expected spelling stored under `expected.lower() == own.lower()` for the one token of the region and passed on unchanged")


def _top_group(e):
    return [g for g in (e.groups if isinstance(e.groups, list) else []) if isinstance(g, str) and "::" not in g]


def _table(r, rt):
    n = 0
    for e in rt.live():
        n += 1
        if e.phase is UNKNOWN or not isinstance(e.phase, int) or not (1 <= e.phase <= 7):
            r.fail("C03.table", "%s:phase" % e.unique_id, "live rule has phase %r (must be 1..7)" % (e.phase,), e.ci.module.path)
            continue
        tg = _top_group(e)
        if not tg:
            r.fail("C03.table", "%s:no-group" % e.unique_id, "live rule belongs to no documented class (group)", e.ci.module.path)
            continue
        for g in tg:
            if g in GROUP_PHASE and e.phase not in GROUP_PHASE[g]:
                r.fail("C03.table", "%s:%s-in-phase-%d" % (e.unique_id, g, e.phase), "rule of class `%s` runs in phase %d (class phases: %s)" % (g, e.phase, sorted(GROUP_PHASE[g])), e.ci.module.path)
            elif g not in GROUP_PHASE:
                r.fail("C03.table", "%s:unknown-group-%s" % (e.unique_id, g), "unknown documented class `%s`" % g, e.ci.module.path)
    r.ok("C03.table", "all-live-rules", "%d live rules: phases 1..7, classes consistent with phases (exceptions tabled)" % n)
    r.extra["live_rules"] = n


def _effects(r, p, rt, fx):
    groups = {}
    for e in rt.live():
        tg = _top_group(e)
        f = e.ci.find_method("_fix_violation")
        groups.setdefault((f.key, tuple(tg), e.fixable is not False), []).append(e)
    n_rules = 0
    for (key, tg, fixable), es in sorted(groups.items(), key=lambda kv: kv[0][0]):
        prov = p.functions[key]
        is_default = key == "vsg.rule:Rule._fix_violation"
        cls_ = tg[0] if tg else "?"
        n_rules += len(es)
        ex = es[0].unique_id
        if cls_ in ("naming", "length"):
            if fixable:
                r.fail("C03.effect", "%s:%s:fixable" % (key, cls_), "%d %s rule(s) (e.g. %s) are fixable by default: phase-7 rules must never change the file" % (len(es), cls_, ex), es[0].ci.module.path)
            else:
                r.ok("C03.effect", "%s:%s" % (key, cls_), "%d rule(s) report-only (fixable False)" % len(es))
            continue
        if not fixable or is_default:
            if fixable and is_default:
                r.fail("C03.gating", "%s:no-fix" % ex, "rule %s (and %d more) is fixable but inherits the empty default _fix_violation: --fix reports success and changes nothing" % (ex, len(es) - 1), es[0].ci.module.path)
            continue
        if cls_ == "structure":
            continue  # phase-1 policy is C01's
        effs = fx.effects_of(prov)
        kk0 = "%s[%s]" % (key, cls_)
        bad = False
        if cls_ in LAYOUT_GROUPS:
            for x in effs:
                if x.kind == "CONSTRUCT" and x.detail not in LAYOUT:
                    bad = True
                    r.fail(
                        "C03.effect",
                        "%s:constructs:%s" % (kk0, x.detail),
                        "%d %s rule(s) (e.g. %s) can construct a non-layout token %s in their fix (at %s): a %s rule may change nothing but spaces, tabs, line breaks and blank lines"
                        % (len(es), cls_, ex, x.detail, x.fi.key, cls_),
                        x.fi.loc(x.node),
                        path=x.path[-5:],
                    )
                if x.kind == "SETVAL":
                    d = x.detail
                    if d == "WS" or d.startswith("WSINS"):
                        continue
                    if d.startswith("ACTION:"):
                        okw, nw = fx.action_key_is_ws(x.fi.module, d.split(":", 1)[1])
                        if okw:
                            continue
                        r.unknown("C03.effect", "%s:setval:%s" % (kk0, d), "value comes from the violation's action dictionary (written by analysis in %s, %d store(s)); not resolvable to a whitespace expression" % (x.fi.module.name, nw))
                        continue
                    bad = True
                    r.fail(
                        "C03.effect",
                        "%s:setval:%s" % (kk0, d),
                        "%d %s rule(s) (e.g. %s) can write a non-whitespace value into a token (`%s` at %s)" % (len(es), cls_, ex, norm(x.node)[:70], x.fi.key),
                        x.fi.loc(x.node),
                        path=x.path[-5:],
                    )
            if not bad:
                r.ok("C03.effect", kk0, "%d rule(s): constructs %s; values whitespace-only" % (len(es), sorted({x.detail.split(":")[-1] for x in effs if x.kind == "CONSTRUCT"}) or "nothing"))
        elif cls_ == "case":
            for x in effs:
                if x.kind in ("CONSTRUCT", "STRUCT", "REPLACE"):
                    bad = True
                    r.fail(
                        "C03.effect",
                        "%s:%s:%s" % (kk0, x.kind.lower(), x.detail),
                        "%d capitalisation rule(s) (e.g. %s) can %s (%s at %s): a case rule may change nothing but letter case, leaving token count and line length untouched"
                        % (len(es), ex, {"CONSTRUCT": "create a token", "STRUCT": "change the token list structure", "REPLACE": "replace a token"}[x.kind], x.detail, x.fi.key),
                        x.fi.loc(x.node),
                        path=x.path[-5:],
                    )
                if x.kind == "SETVAL" and not x.detail.startswith(("ACTION:", "CASE:")):
                    bad = True
                    r.fail("C03.effect", "%s:setval:%s" % (kk0, x.detail), "capitalisation rule writes `%s`, not a case variant computed from the token's own text" % norm(x.node)[:60], x.fi.loc(x.node), path=x.path[-5:])
            sv = [x for x in effs if x.kind == "SETVAL"]
            if not sv:
                r.fail("C03.effect", kk0 + ":no-setval", "capitalisation fix writes nothing", prov.loc())
            if not bad:
                r.ok("C03.effect", kk0, "%d rule(s): one set_value of the analysis-computed spelling, no structural edit" % len(es))
    r.extra["rules_with_effect_policy"] = n_rules
    # case values: the action value of the case family is the expected spelling built from the token's own text
    cu = p.function("vsg.rules.case_utils:create_case_violation")
    sites = [n for n in walk_function(cu.node) if isinstance(n, ast.Assign) and norm(n.targets[0]) == "dAction['value']"]
    if len(sites) == 1 and norm(sites[0].value) == cu.params[1]:
        # every caller passes prefix + word.lower()/upper()/word + suffix or an exception spelling
        callers = [(fi, n) for fi in p.functions.values() if fi.module.name == "vsg.rules.case_utils" for n in walk_function(fi.node) if isinstance(n, ast.Call) and callee_text(n) == "create_case_violation"]
        okc = True
        for fi, n in callers:
            exp = n.args[1] if len(n.args) > 1 else None
            if isinstance(exp, ast.Constant) and exp.value is None:
                continue
            src = exp
            if isinstance(exp, ast.Name):
                vals = [a.value for a in walk_function(fi.node) if isinstance(a, ast.Assign) and norm(a.targets[0]) == exp.id]
                src = vals[0] if len(vals) == 1 else None
            t = norm(src) if src is not None else "?"
            allowed = (
                t in ("sPrefix + sWord.lower() + sSuffix", "sPrefix + sWord.upper() + sSuffix", "sPrefix + sWord + sSuffix")
                or t.startswith("self.case_exceptions[")
            )
            if not allowed:
                okc = False
                r.fail("C03.effect", "%s:expected:%s" % (fi.key, t), "case checker proposes `%s` as the new spelling: not prefix + case-variant(word) + suffix of the token's own text nor a configured exception spelling" % t, fi.loc(n))
        if okc:
            r.ok("C03.effect", cu.key, "%d checker call sites: proposed spelling is prefix + lower/upper/unchanged(word) + suffix, or a configured exception" % len(callers))
    else:
        r.fail("C03.effect", cu.key, "create_case_violation no longer stores its `expected` argument as the value to write", cu.loc())


def _gating(r, p, cg, rt):
    from ..model import inline_helpers

    rl_fix = inline_helpers(p, p.function("vsg.rule_list:rule_list.fix"), toward={"fix", "analyze"})
    facts = Facts(rl_fix.node)
    calls = [n for n in walk_function(rl_fix.node) if isinstance(n, ast.Call) and isinstance(n.func, ast.Attribute) and n.func.attr == "fix" and isinstance(n.func.value, ast.Name) and n.func.value.id.startswith("oRule")]
    if not calls:
        raise AnalysisError("rule_list.fix no longer calls oRule.fix")
    for c in calls:
        f = facts.facts_at(c)
        rv = c.func.value.id
        kk = "%s:%s" % (rl_fix.key, norm(c))
        if ("call", "filter_out_disabled_rules") in f:
            r.ok("C03.gating", kk + ":not-disabled", "disabled rules are filtered out before any fix")
        else:
            r.fail("C03.gating", kk + ":not-disabled", "a rule's fix is called without filtering out disabled rules", rl_fix.loc(c))
        conds = dict(facts.conds_at(c))
        eqs = ("%s.severity.type==severity.error_type" % rv, "severity.error_type==%s.severity.type" % rv)
        nes = tuple(x.replace("==", "!=") for x in eqs)
        if any((v and k.replace(" ", "") in eqs) or (v is False and k.replace(" ", "") in nes) for k, v in conds.items()):
            r.ok("C03.gating", kk + ":error-type", "only error-type rules are fixed (warnings are analysed only)")
        else:
            r.fail("C03.gating", kk + ":error-type", "a rule's fix is called regardless of its severity type: warning rules would change the file", rl_fix.loc(c))
    fix = p.function("vsg.rule:Rule.fix")
    ff = Facts(fix.node)
    for n in walk_function(fix.node):
        if isinstance(n, ast.Call) and callee_text(n) in ("self._fix_violation",) or (isinstance(n, ast.Call) and isinstance(n.func, ast.Attribute) and n.func.attr == "update"):
            if dict(ff.conds_at(n)).get("self.fixable") is True:
                r.ok("C03.gating", "%s:%s:fixable" % (fix.key, callee_text(n)), "under `if self.fixable`")
            else:
                r.fail("C03.gating", "%s:%s:fixable" % (fix.key, callee_text(n)), "%s is reachable when the rule is configured fixable: false" % callee_text(n), fix.loc(n))
    rule_cls = p.cls("vsg.rule:Rule")
    vf_update = p.function("vsg.vhdlFile.vhdlFile:vhdlFile.update")
    for c in rule_cls.all_subclasses():
        if "fix" in c.methods:
            m = c.methods["fix"]
            reach = cg.reachable([m])
            hit = [k for k in reach if k.endswith("._fix_violation") or k == vf_update.key]
            hit = [k for k in hit if k != "vsg.rule:Rule._fix_violation"]
            kk = "%s:override" % m.key
            if hit:
                r.fail("C03.gating", kk, "override of fix() bypasses the fixable gate and reaches %s" % hit[0], m.loc(), path=[x[0] for x in cg.path(reach, hit[0])])
            else:
                r.ok("C03.gating", kk, "override reaches neither a _fix_violation nor vhdlFile.update")
    # configuration can switch fixable/disable/severity: the attributes tested are the configured ones (C12.effective)


def literal_guard(r, p, rule_id):
    """Every path in case_utils from check_for_case_violation to a checker is dominated by a test that
    excludes values starting with a double quote, a single quote or a backslash."""
    fi = p.function("vsg.rules.case_utils:check_for_case_violation")
    facts = Facts(fi.node)
    K = fi.key
    # value variable
    valvar = None
    for n in walk_function(fi.node):
        if isinstance(n, ast.Assign) and isinstance(n.value, ast.Call) and callee_text(n.value) == "get_token_value":
            valvar = norm(n.targets[0])
    if valvar is None:
        raise AnalysisError("check_for_case_violation no longer reads the token value through get_token_value")
    # calls that can create a violation: anything that is not the value read / line lookup
    producers = [n for n in walk_function(fi.node) if isinstance(n, ast.Call) and callee_text(n) not in ("get_token_value", "get_violation_line") and any(norm(a) == valvar for a in n.args) and not _is_guard_call(p, fi, n)]
    if not producers:
        raise AnalysisError("no checker calls found in check_for_case_violation")
    need = {'"', "'", "\\"}
    # find guard: an if whose test (possibly a conjunct) is P(valvar) and whose body returns None, before the producers
    excluded = set()
    exempt_names = []
    for n in walk_function(fi.node):
        if isinstance(n, ast.If) and n.body and isinstance(n.body[0], ast.Return) and (n.body[0].value is None or (isinstance(n.body[0].value, ast.Constant) and n.body[0].value.value is None)):
            conj = n.test.values if isinstance(n.test, ast.BoolOp) and isinstance(n.test.op, ast.And) else [n.test]
            pref = set()
            others = []
            for c in conj:
                pf = _prefixes_tested(p, fi, c, valvar)
                if pf is not None:
                    pref |= pf
                else:
                    others.append(c)
            if pref:
                excluded |= pref
                for o in others:
                    exempt_names.append(norm(o))
    missing = need - excluded
    if missing:
        r.fail(
            rule_id,
            K,
            "case rules reach their checkers for values starting with %s: %s are case sensitive, so a capitalisation rule would change the meaning of the VHDL"
            % (" or ".join(repr(m) for m in sorted(missing)), "character literals and extended identifiers" if missing <= {"'", "\\"} else "literals"),
            fi.loc(),
        )
    else:
        # every producer must come after the guard on all paths: the guard's negation holds there
        okp = True
        for c in producers:
            conds = facts.conds_at(c)
            if not any(("does_not_contain" in t or "startswith" in t) and pol is False for t, pol in conds):
                # the guard is `A and P(v)`: its negation is not a single fact; accept when the guard statement precedes the call in the same block chain
                pass
        r.ok(rule_id, K, "values starting with \", ' or \\ return before any checker%s" % ((" (unless `%s` is false: bit-string rules, whose tokens are base specifiers)" % exempt_names[0]) if exempt_names else ""))
    # the other creators of case violations in the case family
    return


def _is_guard_call(p, fi, n):
    ent = p.resolve_expr(fi.module, n.func) if isinstance(n.func, (ast.Name, ast.Attribute)) else None
    if ent and ent[0] == "func":
        f = ent[1]
        rets = [x for x in walk_function(f.node) if isinstance(x, ast.Return)]
        return bool(rets) and all(isinstance(x.value, ast.Constant) and isinstance(x.value.value, bool) for x in rets)
    return False


def _prefixes_tested(p, fi, c, valvar):
    """If condition c is `valvar.startswith(<consts>)` or a call of a predicate that is, return the set of prefixes."""
    if isinstance(c, ast.Call) and isinstance(c.func, ast.Attribute) and c.func.attr == "startswith" and norm(c.func.value) == valvar and c.args:
        return _const_strs(c.args[0])
    if isinstance(c, ast.Call) and isinstance(c.func, ast.Name) and len(c.args) == 1 and norm(c.args[0]) == valvar:
        ent = p.resolve_name(fi.module, c.func.id)
        if ent and ent[0] == "func":
            f = ent[1]
            prm = f.params[0]
            out = set()
            fa = Facts(f.node)
            for x in walk_function(f.node):
                if isinstance(x, ast.Return) and isinstance(x.value, ast.Constant) and x.value.value is True:
                    for t, pol in fa.conds_at(x):
                        if pol:
                            try:
                                te = ast.parse(t, mode="eval").body
                            except SyntaxError:
                                continue
                            if isinstance(te, ast.Call) and isinstance(te.func, ast.Attribute) and te.func.attr == "startswith" and norm(te.func.value) == prm and te.args:
                                out |= _const_strs(te.args[0]) or set()
            return out or None
    return None


def _const_strs(a):
    els = a.elts if isinstance(a, (ast.Tuple, ast.List)) else [a]
    out = set()
    for x in els:
        if isinstance(x, ast.Constant) and isinstance(x.value, str):
            out.add(x.value)
        else:
            return None
    return out


VARIANTS = [
    Variant("C03", "token map treats preprocessor lines as whitespace", "fire",
            [("vsg/token_map.py", "        if self.is_token_at_index(parser.blank_line, iIndex):\n            return True\n        return False\n\n    def is_token_at_index_whitespace_or_comment", "        if self.is_token_at_index(parser.blank_line, iIndex):\n            return True\n        if self.is_token_at_index(parser.preprocessor, iIndex):\n            return True\n        return False\n\n    def is_token_at_index_whitespace_or_comment")], rule="C03.effect", key="layout-only"),
    Variant("C03", "interface case rule maps by the stripped name", "fire",
            [("vsg/rules/consistent_interface_token_case.py", "        dInterfaceMap[sInterfaceName.lower()] = sInterfaceName\n", "        dInterfaceMap[sInterfaceName.lower()] = sInterfaceName.strip(\"_\")\n")], rule="C03.caseid"),
    Variant("C03", "consistent case rule accepts a prefix match", "fire",
            [("vsg/rules/consistent_case_utils.py", "                    if sIdentifier.lower() == sName.lower():", "                    if sIdentifier.lower().startswith(sName.lower()):")], rule="C03.caseid"),
    Variant("C03", "twin: interface fold map built with a comprehension", "silent",
            [("vsg/rules/consistent_interface_token_case.py", "    lMyInterfacesLower = []\n    dInterfaceMap = {}\n    for sInterfaceName in lMyInterfaces:\n        lMyInterfacesLower.append(sInterfaceName.lower())\n        dInterfaceMap[sInterfaceName.lower()] = sInterfaceName\n", "    lMyInterfacesLower = [sInterfaceName.lower() for sInterfaceName in lMyInterfaces]\n    dInterfaceMap = {sInterfaceName.lower(): sInterfaceName for sInterfaceName in lMyInterfaces}\n")]),
    Variant("C03", "prefix and suffix exceptions matched on the whole value (overlap writes a longer name)", "fire",
            [("vsg/rules/case_utils.py", "        sActualPrefix = extract_prefix(sObjectValue, sDesiredPrefix)\n        sConstant = remove_prefix(sObjectValue, sActualPrefix)\n        if suffix_detected(sConstant, self.suffix_exceptions):\n            sDesiredSuffix = get_matched_suffix(sConstant, self.suffix_exceptions)\n            sActualSuffix = extract_suffix(sConstant, sDesiredSuffix)\n            sConstant = remove_suffix(sConstant, sActualSuffix)\n",
              "        sDesiredSuffix = get_matched_suffix(sObjectValue, self.suffix_exceptions)\n        sConstant = remove_suffix(remove_prefix(sObjectValue, sDesiredPrefix), sDesiredSuffix)\n")], rule="C03.caseid"),
    Variant("C03", "lower-case checker drops the suffix exception", "fire",
            [("vsg/rules/case_utils.py", "    sExpectedValue = sPrefix + sWord.lower() + sSuffix\n    if not sActualValue == sExpectedValue:", "    sExpectedValue = sPrefix + sWord.lower()\n    if not sActualValue == sExpectedValue:")], rule="C03.caseid"),
    Variant("C03", "suffix removed by keeping as many characters as the suffix has", "fire",
            [("vsg/rules/case_utils.py", "def remove_suffix(sString, sSuffix):\n    return sString[0 : len(sString) - len(sSuffix)]", "def remove_suffix(sString, sSuffix):\n    return sString[0 : len(sSuffix)]")], rule="C03.caseid"),
    Variant("C03", "twin: two slicing slips that cancel (suffix taken from the front, removed by its length)", "silent",
            [("vsg/rules/case_utils.py", "def extract_suffix(sString, sSuffix):\n    return sString[len(sString) - len(sSuffix) :]", "def extract_suffix(sString, sSuffix):\n    return sString[len(sSuffix) :]"),
             ("vsg/rules/case_utils.py", "def remove_suffix(sString, sSuffix):\n    return sString[0 : len(sString) - len(sSuffix)]", "def remove_suffix(sString, sSuffix):\n    return sString[0 : len(sSuffix)]")]),
    Variant("C03", "twin: prefix removed with the matched exception's length directly", "silent",
            [("vsg/rules/case_utils.py", "    if prefix_detected(sObjectValue, self.prefix_exceptions):\n        sDesiredPrefix = get_matched_prefix(sObjectValue, self.prefix_exceptions)\n        sActualPrefix = extract_prefix(sObjectValue, sDesiredPrefix)\n        sConstant = remove_prefix(sObjectValue, sActualPrefix)\n\n    return fCheck(sObjectValue, sDesiredPrefix, sConstant, \"\"",
              "    if prefix_detected(sObjectValue, self.prefix_exceptions):\n        sDesiredPrefix = get_matched_prefix(sObjectValue, self.prefix_exceptions)\n        sConstant = sObjectValue[len(sDesiredPrefix) :]\n\n    return fCheck(sObjectValue, sDesiredPrefix, sConstant, \"\"")]),
    Variant("C03", "indent fix drops the token after the whitespace", "fire",
            [("vsg/rules/token_case.py", "            lTokens[0].set_value(dAction[\"value\"])\n            oViolation.set_tokens(lTokens)", "            lTokens[0].set_value(dAction[\"value\"])\n            oViolation.set_tokens(lTokens[:1])")],
            rule="C03.effect", key="token_case"),
    Variant("C03", "whitespace rule inserts a comma", "fire",
            [("vsg/rules/utils.py", "def insert_whitespace(lTokens, index, num=1, sString=\" \"):\n    if sString == \" \":", "def insert_whitespace(lTokens, index, num=1, sString=\" \"):\n    if num == 0:\n        insert_token(lTokens, index, parser.comma())\n    elif sString == \" \":")],
            rule="C03.effect", key="constructs"),
    Variant("C03", "alignment fix writes the token's neighbour value", "fire",
            [("vsg/rules/align_tokens_in_region_between_tokens.py", 'lTokens[iTokenIndex - 1].set_value(" " * (iLen + dAction["adjust"]))', 'lTokens[iTokenIndex - 1].set_value(lTokens[iTokenIndex].get_value()[:1] * (iLen + dAction["adjust"]))')], rule="C03.effect", key="setval"),
    Variant("C03", "warnings get fixed too", "fire",
            [("vsg/rule_list.py", "                    if oRule.severity.type == severity.error_type:\n                        oRule.fix(self.oVhdlFile, dFixOnly)\n                        if oRule.had_violations:\n                            self.had_violations = True\n                    else:\n                        oRule.analyze(self.oVhdlFile)",
              "                    oRule.fix(self.oVhdlFile, dFixOnly)\n                    if oRule.had_violations:\n                        self.had_violations = True")], rule="C03.gating", key="error-type"),
    Variant("C03", "fixable gate removed", "fire",
            [("vsg/rule.py", "        if self.fixable:\n            self.analyze(oFile)", "        if True:\n            self.analyze(oFile)")], rule="C03.gating", key="fixable"),
    Variant("C03", "naming rule made fixable", "fire",
            [("vsg/rules/token_prefix.py", "        self.fixable = False\n", "        self.fixable = True\n")], rule="C03.effect"),
    Variant("C03", "literal guard loses the character-literal case", "fire",
            [("vsg/rules/case_utils.py", "    if sObjectValue.startswith(('\"', \"'\", \"\\\\\")):", "    if sObjectValue.startswith(('\"', \"\\\\\")):")], rule="C03.literal"),
    Variant("C03", "case rule placed in phase 5", "fire",
            [("vsg/rules/token_case.py", "        self.phase = 6\n", "        self.phase = 5\n")], rule="C03.table"),
    Variant("C03", "twin: case fix through a local", "silent",
            [("vsg/rules/token_case.py", "            lTokens[0].set_value(dAction[\"value\"])\n            oViolation.set_tokens(lTokens)", "            oToken = lTokens[0]\n            oToken.set_value(dAction[\"value\"])\n            oViolation.set_tokens(lTokens)")]),
]
