# -*- coding: utf-8 -*-
"""
C11 - code tags suppress exactly the tagged rules on exactly the tagged lines.

  C11.gate      the only way a violation enters Rule.violations is Rule.add_violation, whose append
                is dominated by `not violation.has_code_tag(self.unique_id)`; no loaded rule
                appends/extends/assigns a non-empty `violations` directly; the post-filters of
                Rule.fix only shrink or permute.
  C11.stamp     token tag setters (set_code_tags / clear_code_tags / set_all_code_tags and direct
                stores to .code_tags) are used only by the parse-time stamper and by the helpers
                that make an inserted token inherit its neighbour's tags.
  C11.match     has_code_tag matches exactly (list membership or == ["all"]) and
                violation.has_code_tag swallows only IndexError / AttributeError, and asks with the
                rule's own full id.
  C11.machine   the stamper visits every token once, in order, and tags every branch
                (tag state machine entry points are called in each branch).
Does not decide: the tag state machine over all placements (string parsing at run time).
"""

import ast

from ..flow import Facts, callee_text
from ..model import expand_text, AnalysisError, norm, walk_function
from ..report import Result
from ..ruletable import UNKNOWN
from ..selftest import Variant

LEVEL = "other"
META = {
    "technique": "static analysis: who-may-write (closed world) for Rule.violations and token code_tags, dominance of the tag test over the append, exception-handler breadth lint, rule-table reachability of direct writers",
    "level_text": "Decides the ownership facts that make the tag filter inescapable for every rule and input: a single guarded gate into "
    "Rule.violations, tags written only at parse time and by inheritance helpers, exact matching with the rule's full id, no broad "
    "exception handler that could silently turn the filter off. The tag state machine itself (string parsing) is run-time behaviour and is not decided.",
    "level_note": "Trusted base: CPython ast, the analyser, the static rule table. rules/experiment.py writes violations directly but its only user (selected_assignment rule_999) is not exported and never loaded - re-checked on every run.",
}

TAG_SETTERS = ("set_code_tags", "clear_code_tags", "set_all_code_tags")


def _is_self_attr(n, attr):
    return isinstance(n, ast.Attribute) and n.attr == attr and isinstance(n.value, ast.Name) and n.value.id == "self"


def run(ctx):
    p = ctx.program
    cg = ctx.callgraph()
    rt = ctx.ruletable
    r = Result("C11")
    r.load_table("c11.json")
    r.rule("C11.gate", "Rule.add_violation (guarded by the tag test) is the only writer that adds to Rule.violations")
    r.rule("C11.stamp", "token tag setters used only by the parse-time stamper and the inheritance helpers")
    r.rule("C11.match", "exact tag matching; narrow exception handlers")
    r.rule("C11.machine", "stamper: every token, in order, every branch tags the token")
    r.explanation = (
        "Closed-world enumeration of every write to an attribute named `violations` on a rule object and of every write to token "
        "code tags across vsg/, attributed to loaded rules through the static rule table and class hierarchy; dominance of the tag "
        "test over the append in Rule.add_violation; handler breadth in violation.has_code_tag."
    )
    rule_cls = p.cls("vsg.rule:Rule")
    addv = p.function("vsg.rule:Rule.add_violation")
    loaded = set()
    for e in rt.entries:
        for c in e.ci.mro:
            loaded.add(c.key)

    # ---------------- the gate itself
    facts = Facts(addv.node)
    apps = [n for n in walk_function(addv.node) if isinstance(n, ast.Call) and norm(n.func) == "self.violations.append"]
    if len(apps) != 1:
        r.fail("C11.gate", addv.key + ":append", "add_violation appends %d times" % len(apps), addv.loc())
    else:
        a = apps[0]
        vparam = addv.params[1]
        conds = dict(facts.conds_at(a))
        want = "%s.has_code_tag(self.unique_id)" % vparam
        alt = "%s.has_code_tag(self.get_unique_id())" % vparam
        if conds.get(want) is False or conds.get("not " + want) is True or conds.get(alt) is False:
            r.ok("C11.gate", addv.key + ":guard", "append dominated by `not %s`" % want)
        else:
            tagtests = [k for k in conds if "has_code_tag" in k]
            if tagtests:
                r.fail("C11.gate", addv.key + ":guard", "the append is guarded by `%s` with polarity %s, not by `not %s`" % (tagtests[0], conds[tagtests[0]], want), addv.loc(a))
            else:
                r.fail("C11.gate", addv.key + ":guard", "violations are appended without consulting the code tags of their tokens", addv.loc(a))
        if norm(a.args[0]) != vparam:
            r.fail("C11.gate", addv.key + ":append-arg", "add_violation appends %s" % norm(a.args[0]), addv.loc(a))

    # ---------------- all writers of <x>.violations in classes below Rule (and helpers taking `self`)
    n_writers = 0
    for fi in p.functions.values():
        in_rule_class = fi.cls is not None and rule_cls in fi.cls.mro
        takes_rule = fi.cls is None and fi.params and fi.params[0] in ("self", "oRule")
        if not (in_rule_class or takes_rule):
            continue
        recv = "self" if (in_rule_class or fi.params[0] == "self") else fi.params[0]
        for n in walk_function(fi.node):
            w = None
            if isinstance(n, ast.Call) and isinstance(n.func, ast.Attribute) and n.func.attr in ("append", "extend", "insert") and norm(n.func.value) == recv + ".violations":
                w = ("grow", n)
            elif isinstance(n, ast.Assign) and any(norm(t) == recv + ".violations" for t in n.targets):
                w = ("assign", n)
            elif isinstance(n, ast.AugAssign) and norm(n.target) == recv + ".violations":
                w = ("grow", n)
            if w is None:
                continue
            n_writers += 1
            kind, node = w
            kk = "%s:%s" % (fi.key, norm(node))
            if fi.key == addv.key and kind == "grow":
                continue
            if kind == "assign":
                v = node.value
                if isinstance(v, ast.List) and not v.elts:
                    r.ok("C11.gate", kk, "emptied", nontrivial=False, sample=False)
                    continue
                if fi.key in ("vsg.rule:Rule._filter_out_fix_only_violations", "vsg.rule:Rule._sort_violations"):
                    r.ok("C11.gate", kk, "post-filter: subset/permutation of already-gated violations (shape checked by C20.filter)")
                    continue
            # is the writer reachable from a loaded rule?
            owner = fi.cls.key if fi.cls is not None else None
            is_loaded = owner in loaded if owner else _helper_used_by_loaded(p, cg, fi, loaded)
            if not is_loaded:
                r.note("dead direct writer of violations (not reachable from any loaded rule): %s" % kk)
                r.ok("C11.gate", kk, "direct writer exists but no loaded rule can reach it", nontrivial=True)
                continue
            r.fail("C11.gate", kk, "a loaded rule writes self.violations directly, bypassing the code-tag gate of add_violation", fi.loc(node))
    if n_writers < 4:
        raise AnalysisError("only %d writers of Rule.violations found: detection broken" % n_writers)

    _stamp(r, p, cg)
    _match(r, p)
    _machine(r, p)
    return r


def _helper_used_by_loaded(p, cg, fi, loaded):
    """Is module-level function fi reachable from a method of a loaded rule class?"""
    roots = [m for c in p.classes.values() if c.key in loaded for m in c.methods.values()]
    seen = cg.reachable(roots, skip_indirect=False)
    return fi.key in seen


def _stamp(r, p, cg):
    allowed_callers = {"vsg.vhdlFile.vhdlFile:set_code_tags"}
    inherit = {"vsg.rules.utils:update_code_tags"}
    n = 0
    for fi in p.functions.values():
        for node in walk_function(fi.node):
            site = None
            if isinstance(node, ast.Call) and isinstance(node.func, ast.Attribute) and node.func.attr in TAG_SETTERS:
                site = ("call " + node.func.attr, node)
            elif isinstance(node, ast.Assign):
                for t in node.targets:
                    if isinstance(t, ast.Attribute) and t.attr == "code_tags":
                        site = ("store code_tags", node)
            elif isinstance(node, ast.Call) and isinstance(node.func, ast.Attribute) and node.func.attr in ("append", "extend", "remove", "clear", "pop", "insert") and isinstance(node.func.value, ast.Attribute) and node.func.value.attr == "code_tags":
                site = ("mutate code_tags", node)
            if site is None:
                continue
            n += 1
            kk = "%s:%s" % (fi.key, norm(site[1]))
            mod = fi.module.name
            if mod == "vsg.parser":
                # token's own methods: stores to self.code_tags / copies in convert_to
                tgt_ok = all(
                    (isinstance(t.value, ast.Name) and t.value.id in ("self", "oReturn"))
                    for t in (site[1].targets if isinstance(site[1], ast.Assign) else [])
                    if isinstance(t, ast.Attribute)
                )
                if isinstance(site[1], ast.Assign) and tgt_ok:
                    r.ok("C11.stamp", kk, "token's own accessor/conversion", nontrivial=False, sample=False)
                    continue
            if mod == "vsg.vhdlFile.code_tags" and isinstance(site[1], (ast.Assign, ast.Call)):
                # the state machine's own list (self.code_tags of code_tags.New), not a token
                base = site[1].targets[0].value if isinstance(site[1], ast.Assign) else site[1].func.value.value
                if isinstance(base, ast.Name) and base.id == "self":
                    r.ok("C11.stamp", kk, "tag state machine's own state", nontrivial=False, sample=False)
                    continue
            if fi.key in allowed_callers:
                r.ok("C11.stamp", kk, "parse-time stamper")
                continue
            if fi.key in inherit:
                v = site[1].value if isinstance(site[1], ast.Assign) else None
                if v is not None and isinstance(v, ast.Attribute) and v.attr == "code_tags":
                    conds = Facts(fi.node).conds_at(site[1])
                    if conds:
                        r.fail("C11.stamp", kk + ":conditional", "the token that is inserted or moved takes its new neighbour's tags only when `%s`: a token moved off a tagged line keeps that line's tags (and a token moved onto one does not get them), so the tag no longer covers exactly the tagged lines" % conds[0][0][:60], fi.loc(site[1]))
                    else:
                        r.ok("C11.stamp", kk, "inserted token inherits the neighbour's tags, unconditionally")
                    continue
            r.fail("C11.stamp", kk, "code tags of a token are rewritten outside the parse-time stamper and the inheritance helpers (%s)" % site[0], fi.loc(site[1]))
    if n < 6:
        raise AnalysisError("only %d code-tag writer sites found" % n)
    # the stamper is called exactly from _processFile
    st = p.function("vsg.vhdlFile.vhdlFile:set_code_tags")
    callers = [k for k, ss in cg.sites.items() for s in ss if st in s.targets and s.kind == "resolved"]
    for k in callers:
        if k != "vsg.vhdlFile.vhdlFile:vhdlFile._processFile":
            r.fail("C11.stamp", k + ":restamp", "code tags are re-stamped outside parsing: tokens inserted by fixes would change the tagged region", p.functions[k].loc())
    if "vsg.vhdlFile.vhdlFile:vhdlFile._processFile" in callers:
        r.ok("C11.stamp", "stamped-once", "set_code_tags called from _processFile only")
    else:
        r.fail("C11.stamp", "stamped-once", "_processFile no longer stamps code tags", st.loc())


def _match(r, p):
    has = p.function("vsg.parser:item.has_code_tag")
    # the disjuncts under which has_code_tag answers True: `if T: return True` steps and a final `return A or B`
    rets_true = []
    shape_ok = True

    def disj(e):
        if isinstance(e, ast.BoolOp) and isinstance(e.op, ast.Or):
            for v in e.values:
                disj(v)
        elif isinstance(e, ast.Constant) and e.value is False:
            pass
        else:
            rets_true.append(expand_text(has, e))

    for st in has.node.body:
        if isinstance(st, ast.Expr) and isinstance(st.value, ast.Constant):
            continue
        if isinstance(st, ast.Assign) and len(st.targets) == 1 and isinstance(st.targets[0], ast.Name):
            continue  # a hoisted sub-expression; expand_text substitutes it
        if isinstance(st, ast.If) and not st.orelse and len(st.body) == 1 and isinstance(st.body[0], ast.Return) and isinstance(st.body[0].value, ast.Constant) and st.body[0].value.value is True:
            disj(st.test)
        elif isinstance(st, ast.Return) and st.value is not None:
            disj(st.value)
        else:
            shape_ok = False
    if not shape_ok:
        rets_true.append("<statement that is neither `if T: return True` nor `return <tests>`>")
    param = has.params[1]
    good = {"self.code_tags == ['all']", "%s in self.code_tags" % param}
    if set(rets_true) == good:
        r.ok("C11.match", has.key, "exact: == ['all'] or membership of the full rule id")
    else:
        extra = set(rets_true) - good
        missing = good - set(rets_true)
        r.fail("C11.match", has.key, "tag matching changed: extra tests %s, missing %s" % (sorted(extra), sorted(missing)), has.loc())
    vh = p.function("vsg.violation:New.has_code_tag")
    for n in walk_function(vh.node):
        if isinstance(n, ast.Try):
            for h in n.handlers:
                ht = norm(h.type) if h.type is not None else "<bare>"
                kk = "%s:handler:%s" % (vh.key, ht)
                names = [norm(e) for e in h.type.elts] if isinstance(h.type, ast.Tuple) else [ht]
                if set(names) <= {"IndexError", "AttributeError"}:
                    # must answer False (no tag), never True: every return reachable from the handler - inside it, or the
                    # statements after the try when the handler falls through - returns the constant False
                    rv = [x for x in ast.walk(h) if isinstance(x, ast.Return)]
                    falls = not (h.body and isinstance(h.body[-1], (ast.Return, ast.Raise)))
                    after = []
                    if falls:
                        par = getattr(n, "_parent", None)
                        seq = getattr(par, "body", [])
                        if n in seq:
                            after = [x for st in seq[seq.index(n) + 1 :] for x in ast.walk(st) if isinstance(x, ast.Return)]
                    allr = rv + after
                    if allr and all(isinstance(x.value, ast.Constant) and x.value.value is False for x in allr):
                        r.ok("C11.match", kk, "narrow handler, answers 'not tagged'")
                    else:
                        r.fail("C11.match", kk, "handler does not answer False", vh.loc(h))
                else:
                    r.fail("C11.match", kk, "violation.has_code_tag swallows %s: an unrelated error would silently switch the tag filter off or on" % ht, vh.loc(h))
    loops = [n for n in walk_function(vh.node) if isinstance(n, ast.For)]
    # the same scan written as any(<element test> for tok in <all tokens>)
    anys = [n for n in walk_function(vh.node) if isinstance(n, ast.Call) and norm(n.func) == "any" and len(n.args) == 1 and isinstance(n.args[0], (ast.GeneratorExp, ast.ListComp)) and len(n.args[0].generators) == 1 and not n.args[0].generators[0].ifs]
    if (len(loops) == 1 and not anys and norm(loops[0].iter) in ("self.oTokens.get_tokens()", "self.get_tokens()")) or (not loops and len(anys) == 1 and norm(anys[0].args[0].generators[0].iter) in ("self.oTokens.get_tokens()", "self.get_tokens()")):
        r.ok("C11.match", vh.key + ":all-tokens", "any token of the violation's region carrying the tag suppresses it")
    else:
        r.fail("C11.match", vh.key + ":all-tokens", "violation.has_code_tag no longer inspects every token of the region", vh.loc())


def _machine(r, p):
    st = p.function("vsg.vhdlFile.vhdlFile:set_code_tags")
    loops = [n for n in walk_function(st.node) if isinstance(n, ast.For)]
    if len(loops) != 1 or norm(loops[0].iter) != st.params[0]:
        r.fail("C11.machine", st.key + ":domain", "the stamper does not visit every token of the list in order", st.loc())
        return
    loop = loops[0]
    tok = loop.target.id
    # every branch of the if-chain must both stamp the token and update the machine
    branches = []

    def collect(stmts):
        for s in stmts:
            if isinstance(s, ast.If):
                branches.append(s.body)
                if s.orelse and not (len(s.orelse) == 1 and isinstance(s.orelse[0], ast.If)):
                    branches.append(s.orelse)
                else:
                    collect(s.orelse)
                if not s.orelse:
                    branches.append([])  # implicit empty else
            else:
                pass

    collect(loop.body)
    if not branches:
        branches = [loop.body]
    ok = True
    for b in branches:
        calls = [callee_text(c) for s in b for c in ast.walk(s) if isinstance(c, ast.Call)]
        if "%s.set_code_tags" % tok not in calls:
            ok = False
            r.fail("C11.machine", st.key + ":branch-without-stamp", "a branch of the stamper leaves the token untagged", st.loc(b[0] if b else loop))
        if not any(c.endswith(".update") for c in calls):
            ok = False
            r.fail("C11.machine", st.key + ":branch-without-update", "a branch of the stamper does not advance the tag state machine", st.loc(b[0] if b else loop))
    # vsg_on: stamp before update (the on-comment itself is still tagged); off/next-line: update before stamp.
    # Decided per branch from the conditions that hold there (either polarity / nesting), not from the chain's layout.
    fm = Facts(st.node)

    def positive(node):
        out = set()
        for t, pol in fm.conds_at(node):
            t = t.strip()
            while t.startswith("not "):
                t = t[4:].strip()
                if t.startswith("(") and t.endswith(")"):
                    t = t[1:-1].strip()
                pol = not pol
            if pol:
                out.add(t)
        return frozenset(out)

    stamps = [c for c in ast.walk(loop) if isinstance(c, ast.Call) and callee_text(c) == "%s.set_code_tags" % tok]
    updates = [c for c in ast.walk(loop) if isinstance(c, ast.Call) and callee_text(c).endswith(".update")]
    for sc in stamps:
        pos = positive(sc)
        same = [u for u in updates if positive(u) == pos]
        if not same:
            continue
        stamp_first = sc.lineno < same[0].lineno
        if any("vsg_on" in t for t in pos) and not stamp_first:
            ok = False
            r.fail("C11.machine", st.key + ":on-order", "the vsg_on comment must be stamped before the tag is removed", st.loc(sc))
        if any(("vsg_off" in t or "next_line" in t) for t in pos) and stamp_first:
            ok = False
            r.fail("C11.machine", st.key + ":off-order", "the vsg_off / disable_next_line comment must update the state before it is stamped", st.loc(sc))
    # the machine's tag lists are sets kept in lists: `remove` deletes ONE occurrence (list.remove), so every writer
    # that grows them must keep them duplicate-free, otherwise a rule switched off twice stays off after vsg_on
    for fi in p.functions.values():
        if fi.module.name != "vsg.vhdlFile.code_tags":
            continue
        facts = None
        for n in walk_function(fi.node):
            if not (isinstance(n, ast.Call) and isinstance(n.func, ast.Attribute) and n.func.attr in ("append", "extend", "insert")):
                continue
            recv = n.func.value
            if not (isinstance(recv, ast.Attribute) and isinstance(recv.value, ast.Name) and recv.value.id == "self" and recv.attr in ("code_tags", "next_line_code_tags")):
                continue
            kk = "%s:%s" % (fi.key, norm(n))
            if n.func.attr != "append" or len(n.args) != 1:
                ok = False
                r.fail("C11.machine", kk, "the active-tag list `%s` grows by %s without a membership test: a tag can be stored twice, but vsg_on removes only one occurrence, so the rule stays suppressed after its vsg_on" % (recv.attr, n.func.attr), fi.loc(n))
                continue
            if facts is None:
                facts = Facts(fi.node)
            conds = dict(facts.conds_at(n))
            want = "%s not in %s" % (norm(n.args[0]), norm(recv))
            alt = "%s in %s" % (norm(n.args[0]), norm(recv))
            if conds.get(want) is True or conds.get(alt) is False:
                r.ok("C11.machine", kk, "append guarded by `%s`" % want)
            else:
                ok = False
                r.fail("C11.machine", kk, "the active-tag list `%s` is appended to without `%s`: duplicates make vsg_on (single list.remove) leave the rule suppressed" % (recv.attr, want), fi.loc(n))
    if ok:
        r.ok("C11.machine", st.key, "every token stamped and fed to the state machine in each of %d branches" % len(branches))


_R = "vsg/rule.py"
VARIANTS = [
    Variant("C11", "an inserted or moved token keeps tags it already has", "fire",
            [("vsg/rules/utils.py", "def update_code_tags(oToken1, oToken2):\n    oToken2.code_tags = oToken1.code_tags", "def update_code_tags(oToken1, oToken2):\n    if not oToken2.code_tags:\n        oToken2.code_tags = oToken1.code_tags")],
            rule="C11.stamp", key="conditional"),
    Variant("C11", "tag test dropped from add_violation", "fire",
            [(_R, "        if not violation.has_code_tag(self.unique_id):\n            if self.user_error_message", "        if True:\n            if self.user_error_message")], rule="C11.gate", key="guard"),
    Variant("C11", "tag asked with rule name only", "fire",
            [(_R, "if not violation.has_code_tag(self.unique_id):", "if not violation.has_code_tag(self.name):")], rule="C11.gate", key="guard"),
    Variant("C11", "rule appends violation directly", "fire",
            [("vsg/rules/token_case.py", "                self.add_violation(oViolation)", "                self.violations.append(oViolation)")], rule="C11.gate", key="token_case"),
    Variant("C11", "broad except in violation.has_code_tag", "fire",
            [("vsg/violation.py", "        except IndexError:\n            return False\n        except AttributeError:\n            return False", "        except Exception:\n            return False")], rule="C11.match"),
    Variant("C11", "prefix matching of tags", "fire",
            [("vsg/parser.py", "        if sCodeTag in self.code_tags:\n            return True", "        if any(sCodeTag.startswith(s) for s in self.code_tags):\n            return True")], rule="C11.match"),
    Variant("C11", "fix clears tags of rebuilt tokens", "fire",
            [("vsg/rules/utils.py", "def change_all_whitespace_to_single_character(lTokens):\n    for oToken in lTokens:\n        if isinstance(oToken, parser.whitespace):\n            oToken.set_value(\" \")",
              "def change_all_whitespace_to_single_character(lTokens):\n    for oToken in lTokens:\n        if isinstance(oToken, parser.whitespace):\n            oToken.set_value(\" \")\n            oToken.clear_code_tags()")], rule="C11.stamp"),
    Variant("C11", "re-stamp tags after phase 1", "fire",
            [("vsg/vhdlFile/vhdlFile.py", "    def update_token_map(self):\n        self.oTokenMap = process_tokens(self.lAllObjects)", "    def update_token_map(self):\n        set_code_tags(self.lAllObjects)\n        self.oTokenMap = process_tokens(self.lAllObjects)")], rule="C11.stamp", key="restamp"),
    Variant("C11", "vsg_on branch forgets to stamp", "fire",
            [("vsg/vhdlFile/vhdlFile.py", "        if code_tags.token_has_vsg_on_code_tag(oToken):\n            oToken.set_code_tags(oCodeTags.get_tags())\n            oCodeTags.update(oToken)", "        if code_tags.token_has_vsg_on_code_tag(oToken):\n            oCodeTags.update(oToken)")], rule="C11.machine"),
    Variant("C11", "tags added without the duplicate test", "fire",
            [("vsg/vhdlFile/code_tags.py", "        if sCodeTag not in self.code_tags:\n            self.code_tags.append(sCodeTag)", "        self.code_tags.append(sCodeTag)")], rule="C11.machine"),
    Variant("C11", "twin: export experiment-free helper rename", "silent",
            [(_R, "            self.violations.append(violation)", "            self.violations.append(violation)  # gated above")]),
]
