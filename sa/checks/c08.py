# -*- coding: utf-8 -*-
"""
C08 - what VSG writes is what it would read (table-agreement and ordering clauses).

  C08.literal   every keyword token a rule creates carries a text the classifier would give that very
                class when reading it back (class -> literal table read off the classifier); a class the
                classifier never assigns cannot be read back as itself.
  C08.schema    token attribute schema: every attribute stored on a token anywhere in vsg/ is declared by
                a token constructor, and every non-declared name that is written is also read under the
                same name (writer/reader field agreement; a misspelt field silently decouples the model
                from what a re-parse would compute).
  C08.order     derived state is refreshed where the model changes shape: in rule_list.fix the indent
                levels are recomputed in the phase loop before the phase-4 rules run (and when phase 1 is
                skipped), i.e. after every structural and vertical-spacing fix; after phase 1 the
                normalisers run in the order fix_blank_lines, fix_trailing_whitespace, update_token_map;
                the report after --fix comes from a fresh check of the same model (shared with C14).
  C08.emit      write-back emits exactly the model's lines: "\\n".join(get_lines()[1:]) + "\\n".
Does not decide: that re-parsing the emitted text yields the same roles and indents (behaviour of the
classifier on the new text).
"""

import ast

from ..classifier import ClassifierTable
from ..flow import Facts, callee_text
from ..model import AnalysisError, norm, walk_function
from ..report import Result
from ..ruletable import Instance, strip
from ..selftest import Variant

LEVEL = "other"
META = {
    "technique": "static analysis: writer/reader table agreement (classifier literal table vs tokens built by rules; token attribute schema: stores vs declarations vs reads), must-precede ordering of derived-state refreshes in rule_list.fix by structured-flow dominance, shape of the emitter; non-zero must-guard on blank products whose length is an option or action value",
    "level_text": "Decides necessary conditions for model == re-parse that hold for all inputs: tokens a fix creates use exactly the text their class is read from, "
    "token attributes are written under the names they are read by, derived state (indent levels, blank-line tokens, index) is refreshed at the points where "
    "earlier phases changed the shape of the model, and the emitter prints the model's lines verbatim.",
    "level_note": "Trusted base: CPython ast, classifier literal table, static rule table. Not decided: role/indent equality after re-parsing (needs the grammar).",
}

TOKEN_RECV_HINT = ("oToken", "oObject", "oNextToken", "oPrevToken", "oComment", "oWhitespace", "oFirstToken", "oLastToken", "oNewToken", "oMyToken")


def _is_token_recv(e, fresh_tokens):
    if isinstance(e, ast.Name):
        if "Class" in e.id or "Type" in e.id or "Module" in e.id:
            return False  # a token class / namespace, not a token
        return (e.id.startswith(TOKEN_RECV_HINT) and not e.id.startswith("oTokens") and e.id != "oTokenMap") or e.id in fresh_tokens
    if isinstance(e, ast.Subscript) and not isinstance(e.slice, ast.Slice):
        t = norm(e.value)
        return t.startswith(("lTokens", "lAllTokens", "lAllObjects", "lObjects", "lMyTokens", "lNewTokens")) or t.endswith((".lAllObjects", ".get_tokens()"))
    return False


def run(ctx):
    p = ctx.program
    rt = ctx.ruletable
    r = Result("C08")
    r.load_table("c08.json")
    r.rule("C08.literal", "tokens created by rules carry the text the classifier reads for their class")
    r.rule("C08.schema", "token attributes: stored names are declared or read under the same name")
    r.rule("C08.order", "indent refresh dominates phase 4; normaliser order after phase 1")
    r.rule("C08.emit", "write-back prints the model's lines verbatim")
    r.rule("C08.indentcase", "the indent computation reads token text only case-folded: indents are computed before the case rules run and are not recomputed after them, so a decision on the raw spelling differs between the model and a parse of the written file")
    r.rule("C08.zerowidth", "a blank string whose length is a configured option or an action value is written into / created as a whitespace token only where that number is shown not to be zero (an empty whitespace token is in the model but in no parse of the written text)")
    r.explanation = (
        "The classifier's class->literal table is compared with every token instance a rule constructor builds and every literal-argument "
        "construction in rule code; all attribute stores/reads on token objects are collected into a schema; ordering facts in rule_list.fix "
        "are dominance facts over its structured control flow."
    )
    item = p.cls("vsg.parser:item")
    ct = ClassifierTable(p)
    _literal(r, p, rt, ct, item, ctx.callgraph())
    _schema(r, p, item)
    _order(r, p)
    _emit(r, p)
    _zerowidth(r, p)
    _indentcase(r, p)
    return r


def _literal(r, p, rt, ct, item, cg):
    n = 0
    # instances built by rule constructors
    def walk(v):
        v = strip(v)
        if isinstance(v, Instance):
            yield v
        elif isinstance(v, (list, tuple)):
            for x in v:
                yield from walk(x)

    for e in rt.live():
        for a, v in e.attrs.items():
            for ins in walk(v):
                if item not in ins.ci.mro:
                    continue
                text = ins.args[0] if ins.args and isinstance(ins.args[0], str) else None
                if text is None:
                    continue
                n += 1
                kk = "%s:%s=%s(%r)" % (e.unique_id, a, ins.ci.key, text)
                _check_literal(r, kk, ins.ci, text, ct, e.ci.module.path)
    # literal-argument constructions in rule code
    fix_roots = [m for ci in p.classes.values() for name, m in ci.methods.items() if name == "_fix_violation"]
    reach = cg.reachable(fix_roots)
    for fi in p.functions.values():
        if fi.key not in reach:
            continue
        if not fi.module.name.startswith(("vsg.rules", "vsg.rule", "vsg.block_rule")):
            continue
        for c in walk_function(fi.node):
            if isinstance(c, ast.Call) and c.args and isinstance(c.args[0], ast.Constant) and isinstance(c.args[0].value, str) and isinstance(c.func, (ast.Name, ast.Attribute)):
                ent = p.resolve_expr(fi.module, c.func)
                if ent and ent[0] == "class" and item in ent[1].mro:
                    n += 1
                    kk = "%s:%s" % (fi.key, norm(c))
                    _check_literal(r, kk, ent[1], c.args[0].value, ct, fi.loc(c))
    r.extra["literal_constructions_checked"] = n
    if n < 15:
        raise AnalysisError("only %d literal token constructions found" % n)


def _check_literal(r, kk, ci, text, ct, loc):
    key = ci.key
    if key in ("vsg.parser:whitespace", "vsg.parser:comment", "vsg.parser:carriage_return", "vsg.parser:blank_line"):
        if key == "vsg.parser:whitespace" and text.strip(" \t") != "":
            r.fail("C08.literal", kk, "a whitespace token is created with non-whitespace text %r: re-reading the file classifies that text as code" % text, loc)
        else:
            r.ok("C08.literal", kk, "layout text", nontrivial=False, sample=False)
        return
    cv = ct.const_value.get(key)
    if cv is not None:
        if cv.lower() == text.lower():
            r.ok("C08.literal", kk, "constant class", sample=False)
        else:
            r.fail("C08.literal", kk, "class %s always stores %r; the literal %r given here is ignored - the model's text differs from what was intended" % (key, cv, text), loc)
        return
    lits = ct.literal_of.get(key)
    if lits:
        if text.lower() in lits:
            r.ok("C08.literal", kk, "classifier reads %r as %s" % (text.lower(), key))
        else:
            r.fail("C08.literal", kk, "the token %s is created with text %r, but when reading a file the classifier gives that class only to %s: the written text re-parses to a different role (or not at all)" % (key, text, sorted(lits)), loc)
        return
    if key in ct.open_classes:
        r.ok("C08.literal", kk, "open class (identifier-like)", nontrivial=False, sample=False)
        return
    # post-pass classes (vhdlFile.post_token_assignments) or never assigned
    r.unknown("C08.literal", kk, "class %s is assigned by a post pass or not at all; literal %r not checked against a table" % (key, text))


def _schema(r, p, item):
    declared = set()
    for ci in p.classes.values():
        if item in (ci.mro or []):
            init = ci.methods.get("__init__")
            if init is not None:
                for n in walk_function(init.node):
                    if isinstance(n, ast.Assign):
                        for t in n.targets:
                            for x in (t.elts if isinstance(t, ast.Tuple) else [t]):
                                if isinstance(x, ast.Attribute) and isinstance(x.value, ast.Name) and x.value.id == "self":
                                    declared.add(x.attr)
            for a in ci.class_attrs:
                declared.add(a)
    if len(declared) < 8:
        raise AnalysisError("token attribute declarations not found (%s)" % sorted(declared))
    stores = {}
    reads = {}
    for fi in p.functions.values():
        if fi.module.name == "vsg.parser" or fi.module.name.startswith("vsg.token."):
            continue
        fresh = set()
        for n in walk_function(fi.node):
            if isinstance(n, ast.Assign) and len(n.targets) == 1 and isinstance(n.targets[0], ast.Name) and isinstance(n.value, ast.Call) and isinstance(n.value.func, (ast.Name, ast.Attribute)):
                ent = p.resolve_expr(fi.module, n.value.func)
                if ent and ent[0] == "class" and item in ent[1].mro:
                    fresh.add(n.targets[0].id)
        for n in walk_function(fi.node):
            if isinstance(n, ast.Attribute) and not n.attr.startswith("__") and _is_token_recv(n.value, fresh):
                par = getattr(n, "_parent", None)
                if isinstance(n.ctx, ast.Store):
                    stores.setdefault(n.attr, []).append((fi, n))
                elif isinstance(n.ctx, ast.Load) and not (isinstance(par, ast.Call) and par.func is n):
                    reads.setdefault(n.attr, []).append((fi, n))
    # getattr/hasattr string reads
    for fi in p.functions.values():
        for n in walk_function(fi.node):
            if isinstance(n, ast.Call) and isinstance(n.func, ast.Name) and n.func.id in ("getattr", "hasattr") and len(n.args) >= 2 and isinstance(n.args[1], ast.Constant):
                reads.setdefault(n.args[1].value, []).append((fi, n))
    r.extra["token_attributes_declared"] = sorted(declared)
    r.extra["token_attributes_stored_outside_parser"] = {k: len(v) for k, v in sorted(stores.items())}
    for attr, sites in sorted(stores.items()):
        fi, n = sites[0]
        kk = "store:%s" % attr
        if attr in declared:
            r.ok("C08.schema", kk, "declared by a token constructor; %d store site(s), %d read site(s) outside the parser" % (len(sites), len(reads.get(attr, []))))
        elif attr in reads:
            r.ok("C08.schema", kk, "undeclared but read under the same name (%d read site(s))" % len(reads[attr]))
        else:
            near = [d for d in declared if d.startswith(attr[:5]) or attr.startswith(d[:5])]
            r.fail(
                "C08.schema",
                kk,
                "token attribute `%s` is stored (%d site(s), e.g. %s) but no token constructor declares it and nothing reads it%s: the value written never reaches the code that would need it"
                % (attr, len(sites), fi.key, ("; declared/readable similarly named field(s): %s" % near) if near else ""),
                fi.loc(n),
            )
    for attr, sites in sorted(reads.items()):
        if attr in declared or attr in stores:
            continue
        fi, n = sites[0]
        # reads of methods / properties are not attributes of the schema
        if any(attr in ci.methods for ci in p.classes.values() if item in (ci.mro or [])):
            continue
        if fi.module.name.startswith(("vsg.vhdlFile", "vsg.rules", "vsg.rule", "vsg.block_rule", "vsg.token_map")):
            r.fail("C08.schema", "read:%s" % attr, "token attribute `%s` is read (%s) but never declared or stored anywhere" % (attr, fi.key), fi.loc(n))


def _order(r, p):
    fix = p.function("vsg.rule_list:rule_list.fix")
    fn = fix.node
    facts = Facts(fn)
    phase_loops = [n for n in walk_function(fn) if isinstance(n, ast.For) and isinstance(n.target, ast.Name) and n.target.id.lower().startswith("phase")]
    if len(phase_loops) != 1:
        raise AnalysisError("rule_list.fix: phase loop not found")
    ph = phase_loops[0]
    pv = ph.target.id
    sub = [s for s in ph.body if isinstance(s, ast.For)]
    if len(sub) != 1:
        raise AnalysisError("rule_list.fix: sub-phase loop not found at phase-loop level")
    sb = sub[0]
    K = fix.key
    # indent refresh before the rules of phase 4
    refresh = [n for n in walk_function(fn) if isinstance(n, ast.Call) and callee_text(n).endswith(".set_token_indent")]
    before4 = []
    for c in refresh:
        stmt = c
        while getattr(stmt, "_parent", None) is not ph and getattr(stmt, "_parent", None) is not None:
            stmt = stmt._parent
        if getattr(stmt, "_parent", None) is ph and ph.body.index(stmt) < ph.body.index(sb):
            conds = dict(facts.conds_at(c))
            # unconditional, or exactly under phase == 4 (and not in the skip branch)
            others = {k: v for k, v in conds.items() if not k.startswith(pv + " in ") and k != "lSkipPhase is None"}
            if not others or (len(others) == 1 and others.get("%s == 4" % pv) is True):
                before4.append(c)
    if before4:
        r.ok("C08.order", K + ":indent-before-phase-4", "set_token_indent() runs in the phase loop before the phase-4 rules, i.e. after every structural and vertical-spacing fix")
    else:
        r.fail(
            "C08.order",
            K + ":indent-before-phase-4",
            "the indent levels are not recomputed between the vertical-spacing fixes (phase 3) and the indentation rules (phase 4): phase 4 and the final report use stale levels that a re-parse of the written file would not compute",
            fix.loc(ph),
        )
    # skip-phase-1 branch refreshes too (fix_phase starting later)
    skip = ph.body[0]
    if isinstance(skip, ast.If) and any(isinstance(x, ast.Call) and callee_text(x).endswith(".set_token_indent") for x in ast.walk(skip)):
        r.ok("C08.order", K + ":indent-when-phase-1-skipped", "indent levels are computed even when phase 1 is skipped")
    else:
        r.fail("C08.order", K + ":indent-when-phase-1-skipped", "skipping phase 1 leaves the indent levels uncomputed", fix.loc(skip))
    # normalisers after phase 1 in order
    order = ["fix_blank_lines", "fix_trailing_whitespace", "update_token_map"]
    calls = [(callee_text(n).split(".")[-1], n) for n in walk_function(fn) if isinstance(n, ast.Call) and callee_text(n).split(".")[-1] in order]
    names = [c[0] for c in sorted(calls, key=lambda c: c[1].lineno)]
    if names == order:
        allc = all(dict(facts.conds_at(n)).get("%s == 1" % pv) is True for _, n in calls)
        after = all(ph.body.index(_top(n, ph)) > ph.body.index(sb) for _, n in calls)
        if allc and after:
            r.ok("C08.order", K + ":normalisers", "after the phase-1 rules: fix_blank_lines -> fix_trailing_whitespace -> update_token_map")
        else:
            r.fail("C08.order", K + ":normalisers", "the phase-1 normalisers do not run after the phase-1 rules under `%s == 1`" % pv, fix.loc(calls[0][1]))
    else:
        r.fail("C08.order", K + ":normalisers", "phase-1 normalisers run as %s (expected %s): blank-line tokens / trailing whitespace / index would not match a re-parse" % (names, order), fix.loc())
    # the two whole-file normalisers reproduce what the reader would build (a whitespace-only line is one blank_line token,
    # no whitespace token before a carriage return).  The reader knows nothing about code tags, rule ids or configuration, so
    # to agree with a re-parse for every input they must decide by token class and neighbour class alone.
    allowed_calls = {"isinstance", "enumerate", "range", "len"}
    for name in ("fix_blank_lines", "fix_trailing_whitespace"):
        nf = p.function("vsg.vhdlFile.utils:" + name)
        bad = []
        for n in walk_function(nf.node):
            if isinstance(n, ast.Call):
                ct = callee_text(n)
                if ct in allowed_calls:
                    continue
                if isinstance(n.func, ast.Attribute) and n.func.attr in ("append", "pop", "extend") and isinstance(n.func.value, ast.Name) and n.func.value.id not in nf.params:
                    continue
                ent = p.resolve_expr(nf.module, n.func) if isinstance(n.func, (ast.Name, ast.Attribute)) else None
                if ent and ent[0] == "class" and ent[1].key in ("vsg.parser:blank_line", "vsg.parser:carriage_return", "vsg.parser:whitespace"):
                    continue
                bad.append(norm(n)[:60])
            elif isinstance(n, ast.Attribute) and isinstance(n.ctx, ast.Load) and isinstance(n.value, ast.Subscript):
                bad.append(norm(n)[:60])  # reads a field of a token
        kk = "%s:class-only" % nf.key
        if bad:
            r.fail("C08.order", kk, "%s consults `%s`: the normaliser no longer decides by token class alone, so for some inputs the model after phase 1 differs from what a parse of the written text builds (the reader has no such information)" % (name, bad[0]), nf.loc())
        else:
            r.ok("C08.order", kk, "decides by token class and neighbour class only")
    # canonical whitespace: the reader never produces two adjacent whitespace tokens, and rules measure the space between
    # two code tokens as the length of the one whitespace token between them.  A fix that filters non-whitespace elements
    # (comments, carriage returns) out of a list must therefore collapse consecutive whitespace *after* the last such
    # filter - collapsing first and filtering afterwards leaves `ws, ws` where the removed element stood.
    from .c02 import Shapes as _Shapes

    sh = _Shapes(p)
    interior = set()
    for kind in ("comment", "cr"):
        for name, (dfi, dnode, dtest) in sh.droppers[kind].items():
            if isinstance(dnode, ast.Continue) and any(isinstance(x, ast.Call) and isinstance(x.func, ast.Attribute) and x.func.attr == "append" for x in walk_function(dfi.node)):
                interior.add(name)
    canon = "remove_consecutive_whitespace_tokens"
    if canon not in {fi.name for fi in p.functions.values() if fi.module.name == "vsg.vhdlFile.utils"}:
        raise AnalysisError("whitespace canonicaliser %s vanished" % canon)
    if len(interior) < 2:
        raise AnalysisError("interior droppers not recognised: %s" % sorted(interior))
    n_can = 0
    for fi in sorted(p.functions.values(), key=lambda f: f.key):
        if not fi.module.name.startswith("vsg.rules"):
            continue
        calls = []
        for n in walk_function(fi.node):
            if isinstance(n, ast.Assign) and len(n.targets) == 1 and isinstance(n.targets[0], ast.Name) and isinstance(n.value, ast.Call):
                cn = norm(n.value.func).split(".")[-1]
                if (cn == canon or cn in interior) and n.value.args and isinstance(n.value.args[0], ast.Name):
                    calls.append((n.lineno, cn, n.targets[0].id, n.value.args[0].id, n))
        calls.sort()
        for i, (ln, cn, tgt, arg, node) in enumerate(calls):
            if cn != canon:
                continue
            n_can += 1
            cur = tgt
            for ln2, cn2, tgt2, arg2, node2 in calls[i + 1 :]:
                if arg2 != cur:
                    continue
                if cn2 == canon:
                    break
                kk = "%s:%s-after-%s" % (fi.key, cn2, canon)
                r.fail("C08.order", kk, "%s applies %s to the list after consecutive whitespace was collapsed: where the removed element stood between two whitespace tokens the model keeps `whitespace, whitespace`, which a parse of the written text reads as one token - rules that measure the gap then see a different length than a fresh run" % (fi.key, cn2), fi.loc(node2))
                cur = tgt2
    if n_can < 6:
        raise AnalysisError("only %d uses of the whitespace canonicaliser found in rules" % n_can)
    r.ok("C08.order", "whitespace-canonical", "%d uses of %s: none is followed by a filter that removes interior non-whitespace elements (%s)" % (n_can, canon, ", ".join(sorted(interior))))
    # after --fix the report comes from a fresh check of the same model
    ar = p.function("vsg.apply_rules:apply_rules")
    af = Facts(ar.node)
    rep = [n for n in walk_function(ar.node) if isinstance(n, ast.Call) and callee_text(n) == "oRules.report_violations"]
    if rep and all(("call", "oRules.clear_violations") in af.facts_at(n) and ("call", "oRules.check_rules") in af.facts_at(n) for n in rep):
        r.ok("C08.order", ar.key + ":fresh-check", "the report after --fix is a fresh check_rules() of the fixed model")
    else:
        r.fail("C08.order", ar.key + ":fresh-check", "the report is not produced by a fresh check after fixing", ar.loc())


def _top(n, loop):
    s = n
    while getattr(s, "_parent", None) is not loop:
        s = s._parent
    return s


def _blank_multiplier(e):
    """E of `" " * E` / `E * " "` (nested products multiplied out), else None"""
    if isinstance(e, ast.BinOp) and isinstance(e.op, ast.Mult):
        for a, b in ((e.left, e.right), (e.right, e.left)):
            if isinstance(a, ast.Constant) and isinstance(a.value, str) and a.value != "" and a.value.strip(" \t") == "":
                return b
            m = _blank_multiplier(a)
            if m is not None:
                return ast.BinOp(left=m, op=ast.Mult(), right=b)
    return None


def _indentcase(r, p):
    n_reads = 0
    for fi in sorted(p.functions.values(), key=lambda f: f.key):
        if not fi.module.name.startswith("vsg.vhdlFile.indent"):
            continue
        for n in walk_function(fi.node):
            if isinstance(n, ast.Call) and isinstance(n.func, ast.Attribute) and n.func.attr in ("get_value", "get_lower_value") and not n.args:
                n_reads += 1
                kk = "%s:%s" % (fi.key, norm(n))
                par = getattr(n, "_parent", None)
                folded = n.func.attr == "get_lower_value" or (isinstance(par, ast.Attribute) and par.attr in ("lower", "upper", "casefold") and isinstance(getattr(par, "_parent", None), ast.Call))
                if folded:
                    r.ok("C08.indentcase", kk, "case-folded read")
                else:
                    r.fail("C08.indentcase", kk, "the indent computation reads the raw spelling `%s`: the indent then depends on letter case, which the case rules change after the last indent refresh - the model's indent and the indent a parse of the written file computes differ" % norm(n), fi.loc(n))
    r.extra["indent_text_reads"] = n_reads
    if n_reads < 2:
        raise AnalysisError("only %d token-text reads found in the indent computation" % n_reads)


def _zerowidth(r, p):
    from ..model import expand_text

    conf = set()
    for m in p.modules.values():
        if m.name.startswith("vsg.rule"):
            for n in ast.walk(m.tree):
                if isinstance(n, ast.Call) and norm(n.func) == "self.configuration.append" and n.args and isinstance(n.args[0], ast.Constant):
                    conf.add(n.args[0].value)
    n_sites = n_bare = 0
    for fi in sorted(p.functions.values(), key=lambda f: f.key):
        if not fi.module.name.startswith("vsg.rules"):
            continue
        facts = None
        for c in walk_function(fi.node):
            if not isinstance(c, ast.Call):
                continue
            fn = norm(c.func).split(".")[-1]
            cand = []
            if fn in ("set_value", "whitespace") and len(c.args) == 1:
                cand.append(c.args[0])
            elif fn == "insert_whitespace":
                for kw in c.keywords:
                    if kw.arg == "num":
                        cand.append(ast.BinOp(left=ast.Constant(value=" "), op=ast.Mult(), right=kw.value))
                if len(c.args) >= 3:
                    cand.append(ast.BinOp(left=ast.Constant(value=" "), op=ast.Mult(), right=c.args[2]))
            for a in cand:
                try:
                    ex = ast.parse(expand_text(fi, a), mode="eval").body
                except SyntaxError:
                    continue
                mexp = _blank_multiplier(ex)
                if mexp is None:
                    continue
                n_sites += 1
                t = norm(mexp)
                bare_action = isinstance(mexp, ast.Subscript) and ("dAction" in norm(mexp.value) or "get_action" in norm(mexp.value))
                bare_conf = isinstance(mexp, ast.Attribute) and norm(mexp.value) == "self" and mexp.attr in conf
                if not (bare_action or bare_conf):
                    continue  # computed lengths: value-level, not decided here
                n_bare += 1
                kk = "%s:blank-times:%s" % (fi.key, t)
                if facts is None:
                    facts = Facts(fi.node)
                guarded = False
                for g, pol in facts.conds_at(c):
                    try:
                        gt = expand_text(fi, ast.parse(g, mode="eval").body)
                    except SyntaxError:
                        gt = g
                    if (gt in ("%s == 0" % t, "0 == %s" % t, "not %s" % t) and pol is False) or (gt in ("%s > 0" % t, "%s != 0" % t, "%s >= 1" % t, t) and pol is True):
                        guarded = True
                if guarded:
                    r.ok("C08.zerowidth", kk, "the call is dominated by a test that the number is not zero")
                elif r.tabled("C08.zerowidth", kk):
                    r.ok("C08.zerowidth", kk, "tabled: " + r.tabled("C08.zerowidth", kk).get("reason", "")[:100], sample=False)
                else:
                    r.fail("C08.zerowidth", kk, "`%s` makes a whitespace token of `%s` blanks, a number taken from the %s that nothing here shows to be non-zero: with 0 the token list keeps an empty whitespace token that no parse of the written text contains" % (norm(c)[:60], t, "violation's action" if bare_action else "rule's configuration"), fi.loc(c))
    r.extra["blank_products"] = n_sites
    r.extra["blank_products_from_option_or_action"] = n_bare
    if n_sites < 15 or n_bare < 5:
        raise AnalysisError("only %d blank products (%d from an option or action value) found in rule code" % (n_sites, n_bare))


def _emit(r, p):
    w = None
    for fi in p.functions.values():
        if fi.module.name == "vsg.apply_rules" and any(isinstance(n, ast.Call) and callee_text(n) == "os.replace" for n in walk_function(fi.node)):
            w = fi
    if w is None:
        raise AnalysisError("write-back function not found")
    writes = [n for n in walk_function(w.node) if isinstance(n, ast.Call) and isinstance(n.func, ast.Attribute) and n.func.attr == "write"]
    single = {}
    for n in walk_function(w.node):
        if isinstance(n, ast.Assign) and len(n.targets) == 1 and isinstance(n.targets[0], ast.Name):
            single.setdefault(n.targets[0].id, []).append(n.value)

    def parts(e, depth=0):
        if isinstance(e, ast.BinOp) and isinstance(e.op, ast.Add):
            return parts(e.left, depth) + parts(e.right, depth)
        if isinstance(e, ast.Name) and len(single.get(e.id, ())) == 1 and depth < 3:
            return parts(single[e.id][0], depth + 1)
        if isinstance(e, ast.Call) and isinstance(e.func, ast.Attribute) and e.func.attr == "join" and e.args:
            a = e.args[0]
            if isinstance(a, ast.Name) and len(single.get(a.id, ())) == 1 and depth < 3:
                return ["%s.join(%s)" % (norm(e.func.value), norm(single[a.id][0]))]
        return [norm(e)]

    texts = []
    for n in sorted(writes, key=lambda n: n.lineno):
        if n.args:
            texts.extend(parts(n.args[0]))
    ov = w.params[0]
    if texts == ["'\\n'.join(%s.get_lines()[1:])" % ov, "'\\n'"]:
        r.ok("C08.emit", w.key, "writes '\\n'.join(get_lines()[1:]) followed by one '\\n'")
    else:
        r.fail("C08.emit", w.key, "write-back emits %s, not the model's lines joined by newlines plus a final newline" % texts, w.loc())
    gl = p.function("vsg.vhdlFile.vhdlFile:vhdlFile.get_lines")
    first = [n for n in walk_function(gl.node) if isinstance(n, ast.Call) and norm(n.func).endswith(".append") and n.args and isinstance(n.args[0], ast.Constant) and n.args[0].value == ""]
    if first:
        r.ok("C08.emit", gl.key, "get_lines()[0] is the dummy entry dropped by [1:]")
    else:
        r.fail("C08.emit", gl.key, "get_lines no longer starts with the dummy entry that write-back drops with [1:]: the first line of the file would be lost", gl.loc())


VARIANTS = [
    Variant("C08", "use-clause library name compared in its raw spelling by the indent computation", "fire",
            [("vsg/vhdlFile/indent/set_token_indent.py", "            return oToken.get_lower_value()", "            return oToken.get_value()")],
            rule="C08.indentcase"),
    Variant("C08", "twin: library names lowered at the call site", "silent",
            [("vsg/vhdlFile/indent/set_token_indent.py", "            cParams.library_name.append(oToken.get_lower_value())", "            cParams.library_name.append(oToken.get_value().lower())")]),
    Variant("C08", "whitespace rules write an empty string for zero spaces again (567eb32 reverted)", "fire",
            [("vsg/rules/whitespace_between_tokens.py", "        if dAction[\"spaces\"] == 0:", "        if self.number_of_spaces == 0:")],
            rule="C08.zerowidth", key="spaces"),
    Variant("C08", "indent refresh moved to after phase 1", "fire",
            [("vsg/rule_list.py", "            # Update indents before checking indent\n            if phase == 4:\n                self.oVhdlFile.set_token_indent()\n\n", ""),
             ("vsg/rule_list.py", "                self.oVhdlFile.update_token_map()\n\n    def get_rules_in_phase", "                self.oVhdlFile.update_token_map()\n                self.oVhdlFile.set_token_indent()\n\n    def get_rules_in_phase")],
            rule="C08.order", key="indent-before-phase-4"),
    Variant("C08", "trailing whitespace fixed before blank lines", "fire",
            [("vsg/rule_list.py", "                self.oVhdlFile.fix_blank_lines()\n                self.oVhdlFile.fix_trailing_whitespace()", "                self.oVhdlFile.fix_trailing_whitespace()\n                self.oVhdlFile.fix_blank_lines()")],
            rule="C08.order", key="normalisers"),
    Variant("C08", "rule inserts keyword with text of another keyword", "fire",
            [("vsg/rules/package_body/rule_002.py", 'token.end_body_keyword("body")', 'token.end_body_keyword("package")')], rule="C08.literal"),
    Variant("C08", "new misspelt token field", "fire",
            [("vsg/rules/utils.py", "def insert_carriage_return(lTokens, index):\n    insert_token(lTokens, index, parser.carriage_return())", "def insert_carriage_return(lTokens, index):\n    oToken = parser.carriage_return()\n    oToken.hierachy = None\n    insert_token(lTokens, index, oToken)")],
            rule="C08.schema", key="hierachy"),
    Variant("C08", "write-back without the final newline", "fire",
            [("vsg/apply_rules.py", '            oFile.write("\\n".join(oVhdlFile.get_lines()[1:]))\n            oFile.write("\\n")\n', '            oFile.write("\\n".join(oVhdlFile.get_lines()[1:]))\n')], rule="C08.emit"),
    Variant("C08", "blank-line normaliser respects a code tag the trailing-whitespace normaliser ignores", "fire",
            [("vsg/vhdlFile/utils.py", "                and isinstance(oToken, parser.whitespace)\n                and isinstance(lTokens[iToken + 1], parser.carriage_return)\n            ):", "                and isinstance(oToken, parser.whitespace)\n                and not oToken.has_code_tag(\"whitespace_001\")\n                and isinstance(lTokens[iToken + 1], parser.carriage_return)\n            ):")], rule="C08.order", key="class-only"),
    Variant("C08", "aggregate collapse removes comments after collapsing whitespace", "fire",
            [("vsg/rules/multiline_structure.py", "        lNewTokens = utils.remove_comments_from_token_list(lNewTokens)\n        lNewTokens = utils.remove_consecutive_whitespace_tokens(lNewTokens)\n", "        lNewTokens = utils.remove_consecutive_whitespace_tokens(lNewTokens)\n        lNewTokens = utils.remove_comments_from_token_list(lNewTokens)\n")], rule="C08.order", key="remove_comments_from_token_list-after"),
    Variant("C08", "twin: write-back builds the text in a local first", "silent",
            [("vsg/apply_rules.py", '            oFile.write("\\n".join(oVhdlFile.get_lines()[1:]))\n            oFile.write("\\n")\n', '            lLines = oVhdlFile.get_lines()[1:]\n            sText = "\\n".join(lLines) + "\\n"\n            oFile.write(sText)\n')]),
    Variant("C08", "twin: refresh indents unconditionally each phase", "silent",
            [("vsg/rule_list.py", "            # Update indents before checking indent\n            if phase == 4:\n                self.oVhdlFile.set_token_indent()\n", "            # Update indents before checking indent\n            self.oVhdlFile.set_token_indent()\n")]),
]
