# -*- coding: utf-8 -*-
"""
C15 - a file's result does not depend on jobs, order, neighbours or input channel.

State that can survive from one apply_rules call to the next inside a worker process: module-level
objects, class attributes, mutable default arguments, the shared commandLineArguments / oConfig
objects (bound once by functools.partial) and everything aliased to them - in particular rule
attributes that alias a module-level list (every rule_NNN passes its module's lTokens / lAllowTokens
to the base constructor) or a configuration value (self.__dict__[k] = oConfig.dConfig[...]).

  C15.shared    from apply_rules.apply_rules (over-approximating call graph) no function writes a
                module global, a class attribute or a mutable default, mutates an object rooted at a
                module-level variable, mutates in place a rule attribute whose alias class is GLOBAL or
                CONFIG, or mutates an object reachable from the two shared parameters; no memoising
                decorator caches mutable results; no exec/eval.
  C15.order     the pool call is the order-preserving imap over enumerate(filenames), results are
                appended and printed in iteration order, the serial branch iterates the same list, and
                the aggregation loops over the results in order, calling the same partial in both.
  C15.channel   the --stdin path differs from the file path only in the source handed to the same
                line reader; no other code looks at the stdin flag.
Does not decide: OS-level effects (cwd, environment), multiprocessing start-method semantics.
"""

import ast

from ..effects import dynamic_code_sites
from ..flow import Facts, callee_text
from ..model import AnalysisError, local_names, norm, walk_function
from ..mutation import fresh_locals, is_fresh_expr, mutation_sites
from ..report import Result
from ..ruletable import GlobalAlias, UNKNOWN
from ..selftest import Variant

LEVEL = "other"
META = {
    "technique": "static analysis: effect + escape/alias analysis over the may-call graph from apply_rules (global writes, class-attribute writes, mutable defaults, in-place mutation classified by alias class from the static rule table, inter-procedural taint of the shared arguments), plus shape checks of the dispatch loop in main",
    "level_text": "Decides isolation by construction for all schedules, file orders and job counts: nothing reachable from the per-file entry point writes state "
    "that outlives the call (module/class level, shared arguments, objects aliased to them), the dispatch preserves command-line order, and the stdin "
    "channel shares the file channel's code. A module-level cache or an in-place edit of a shared list - the realistic ways to break this while passing "
    "every single-file test - are caught whatever the input.",
    "level_note": "Trusted base: CPython ast, the analyser's call graph (over-approximate) and alias classes, the static rule table. Not decided: OS-level effects, "
    "semantics of multiprocessing, code loaded with --local_rules.",
}

SHARED_HINT_NAMES = {"commandLineArguments", "oConfig"}
IMMUTABLE_RETURN_CALLS = {"str", "int", "bool", "len", "tuple", "frozenset", "float"}


def _resolve_root(p, fi, name, locs):
    if name in locs:
        return None
    return p.resolve_name(fi.module, name)


def run(ctx):
    p = ctx.program
    cg = ctx.callgraph()
    rt = ctx.ruletable
    r = Result("C15")
    r.load_table("c15.json")
    r.rule("C15.shared", "nothing reachable from apply_rules writes state that outlives the call")
    r.rule("C15.order", "order-preserving dispatch and aggregation; same callable in serial and pool branches")
    r.rule("C15.position", "the file's position in the run is only forwarded: it takes part in no decision, index or result")
    r.rule("C15.channel", "stdin and file channels share the reader; the stdin flag is consulted nowhere else")
    r.explanation = (
        "Every function reachable from vsg.apply_rules:apply_rules in the may-call graph is scanned for in-place mutation sites; each "
        "receiver is classified (local/fresh, module global, class attribute, mutable default, rule attribute with alias class taken from "
        "the abstractly interpreted constructor chain, shared-argument taint propagated through assignments, fields and calls). "
        "Dispatch order and channel equality are shape checks on vsg.__main__:main and vsg.vhdlFile.utils:read_vhdlfile."
    )
    entry = p.function("vsg.apply_rules:apply_rules")
    reach = cg.reachable([entry])
    funcs = [p.functions[k] for k in sorted(reach)]
    if len(funcs) < 1500:
        raise AnalysisError("only %d functions reachable from apply_rules: call graph broken" % len(funcs))
    r.extra["functions_reachable_from_apply_rules"] = len(funcs)

    # alias classes of rule attributes: class key -> attr -> set of kinds / evidence
    alias = {}
    conf_by_class = {}
    for e in rt.entries:
        for a, v in e.attrs.items():
            if isinstance(v, GlobalAlias):
                for c in e.ci.mro:
                    alias.setdefault(c.key, {}).setdefault(a, []).append((e.unique_id, "%s.%s" % (v.modname, v.name)))
        names = e.configuration if isinstance(e.configuration, list) else []
        for c in e.ci.mro:
            conf_by_class.setdefault(c.key, set()).update(n for n in names if isinstance(n, str))
    rule_cls = p.cls("vsg.rule:Rule")

    n_sites = 0
    n_self = 0
    taint = _taint(p, cg, entry, reach)
    r.extra["tainted_params"] = len(taint["params"])
    for fi in funcs:
        locs = local_names(fi.node)
        fresh, binds = fresh_locals(fi, p)
        # (1) global declarations
        for n in walk_function(fi.node):
            if isinstance(n, ast.Global):
                for name in n.names:
                    assigned = any(isinstance(x, ast.Name) and x.id == name and isinstance(x.ctx, ast.Store) for x in ast.walk(fi.node))
                    if assigned:
                        r.fail("C15.shared", "%s:global %s" % (fi.key, name), "writes module-level variable `%s` while processing a file" % name, fi.loc(n), path=_path(cg, reach, fi))
        # mutable defaults
        mut_defaults = set()
        a = fi.node.args
        pos = a.posonlyargs + a.args
        for arg, d in zip(pos[len(pos) - len(a.defaults) :], a.defaults):
            if isinstance(d, (ast.List, ast.Dict, ast.Set)):
                mut_defaults.add(arg.arg)
        for arg, d in zip(a.kwonlyargs, a.kw_defaults):
            if isinstance(d, (ast.List, ast.Dict, ast.Set)):
                mut_defaults.add(arg.arg)
        for m in mutation_sites(fi):
            n_sites += 1
            root = m.root
            if root is None:
                continue
            kk = m.key
            # ---- mutable default
            if root in mut_defaults and not m.path:
                r.fail("C15.shared", kk, "mutates the mutable default argument `%s` (shared by every call)" % root, fi.loc(m.node), path=_path(cg, reach, fi))
                continue
            # ---- self.<attr>
            if root == "self" and fi.cls is not None:
                if not m.path:
                    continue
                first = m.path[0]
                if m.kind == "attr-store" and len(m.path) == 0:
                    continue
                # plain `self.x = v` is an instance write (fresh per file): path empty handled above; here path>=1 means
                # self.x.<...> mutated, or self.x[k] = v, or self.x.append()
                attr = first[1:] if first.startswith(".") else None
                if attr is None:
                    continue
                if m.kind == "attr-store" and len(m.path) == 1:
                    # self.a.b = v : store on the object held in self.a
                    pass
                n_self += 1
                if attr == "__class__":
                    r.fail("C15.shared", kk, "writes a class attribute through self.__class__", fi.loc(m.node), path=_path(cg, reach, fi))
                    continue
                # class-level mutable never rebound on the instance
                cls_attr_owner = None
                for c in fi.cls.mro:
                    if attr in c.class_attrs and isinstance(c.class_attrs[attr], (ast.List, ast.Dict, ast.Set)):
                        cls_attr_owner = c
                if cls_attr_owner is not None and not _instance_assigned(fi.cls, attr):
                    r.fail("C15.shared", kk, "mutates class-level `%s.%s` in place: the object is shared by all instances in the process" % (cls_attr_owner.name, attr), fi.loc(m.node), path=_path(cg, reach, fi))
                    continue
                if rule_cls in fi.cls.mro and fi.name != "__init__":
                    if _dominating_fresh_assignment(fi, m, attr):
                        continue
                    al = alias.get(fi.cls.key, {}).get(attr)
                    # subclasses of this class count too: the method runs on their instances
                    if not al:
                        for sc in fi.cls.all_subclasses():
                            if alias.get(sc.key, {}).get(attr):
                                al = alias[sc.key][attr]
                                break
                    if al:
                        who, glob = al[0]
                        r.fail(
                            "C15.shared",
                            kk,
                            "in-place mutation of rule attribute `%s`, which for %d rule(s) (e.g. %s) is the module-level list %s shared by every instance of the rule in this process: "
                            "what one file's analysis adds is seen by the next file" % (attr, len(al), who, glob),
                            fi.loc(m.node),
                            path=_path(cg, reach, fi),
                        )
                        continue
                    confs = conf_by_class.get(fi.cls.key, set())
                    for sc in fi.cls.all_subclasses():
                        confs = confs | conf_by_class.get(sc.key, set())
                    if attr in confs:
                        r.fail(
                            "C15.shared",
                            kk,
                            "in-place mutation of configurable attribute `%s`: after configure() it aliases the value stored in the shared configuration dictionary, so the change leaks to every later file" % attr,
                            fi.loc(m.node),
                            path=_path(cg, reach, fi),
                        )
                        continue
                    r.ok("C15.shared", kk, "rule attribute `%s` is created fresh by the constructor chain for every rule object" % attr, sample=n_self < 4)
                continue
            # ---- locals
            if root in locs:
                if root in fresh:
                    continue
                # local alias of self.<attr> or of a global: x = self.a ; x.append()
                vals = binds.get(root, [])
                aliased = None
                for v in vals:
                    if v is None:
                        continue
                    if isinstance(v, ast.Attribute) and isinstance(v.value, ast.Name) and v.value.id == "self" and fi.cls is not None and rule_cls in fi.cls.mro:
                        al = alias.get(fi.cls.key, {}).get(v.attr)
                        if al and fi.name != "__init__":
                            aliased = ("rule attribute %s = %s" % (v.attr, al[0][1]), v)
                    elif isinstance(v, (ast.Name, ast.Attribute)):
                        ent = p.resolve_expr(fi.module, v, local_names=locs)
                        if ent and ent[0] == "var":
                            aliased = ("module-level %s.%s" % (ent[1], ent[2]), v)
                if aliased:
                    r.fail("C15.shared", kk, "mutates `%s`, a local alias of %s" % (root, aliased[0]), fi.loc(m.node), path=_path(cg, reach, fi))
                    continue
                # shared-argument taint
                if (fi.key, root) in taint["params"] or (fi.key, root) in taint["locals"]:
                    if _taint_excused(m):
                        continue
                    why = taint["why"].get((fi.key, root), "")
                    r.fail(
                        "C15.shared",
                        kk,
                        "mutates a process-wide shared object (reached from apply_rules' shared arguments, a class-level mutable or a module-level object; none is re-created per file): `%s` %s" % (root, why),
                        fi.loc(m.node),
                        path=_path(cg, reach, fi),
                    )
                continue
            # ---- module-level roots
            ent = p.resolve_name(fi.module, root)
            if ent is None:
                continue
            if ent[0] == "var":
                r.fail("C15.shared", kk, "mutates module-level object %s.%s in place while processing a file" % (ent[1], ent[2]), fi.loc(m.node), path=_path(cg, reach, fi))
            elif ent[0] == "module":
                # module.attr... : resolve first attribute
                if m.path and m.path[0].startswith("."):
                    sub = p.resolve_module_attr(ent[1], m.path[0][1:])
                    if sub and sub[0] == "var":
                        r.fail("C15.shared", kk, "mutates module-level object %s.%s in place while processing a file" % (sub[1], sub[2]), fi.loc(m.node), path=_path(cg, reach, fi))
                    elif sub and sub[0] == "class" and len(m.path) >= 1 and (m.kind == "attr-store" and len(m.path) == 1 or len(m.path) > 1):
                        r.fail("C15.shared", kk, "writes class attribute of %s" % sub[1].key, fi.loc(m.node), path=_path(cg, reach, fi))
                    elif sub is None and m.kind == "attr-store" and not m.path[1:]:
                        r.fail("C15.shared", kk, "assigns attribute on module %s" % ent[1], fi.loc(m.node), path=_path(cg, reach, fi))
                elif m.kind == "attr-store":
                    r.fail("C15.shared", kk, "assigns attribute `%s` on module %s" % (m.method, ent[1]), fi.loc(m.node), path=_path(cg, reach, fi))
            elif ent[0] == "external" and m.kind == "attr-store" and not m.path:
                r.fail("C15.shared", kk, "assigns attribute `%s` on external module %s (process-wide state)" % (m.method, ent[1]), fi.loc(m.node), path=_path(cg, reach, fi))
            elif ent[0] == "class":
                r.fail("C15.shared", kk, "writes class-level state of %s" % ent[1].key, fi.loc(m.node), path=_path(cg, reach, fi))
        # memoisation
        for d in fi.node.decorator_list:
            dt = norm(d)
            if any(x in dt for x in ("lru_cache", "functools.cache", "cached_property")) or dt in ("cache",):
                rets = [x for x in walk_function(fi.node) if isinstance(x, ast.Return) and x.value is not None]
                immut = all(isinstance(x.value, (ast.Constant, ast.Tuple, ast.JoinedStr, ast.Compare, ast.BoolOp)) or (isinstance(x.value, ast.Call) and norm(x.value.func) in IMMUTABLE_RETURN_CALLS) for x in rets)
                if not immut:
                    r.fail("C15.shared", "%s:@%s" % (fi.key, dt), "memoised function returns a possibly mutable object: results are shared between files processed by the same worker", fi.loc(), path=_path(cg, reach, fi))
    r.extra["mutation_sites_examined"] = n_sites
    if n_sites < 1000:
        raise AnalysisError("only %d mutation sites examined" % n_sites)
    r.ok("C15.shared", "reach:apply_rules", "%d functions, %d in-place mutation sites classified, %d on rule attributes" % (len(funcs), n_sites, n_self))
    # module-level executable state: mutable module globals written from functions anywhere? (covered above for reach)
    dyn = dynamic_code_sites(p)
    for fi, n in dyn:
        r.fail("C15.shared", "%s:%s" % (fi.key if fi else "<module>", norm(n)[:50]), "dynamic code execution defeats the effect analysis", fi.loc(n) if fi else None)
    if not dyn:
        r.ok("C15.shared", "no-dynamic-code", "no exec/eval/compile/__import__ in vsg/")

    _order(r, p)
    _position(r, p, cg)
    _channel(r, p)
    return r


def _path(cg, reach, fi):
    return [x[0] for x in cg.path(reach, fi.key)][-6:]


def _instance_assigned(ci, attr):
    for c in ci.mro:
        init = c.methods.get("__init__")
        if init is None:
            continue
        for n in walk_function(init.node):
            if isinstance(n, ast.Assign) and any(isinstance(t, ast.Attribute) and t.attr == attr and isinstance(t.value, ast.Name) and t.value.id == "self" for t in n.targets):
                return True
    return False


def _dominating_fresh_assignment(fi, m, attr):
    """self.attr = <fresh> earlier in the same block chain of the same method."""
    facts = None
    for n in walk_function(fi.node):
        if isinstance(n, ast.Assign) and any(isinstance(t, ast.Attribute) and t.attr == attr and isinstance(t.value, ast.Name) and t.value.id == "self" for t in n.targets):
            if is_fresh_expr(n.value) and n.lineno < m.node.lineno:
                # same or enclosing block
                blk = getattr(n, "_parent", None)
                q = m.node
                while q is not None:
                    q = getattr(q, "_parent", None)
                    if q is blk:
                        return True
    return False


def _taint_excused(m):
    return False


def _taint(p, cg, entry, reach):
    """Inter-procedural may-taint of objects reachable from apply_rules' first two parameters."""
    params = set()
    locals_ = set()
    fields = set()  # (class key, attr)
    why = {}
    for name in entry.params[:2]:
        params.add((entry.key, name))
        why[(entry.key, name)] = "(parameter of apply_rules)"

    def tainted_expr(fi, e, fresh):
        """Is expression e (possibly) a reference into a tainted object?"""
        if e is None:
            return False
        if is_fresh_expr(e, p, fi.module, fresh):
            # a fresh container may still hold tainted elements, but mutating the container itself is fine
            return False
        cur = e
        while isinstance(cur, (ast.Attribute, ast.Subscript)):
            if isinstance(cur, ast.Attribute) and isinstance(cur.value, ast.Name) and cur.value.id == "self" and fi.cls is not None:
                for c in fi.cls.mro:
                    if (c.key, cur.attr) in fields:
                        return True
                    # class-level mutable object never rebound on the instance: one object for the whole process
                    if cur.attr in c.class_attrs and isinstance(c.class_attrs[cur.attr], (ast.List, ast.Dict, ast.Set)) and not _instance_assigned(fi.cls, cur.attr):
                        return True
            cur = cur.value
        if isinstance(cur, ast.Name) and (fi.key, cur.id) not in params and (fi.key, cur.id) not in locals_:
            # module-level mutable object referenced by name
            if cur.id not in loc_cache.setdefault(fi.key, local_names(fi.node)):
                ent = p.resolve_name(fi.module, cur.id)
                if ent and ent[0] == "var":
                    vals = p.modules[ent[1]].globals_assigned.get(ent[2], [])
                    if any(isinstance(v, (ast.List, ast.Dict, ast.Set, ast.Call)) for v in vals if v is not None):
                        return True
        if isinstance(cur, ast.Call) and isinstance(cur.func, ast.Attribute) and cur.func.attr in ("get",):
            return tainted_expr(fi, cur.func.value, fresh)
        if isinstance(cur, ast.Name):
            return (fi.key, cur.id) in params or (fi.key, cur.id) in locals_
        return False

    funcs = [p.functions[k] for k in reach]
    fresh_cache = {}
    loc_cache = {}
    changed = True
    rounds = 0
    while changed and rounds < 12:
        changed = False
        rounds += 1
        for fi in funcs:
            if fi.key not in fresh_cache:
                fresh_cache[fi.key] = fresh_locals(fi, p)[0]
            fresh = fresh_cache[fi.key]
            has_taint = any(k[0] == fi.key for k in params) or any(k[0] == fi.key for k in locals_) or (fi.cls is not None and any((c.key, a) in fields for c in fi.cls.mro for (ck, a) in fields if ck == c.key))
            for n in walk_function(fi.node):
                if isinstance(n, ast.Assign):
                    if tainted_expr(fi, n.value, fresh):
                        for t in n.targets:
                            if isinstance(t, ast.Name) and (fi.key, t.id) not in locals_:
                                locals_.add((fi.key, t.id))
                                why[(fi.key, t.id)] = "(= %s)" % norm(n.value)[:60]
                                changed = True
                            elif isinstance(t, ast.Attribute) and isinstance(t.value, ast.Name) and t.value.id == "self" and fi.cls is not None:
                                if (fi.cls.key, t.attr) not in fields:
                                    fields.add((fi.cls.key, t.attr))
                                    changed = True
                elif isinstance(n, ast.For) and tainted_expr(fi, n.iter, fresh):
                    for x in ast.walk(n.target):
                        if isinstance(x, ast.Name) and (fi.key, x.id) not in locals_:
                            locals_.add((fi.key, x.id))
                            why[(fi.key, x.id)] = "(element of %s)" % norm(n.iter)[:60]
                            changed = True
            for s in cg.sites.get(fi.key, ()):
                if s.kind != "resolved":
                    continue
                for i, a in enumerate(s.node.args):
                    if tainted_expr(fi, a, fresh):
                        for t in s.targets:
                            ps = t.params[1:] if (t.cls is not None and t.params and t.params[0] == "self" and not (isinstance(s.node.func, ast.Attribute) and isinstance(s.node.func.value, ast.Name) and p.resolve_name(fi.module, s.node.func.value.id) and p.resolve_name(fi.module, s.node.func.value.id)[0] == "class")) else t.params
                            if t.name == "__init__" and t.cls is not None:
                                ps = t.params[1:]
                            if i < len(ps) and (t.key, ps[i]) not in params:
                                params.add((t.key, ps[i]))
                                why[(t.key, ps[i])] = "(argument %s of %s)" % (norm(a)[:40], fi.key)
                                changed = True
                for kw in s.node.keywords:
                    if kw.arg and tainted_expr(fi, kw.value, fresh):
                        for t in s.targets:
                            if kw.arg in t.params and (t.key, kw.arg) not in params:
                                params.add((t.key, kw.arg))
                                why[(t.key, kw.arg)] = "(keyword argument of %s)" % fi.key
                                changed = True
    return {"params": params, "locals": locals_, "fields": fields, "why": why}


def _position(r, p, cg):
    """apply_rules receives (position in the run, file name).  A file's result must not depend on where it stands in the
    run, so the position may be handed on as an argument but must never be used: no subscript, comparison, arithmetic,
    condition, attribute or return may read a name that carries it (inter-procedural: parameters that receive it)."""
    ar = p.function("vsg.apply_rules:apply_rules")
    unpack = [n for n in walk_function(ar.node) if isinstance(n, ast.Assign) and isinstance(n.targets[0], ast.Tuple) and len(n.targets[0].elts) == 2 and isinstance(n.value, ast.Name) and n.value.id in ar.params]
    if not unpack:
        raise AnalysisError("apply_rules no longer unpacks (index, file name)")
    pos = norm(unpack[0].targets[0].elts[0])
    tainted = {(ar.key, pos)}
    work = [(ar, pos)]
    n_fw = 0
    while work:
        fi, name = work.pop()
        for n in walk_function(fi.node):
            if not (isinstance(n, ast.Name) and n.id == name and isinstance(n.ctx, ast.Load)):
                continue
            par = getattr(n, "_parent", None)
            call = None
            if isinstance(par, ast.Call) and (n in par.args):
                call = par
            elif isinstance(par, ast.keyword):
                call = getattr(par, "_parent", None)
            if call is not None:
                site = None
                for s in cg.sites.get(fi.key, ()):
                    if s.node is call:
                        site = s
                if site is not None and site.kind == "resolved" and site.targets and all(t.module.name.startswith("vsg") for t in site.targets):
                    n_fw += 1
                    for t in site.targets:
                        params = t.params[1:] if (t.cls is not None and t.params and t.params[0] == "self" and isinstance(call.func, ast.Attribute)) else t.params
                        pn = None
                        if isinstance(par, ast.keyword):
                            pn = par.arg if par.arg in t.params else None
                        else:
                            i = call.args.index(n)
                            pn = params[i] if i < len(params) else None
                        if pn and (t.key, pn) not in tainted:
                            tainted.add((t.key, pn))
                            work.append((t, pn))
                    continue
            kk = "%s:%s:%s" % (fi.key, name, norm(par)[:60] if par is not None else "?")
            r.fail("C15.position", kk, "`%s` carries the file's position in the run and is used in `%s`: the file's configuration or result then depends on which files were named before it" % (name, norm(par)[:70] if par is not None else name), fi.loc(n))
    r.extra["position_carriers"] = sorted("%s(%s)" % k for k in tainted)
    if len(tainted) < 3:
        raise AnalysisError("the run position is not forwarded anywhere: anchor changed")
    r.ok("C15.position", ar.key, "the position is forwarded through %d call(s) to %d parameter(s) and read nowhere else" % (n_fw, len(tainted) - 1))


def _order(r, p):
    from ..model import inline_helpers

    # the per-file record / print block may live in a helper of __main__ (extract-function refactoring)
    main = inline_helpers(p, p.function("vsg.__main__:main"), toward={"print"})
    fn = main.node
    # the callable
    part = [n for n in walk_function(fn) if isinstance(n, ast.Assign) and isinstance(n.value, ast.Call) and callee_text(n.value) == "functools.partial"]
    if len(part) != 1 or not part[0].value.args or norm(part[0].value.args[0]) != "apply_rules.apply_rules":
        r.fail("C15.order", main.key + ":callable", "per-file callable is not functools.partial(apply_rules.apply_rules, ...)", main.loc())
        return
    fvar = norm(part[0].targets[0])
    pools = [n for n in walk_function(fn) if isinstance(n, ast.Call) and isinstance(n.func, ast.Attribute) and isinstance(n.func.value, ast.Name) and n.func.value.id == "pool"]
    if len(pools) != 1:
        r.fail("C15.order", main.key + ":pool-call", "expected one pool dispatch call, found %d" % len(pools), main.loc())
    else:
        c = pools[0]
        if c.func.attr != "imap":
            r.fail("C15.order", main.key + ":pool-call", "files are dispatched with pool.%s: results no longer arrive in command-line order" % c.func.attr, main.loc(c))
        elif len(c.args) < 2 or norm(c.args[0]) != fvar or norm(c.args[1]) != "enumerate(commandLineArguments.filename)":
            r.fail("C15.order", main.key + ":pool-args", "pool.imap(%s) is not over (index, file) pairs of the command-line list with the shared callable" % ", ".join(norm(a) for a in c.args), main.loc(c))
        else:
            r.ok("C15.order", main.key + ":pool-call", "pool.imap(%s, enumerate(commandLineArguments.filename))" % fvar)
        loop = getattr(c, "_parent", None)
        if not (isinstance(loop, ast.For) and loop.iter is c):
            r.fail("C15.order", main.key + ":pool-consumption", "imap results are not consumed by a for loop in arrival order", main.loc(c))
    serial = [n for n in walk_function(fn) if isinstance(n, ast.For) and norm(n.iter) == "enumerate(commandLineArguments.filename)"]
    if len(serial) != 1:
        r.fail("C15.order", main.key + ":serial-loop", "serial branch does not iterate enumerate(commandLineArguments.filename)", main.loc())
    else:
        calls = [x for x in ast.walk(serial[0]) if isinstance(x, ast.Call) and norm(x.func) == fvar]
        if len(calls) == 1:
            r.ok("C15.order", main.key + ":serial-loop", "serial branch calls the same partial for each (index, file)")
        else:
            r.fail("C15.order", main.key + ":serial-loop", "serial branch does not call the shared callable exactly once per file", main.loc(serial[0]))
    # no reordering of results
    for n in walk_function(fn):
        if isinstance(n, ast.Call) and ((isinstance(n.func, ast.Attribute) and n.func.attr in ("sort", "reverse") and norm(n.func.value) in ("lReturn", "commandLineArguments.filename")) or (isinstance(n.func, ast.Name) and n.func.id in ("sorted", "reversed", "set") and n.args and norm(n.args[0]) in ("lReturn", "commandLineArguments.filename"))):
            r.fail("C15.order", main.key + ":reorder", "results or file list are reordered: %s" % norm(n), main.loc(n))
    agg = [n for n in walk_function(fn) if isinstance(n, ast.For) and norm(n.iter) == "lReturn"]
    if len(agg) == 1:
        r.ok("C15.order", main.key + ":aggregation", "JSON/JUnit/status aggregation iterates lReturn in arrival order")
    else:
        r.fail("C15.order", main.key + ":aggregation", "aggregation does not iterate lReturn exactly once in order", main.loc())
    # printing happens per result inside the dispatch loops, stdout before stderr, in each of the three sites
    # (inline `print(sOutputStd)` / `print(sOutputErr, file=sys.stderr)` pairs, or a module-level helper given both texts)
    unpacks = [n for n in walk_function(fn) if isinstance(n, ast.Assign) and isinstance(n.targets[0], ast.Tuple) and any(norm(e) == "sOutputStd" for e in n.targets[0].elts)]
    prints = [n for n in walk_function(fn) if isinstance(n, ast.Call) and callee_text(n) == "print" and n.args and norm(n.args[0]) in ("sOutputStd", "sOutputErr")]
    helper_calls = []
    for n in walk_function(fn):
        if isinstance(n, ast.Call) and isinstance(n.func, ast.Name) and [norm(a) for a in n.args] == ["sOutputStd", "sOutputErr"]:
            ent = p.resolve_expr(main.module, n.func)
            if ent and ent[0] == "func":
                g = ent[1]
                ps = sorted([x for x in walk_function(g.node) if isinstance(x, ast.Call) and callee_text(x) == "print" and x.args], key=lambda x: x.lineno)
                if len(ps) == 2 and len(g.params) == 2 and norm(ps[0].args[0]) == g.params[0] and norm(ps[1].args[0]) == g.params[1] and ps[0].lineno < ps[1].lineno and any(kw.arg == "file" and "stderr" in norm(kw.value) for kw in ps[1].keywords) and not any(kw.arg == "file" for kw in ps[0].keywords):
                    helper_calls.append(n)
    n_sites = len(prints) // 2 + len(helper_calls)
    if len(unpacks) == 3 and len(prints) % 2 == 0 and n_sites == 3:
        r.ok("C15.order", main.key + ":printing", "each of the three dispatch sites prints stdout then stderr text per file")
    else:
        r.fail("C15.order", main.key + ":printing", "expected the per-file stdout and stderr texts to be printed at each of the 3 dispatch sites, found %d inline print(s) and %d helper call(s) for %d result site(s)" % (len(prints), len(helper_calls), len(unpacks)), main.loc())


def _channel(r, p):
    rd = p.function("vsg.vhdlFile.utils:read_vhdlfile")
    # nested _read used for every source
    uses = [n for n in ast.walk(rd.node) if isinstance(n, ast.Call) and isinstance(n.func, ast.Name) and n.func.id == "_read"]
    rets = [n for n in ast.walk(rd.node) if isinstance(n, ast.Return) and isinstance(n.value, ast.Tuple)]
    srcs = [norm(u.args[0]) for u in uses if u.args]
    if len(uses) >= 3 and "sys.stdin" in srcs and all(isinstance(x.value.elts[0], ast.Call) or isinstance(x.value.elts[0], ast.List) for x in rets):
        r.ok("C15.channel", rd.key, "stdin and both file encodings go through the same _read line reader")
    else:
        r.fail("C15.channel", rd.key, "the stdin source is not read by the same line reader as files (sources: %s)" % srcs, rd.loc())
    # other readers of the stdin flag / name
    allowed = {"vsg.__main__:main", "vsg.__main__:validate_files_exist_to_analyze", "vsg.vhdlFile.utils:read_vhdlfile", "vsg.cmd_line_args:parse_command_line_arguments"}
    for fi in p.functions.values():
        if fi.module.name.startswith(("vsg.interfaces", "vsg.__parser__")):
            continue
        for n in walk_function(fi.node):
            hit = None
            if isinstance(n, ast.Attribute) and n.attr == "stdin" and isinstance(n.ctx, ast.Load) and not (isinstance(n.value, ast.Name) and n.value.id == "sys"):
                hit = n
            elif isinstance(n, ast.Compare) and any(isinstance(c, ast.Constant) and c.value == "stdin" for c in [n.left] + n.comparators):
                hit = n
            if hit is None:
                continue
            kk = "%s:%s" % (fi.key, norm(hit))
            if fi.key in allowed:
                r.ok("C15.channel", kk, "dispatch/reader", nontrivial=False, sample=False)
            elif fi.name == "__init__" and isinstance(getattr(hit, "_parent", None), ast.Assign):
                r.ok("C15.channel", kk, "stored, see readers", nontrivial=False, sample=False)
            else:
                r.fail("C15.channel", kk, "code outside the dispatcher/reader behaves differently for stdin input", fi.loc(hit))
    # the stored flag vhdlFile.stdin must have no reader
    for fi in p.functions.values():
        for n in walk_function(fi.node):
            if isinstance(n, ast.Attribute) and n.attr == "stdin" and isinstance(n.ctx, ast.Load) and isinstance(n.value, ast.Name) and n.value.id in ("self", "oFile", "oVhdlFile") and fi.module.name.startswith(("vsg.vhdlFile", "vsg.rule")):
                r.fail("C15.channel", "%s:%s" % (fi.key, norm(n)), "the parsed file object's stdin flag influences processing", fi.loc(n))


VARIANTS = [
    Variant("C15", "per-file configuration looked up by the file's position in the run", "fire",
            [("vsg/apply_rules.py", "        iMyIndex = get_index_of_filename_in_file_list(configuration, section, sFileName)", "        iMyIndex = iIndex if iIndex < len(configuration[section]) else get_index_of_filename_in_file_list(configuration, section, sFileName)")], rule="C15.position"),
    Variant("C15", "revert of the allow-list fix (alias mutation)", "fire",
            [("vsg/rules/blank_line_below_line_ending_with_token.py", "            lAllowTokens = self.lAllowTokens + [token.pragma.pragma]\n            _analyze_require_blank_line(self, lToi, lAllowTokens)",
              "            self.lAllowTokens.append(token.pragma.pragma)\n            _analyze_require_blank_line(self, lToi, self.lAllowTokens)")], rule="C15.shared", key="lAllowTokens"),
    Variant("C15", "module-level token cache in tokens.create", "fire",
            [("vsg/tokens.py", "def create(sString):\n", "_dCache = {}\n\n\ndef create_cached(sString):\n    if sString not in _dCache:\n        _dCache[sString] = create(sString)\n    return _dCache[sString]\n\n\ndef create(sString):\n"),
             ("vsg/vhdlFile/vhdlFile.py", "lTokens = tokens.create(sLine.rstrip", "lTokens = tokens.create_cached(sLine.rstrip")], rule="C15.shared", key="_dCache"),
    Variant("C15", "lru_cache on tokenizer", "fire",
            [("vsg/tokens.py", "def create(sString):\n", "import functools\n\n\n@functools.lru_cache(maxsize=None)\ndef create(sString):\n")], rule="C15.shared", key="lru_cache"),
    Variant("C15", "rule mutates configured exception list", "fire",
            [("vsg/rules/token_case.py", "        self.case_exceptions_lower = utils.lowercase_list(self.case_exceptions)", "        self.case_exceptions.sort()\n        self.case_exceptions_lower = utils.lowercase_list(self.case_exceptions)")], rule="C15.shared", key="case_exceptions"),
    Variant("C15", "class-level counter list on vhdlFile", "fire",
            [("vsg/vhdlFile/vhdlFile.py", "    def __init__(self, filecontent, commandLineArguments=default_cla,", "    lSeen = []\n\n    def __init__(self, filecontent, commandLineArguments=default_cla,"),
             ("vsg/vhdlFile/vhdlFile.py", "        self.filecontent = filecontent\n", "        self.filecontent = filecontent\n        self.lSeen.append(sFilename)\n")], rule="C15.shared", key="lSeen"),
    Variant("C15", "apply_rules records the file in the shared config", "fire",
            [("vsg/apply_rules.py", "    iIndex, sFileName = tIndexFileName\n", "    iIndex, sFileName = tIndexFileName\n    configuration.setdefault(\"processed\", []).append(sFileName)\n")], rule="C15.shared"),
    Variant("C15", "imap_unordered", "fire",
            [("vsg/__main__.py", "pool.imap(f, enumerate(commandLineArguments.filename))", "pool.imap_unordered(f, enumerate(commandLineArguments.filename))")], rule="C15.order"),
    Variant("C15", "rule treats stdin specially", "fire",
            [("vsg/vhdlFile/vhdlFile.py", "        try:\n            self.lAllObjects[0].set_filename(self.filename)", "        if self.stdin:\n            self.filename = None\n        try:\n            self.lAllObjects[0].set_filename(self.filename)")], rule="C15.channel"),
    Variant("C15", "twin: rule builds a local sorted copy", "silent",
            [("vsg/rules/token_case.py", "        self.case_exceptions_lower = utils.lowercase_list(self.case_exceptions)", "        lSorted = sorted(self.case_exceptions)\n        lSorted.reverse()\n        self.case_exceptions_lower = utils.lowercase_list(self.case_exceptions)")]),
]
