# -*- coding: utf-8 -*-
"""
C17 - the emitted configuration reproduces the run.

  C17.names     for every rule that is emitted (non-deprecated), every name in `configuration` is an
                instance attribute assigned by the constructor chain: getattr() in get_configuration
                cannot fail and `in self.__dict__` accepts the value back.
  C17.sections  every top-level configuration section that the program *consumes* is *emitted* by
                --output_configuration from the configuration itself (or is derived/exempt with a
                reason); a consumed section that is dropped or emitted from a lossy source breaks the
                round trip.
  C17.encoding  writer/reader symmetry: get_configuration emits each name with getattr and the
                severity as its name; the three configure_* readers resolve severity by name and write
                other names back through __dict__; deprecated rules are not emitted (feeding them back
                would be a configuration error); -rc prints a fragment of the same dictionary.
Does not decide: equality of violations/fixes under the emitted configuration.
"""

import ast

from ..flow import Facts, callee_text
from ..model import AnalysisError, expand_text, norm, walk_function
from ..report import Result
from ..ruletable import UNKNOWN, Instance, strip
from ..selftest import Variant

LEVEL = "other"
META = {
    "technique": "static analysis: static rule table (abstract interpretation of every rule constructor) vs configuration name lists; consumed-vs-emitted table agreement over constant configuration keys; writer/reader symmetry of get_configuration / configure_*; key-order independence of consumers of configuration mappings (no first-match exit) against the emitter's sorted keys",
    "level_text": "Decides table agreement for all rules and configurations: (a) each of the ~1000 rules' configurable names is a real instance attribute, so "
    "emission cannot fail and re-configuration accepts every emitted name; (b) the set of configuration sections the code reads equals the set "
    "-oc writes (modulo reasoned exemptions); (c) the emit/consume encodings of rule attributes and severities are symmetric. Equality of the "
    "resulting violations on every input is behaviour and is not decided.",
    "level_note": "Trusted base: CPython ast, the analyser, the abstract interpreter of rule constructors (validated against the runtime once, 1049/1049 rules equal). Local rules are outside the analysed program.",
}

CONFIG_DICT_EXPRS = {
    "configuration", "dConfiguration", "dConfig", "oConfig.dConfig", "configurationFile", "dStyle", "self.configuration.dConfig",
    "oReturn.dConfig", "tempConfiguration", "configuration.dConfig",
}
# consumed sections that need not be emitted, with the reason
EXEMPT = {
    "debug": "run-time flag copied from the command line (--debug) by add_debug_to_configuration, not a user configuration section",
    "name": "style files carry a display `name` read only by the --style help listing (cmd_line_args.get_predefined_styles); it does not influence checking",
}


def _consumed_sections(p, cg=None):
    """{section: [(func, node)]} for constant keys used on a top-level configuration dictionary."""
    out = {}
    for fi in p.functions.values():
        mn = fi.module.name
        if mn.startswith(("vsg.rules.", "vsg.token", "vsg.vhdlFile.classify", "vsg.vhdlFile.extract", "vsg.interfaces", "vsg.__rule_doc_gen__")) and not mn.startswith("vsg.vhdlFile.classify.pragma"):
            continue
        for n in walk_function(fi.node):
            key = None
            base = None
            if isinstance(n, ast.Subscript) and isinstance(n.slice, ast.Constant) and isinstance(n.slice.value, str):
                base, key = n.value, n.slice.value
            elif isinstance(n, ast.Compare) and len(n.ops) == 1 and isinstance(n.ops[0], (ast.In, ast.NotIn)) and isinstance(n.left, ast.Constant) and isinstance(n.left.value, str):
                base, key = n.comparators[0], n.left.value
                if isinstance(base, ast.Call) and isinstance(base.func, ast.Attribute) and base.func.attr == "keys":
                    base = base.func.value
                if isinstance(base, ast.Call) and isinstance(base.func, ast.Name) and base.func.id == "list" and base.args:
                    base = base.args[0]
                    if isinstance(base, ast.Call) and isinstance(base.func, ast.Attribute) and base.func.attr == "keys":
                        base = base.func.value
            elif isinstance(n, ast.Call) and isinstance(n.func, ast.Attribute) and n.func.attr == "get" and n.args and isinstance(n.args[0], ast.Constant) and isinstance(n.args[0].value, str):
                base, key = n.func.value, n.args[0].value
            if key is None:
                # key given by a parameter: take the constants passed at the call sites
                if isinstance(n, ast.Subscript) and isinstance(n.slice, ast.Name) and n.slice.id in fi.params and norm(n.value) in CONFIG_DICT_EXPRS and cg is not None:
                    idx = fi.params.index(n.slice.id)
                    for k2, sites in cg.sites.items():
                        for s in sites:
                            if fi in s.targets and s.kind == "resolved" and len(s.node.args) > idx and isinstance(s.node.args[idx], ast.Constant) and isinstance(s.node.args[idx].value, str):
                                out.setdefault(s.node.args[idx].value, []).append((p.functions[k2], s.node))
                continue
            if norm(base) in CONFIG_DICT_EXPRS:
                # stores into the dict are production, not consumption - but count reads and membership tests
                if isinstance(n, ast.Subscript) and isinstance(n.ctx, ast.Store):
                    continue
                out.setdefault(key, []).append((fi, n))
    return out


def run(ctx):
    p = ctx.program
    rt = ctx.ruletable
    r = Result("C17")
    r.load_table("c17.json")
    r.rule("C17.names", "each configurable name of each emitted rule is an instance attribute set by the constructor chain")
    r.rule("C17.sections", "consumed configuration sections are emitted from the configuration itself")
    r.rule("C17.keyorder", "the emitted file has its mapping keys sorted: no consumer of a configuration mapping depends on key order (no first-match exit from a loop over a mapping)")
    r.rule("C17.encoding", "get_configuration / configure_* are symmetric; deprecated rules not emitted")
    r.explanation = (
        "The static rule table gives, for each rule class, the `configuration` list and the instance attributes after construction; "
        "the consumed sections are the constant keys applied to top-level configuration dictionaries anywhere outside the rule "
        "implementations; the emitted sections are the constant keys stored into the output dictionary of generate_output_configuration, "
        "each classified by the source of its value."
    )
    # ------------------------------------------------------------------ names
    n_rules = 0
    n_names = 0
    for e in rt.entries:
        if e.deprecated is True:
            continue
        n_rules += 1
        conf = e.configuration
        if conf is UNKNOWN or not isinstance(conf, list):
            r.unknown("C17.names", str(e.unique_id), "configuration list not statically known")
            continue
        bad = []
        for name in conf:
            n_names += 1
            if not isinstance(name, str):
                bad.append(repr(name))
            elif name not in e.attrs:
                bad.append(name)
        if bad:
            r.fail(
                "C17.names",
                "%s:%s" % (e.unique_id, ",".join(bad)),
                "rule %s lists %s in `configuration` but its constructor chain never assigns such an attribute: --output_configuration/-rc would raise AttributeError, "
                "and the name would not be accepted back" % (e.unique_id, ", ".join(bad)),
                e.ci.module.path,
            )
        else:
            r.ok("C17.names", str(e.unique_id), "%d names, all attributes" % len(conf), nontrivial=len(conf) > 7, sample=len(conf) > 9)
        if len(set(conf)) != len(conf):
            dup = sorted({x for x in conf if conf.count(x) > 1})
            r.note("rule %s lists %s twice in configuration (harmless)" % (e.unique_id, dup))
    if n_rules < 900:
        raise AnalysisError("only %d emitted rules" % n_rules)
    r.extra["rules_checked"] = n_rules
    r.extra["names_checked"] = n_names

    # --------------------------------------------------------------- sections
    gen = p.function("vsg.__main__:generate_output_configuration")
    outvar = None
    for n in walk_function(gen.node):
        if isinstance(n, ast.Call) and callee_text(n) == "json.dump" and n.args:
            outvar = norm(n.args[0])
    if outvar is None:
        raise AnalysisError("generate_output_configuration no longer dumps a dictionary with json.dump")
    assigns = {}
    for n in walk_function(gen.node):
        if isinstance(n, ast.Assign) and len(n.targets) == 1 and isinstance(n.targets[0], ast.Name):
            assigns.setdefault(n.targets[0].id, []).append(n.value)
    conf_names = {k for k, v in assigns.items() if any(norm(x) in ("oConfig.dConfig",) for x in v)}
    emitted = {}
    for n in walk_function(gen.node):
        if isinstance(n, ast.Assign):
            for t in n.targets:
                if isinstance(t, ast.Subscript) and norm(t.value) == outvar:
                    if isinstance(t.slice, ast.Constant):
                        emitted.setdefault(t.slice.value, []).append(n.value)
                    elif isinstance(t.slice, ast.Name):
                        # for sKey in [..]: out[sKey] = configuration[sKey]
                        loop = [x for x in _parents(n, gen.node) if isinstance(x, ast.For) and isinstance(x.target, ast.Name) and x.target.id == t.slice.id]
                        if loop and isinstance(loop[0].iter, (ast.List, ast.Tuple)):
                            for el in loop[0].iter.elts:
                                if isinstance(el, ast.Constant):
                                    same = isinstance(n.value, ast.Subscript) and norm(n.value.slice) == t.slice.id and norm(n.value.value) in conf_names
                                    emitted.setdefault(el.value, []).append(ast.parse("%s[%r]" % (norm(n.value.value), el.value), mode="eval").body if same else n.value)
    # nested stores out["pragma"]["patterns"] = ...
    for n in walk_function(gen.node):
        if isinstance(n, ast.Assign):
            for t in n.targets:
                if isinstance(t, ast.Subscript) and isinstance(t.value, ast.Subscript) and norm(t.value.value) == outvar and isinstance(t.value.slice, ast.Constant):
                    emitted.setdefault(t.value.slice.value, []).append(n.value)
        if isinstance(n, ast.Call) and isinstance(n.func, ast.Attribute) and n.func.attr == "append" and isinstance(n.func.value, ast.Subscript) and norm(n.func.value.value) == outvar and isinstance(n.func.value.slice, ast.Constant):
            emitted.setdefault(n.func.value.slice.value, []).append(n.args[0])
    consumed = _consumed_sections(p, ctx.callgraph())
    if len(consumed) < 6:
        raise AnalysisError("only %d consumed configuration sections recognised: %s" % (len(consumed), sorted(consumed)))
    r.extra["consumed_sections"] = {k: len(v) for k, v in sorted(consumed.items())}
    r.extra["emitted_sections"] = sorted(emitted)
    for sec in sorted(consumed):
        fi, node = consumed[sec][0]
        if sec in EXEMPT:
            r.ok("C17.sections", sec, "exempt: " + EXEMPT[sec], nontrivial=False)
            continue
        if sec not in emitted:
            r.fail(
                "C17.sections",
                sec + ":dropped",
                "section `%s` is consumed (%d site(s), e.g. %s) but --output_configuration never writes it: the emitted file does not reproduce the run" % (sec, len(consumed[sec]), fi.key),
                fi.loc(node),
            )
            continue
        # source of the emitted value
        srcs = [x for x in emitted[sec] if not (isinstance(x, (ast.Dict, ast.List)) and not getattr(x, "keys", getattr(x, "elts", None)))]
        faithful = False
        lossy = None
        for v in srcs:
            t = norm(v)
            names = {x.id for x in ast.walk(v) if isinstance(x, ast.Name)}
            if names & conf_names and ("[%r]" % sec) in t:
                faithful = True
            elif sec == "rule" and "get_configuration" in t:
                faithful = True
            elif names & {"commandLineArguments"}:
                # taken from the command line object: faithful only if config.update_command_line_arguments copies the section verbatim
                upd = p.function("vsg.config:update_command_line_arguments")
                verbatim = any(
                    isinstance(a, ast.Assign) and isinstance(a.targets[0], ast.Attribute) and isinstance(a.value, ast.Subscript) and norm(a.value.slice) == repr(sec)
                    or (isinstance(a, ast.Assign) and isinstance(a.targets[0], ast.Attribute) and isinstance(a.value, ast.Call) and repr(sec) in norm(a.value) and "expand_filename" in norm(a.value))
                    for a in walk_function(upd.node)
                )
                if verbatim:
                    faithful = True
                else:
                    lossy = t
            else:
                lossy = lossy or t
        if faithful:
            r.ok("C17.sections", sec, "emitted from the configuration (%s)" % "; ".join(norm(x) for x in srcs)[:120])
        else:
            r.fail(
                "C17.sections",
                sec + ":lossy",
                "section `%s` is emitted from `%s`, not from the configuration's own `%s` entry: structure stored under it (e.g. per-file rule settings) is lost" % (sec, lossy, sec),
                gen.loc(),
            )
    for sec in sorted(set(emitted) - set(consumed)):
        r.note("emitted but never consumed as a constant key: %s" % sec)
    # every section is emitted *whenever it is present*: the emission of one optional section must not be skipped because
    # another one is absent.  Optional sections are copied under a per-key guard; a handler that swallows the missing-key
    # error must therefore enclose exactly one emission - never a loop of emissions or several emissions in a row.
    stores = []
    for n in walk_function(gen.node):
        if isinstance(n, ast.Assign):
            for t in n.targets:
                b = t
                while isinstance(b, ast.Subscript):
                    b = b.value
                if isinstance(t, ast.Subscript) and norm(b) == outvar:
                    stores.append(n)
    for tr in [x for x in walk_function(gen.node) if isinstance(x, ast.Try)]:
        swallow = [h for h in tr.handlers if (h.type is None or any(w in norm(h.type) for w in ("KeyError", "Exception", "LookupError"))) and not any(isinstance(x, (ast.Raise, ast.Return)) or (isinstance(x, ast.Call) and callee_text(x) == "sys.exit") for x in ast.walk(h))]
        if not swallow:
            continue
        inside = [st for st in stores if any(st is y for b in tr.body for y in ast.walk(b))]
        loops = [x for b in tr.body for x in ast.walk(b) if isinstance(x, (ast.For, ast.While)) and any(st is y for st in inside for y in ast.walk(x))]
        kk = "emission-under-swallowed-error:%s" % norm(tr.body[0])[:50]
        if loops or len(inside) > 1:
            r.fail("C17.sections", kk, "%d section emission(s)%s share one try whose handler swallows the missing-key error: the first absent section aborts the rest, so sections that are configured are silently left out of the emitted file" % (len(inside), " in a loop" if loops else ""), gen.loc(tr))
        elif inside:
            r.ok("C17.sections", kk, "one emission per swallowing handler")
    r.ok("C17.sections", "per-key-guards", "%d emission statements; none can be skipped because a different section is absent" % len(stores))

    _encoding(r, p)
    _keyorder(r, p)
    return r


_CONFIG_BASES = ("dConfig", "dConfiguration", "configuration", "dStyle", "tempConfiguration", "configurationFile")


def _key_path(e):
    """(base text, keys) of a subscript chain; a non-constant key is '*'"""
    keys = []
    while isinstance(e, ast.Subscript):
        keys.append(e.slice.value if isinstance(e.slice, ast.Constant) and isinstance(e.slice.value, str) else "*")
        e = e.value
    return norm(e), tuple(reversed(keys))


def _path_match(a, b):
    return len(a) == len(b) and all(x == y or "*" in (x, y) for x, y in zip(a, b))


def _keyorder(r, p):
    """json.dump(..., sort_keys=True) re-orders every mapping of the emitted configuration.  A loop over a configuration
    mapping that can be left early (first match wins) makes behaviour depend on key order, which the emitted file
    does not keep.  Mapping or list is decided from the writers in vsg/ (what is stored at that key path), from a
    .keys()/.items() iterable, or from the loop variable being used as a key into the iterated expression."""
    emit = p.function("vsg.__main__:generate_output_configuration") if "vsg.__main__:generate_output_configuration" in p.functions else None
    sorts = any(isinstance(n, ast.keyword) and n.arg == "sort_keys" and isinstance(n.value, ast.Constant) and n.value.value is True for m in p.modules.values() if m.name == "vsg.__main__" for n in ast.walk(m.tree))
    if not sorts:
        r.ok("C17.keyorder", "emitter", "the emitter does not sort keys: mapping order is kept as configured")
        return
    # what vsg itself stores at configuration key paths
    kind = {}
    for fi in p.functions.values():
        if not fi.module.name.startswith("vsg.") or fi.module.name.startswith("vsg.rules"):
            continue
        for n in walk_function(fi.node):
            tgt = val = None
            if isinstance(n, ast.Assign) and len(n.targets) == 1 and isinstance(n.targets[0], ast.Subscript):
                tgt, val = n.targets[0], n.value
            elif isinstance(n, ast.Call) and isinstance(n.func, ast.Attribute) and n.func.attr == "setdefault" and len(n.args) == 2 and isinstance(n.func.value, ast.Subscript):
                tgt, val = ast.Subscript(value=n.func.value, slice=n.args[0], ctx=ast.Load()), n.args[1]
            if tgt is None:
                continue
            base, keys = _key_path(tgt)
            if len(keys) < 2 or not any(b in base for b in _CONFIG_BASES):
                continue
            if isinstance(val, ast.Dict) or (isinstance(val, ast.Call) and norm(val.func) == "dict"):
                kind.setdefault(keys, set()).add("dict")
            elif isinstance(val, (ast.List, ast.ListComp)) or (isinstance(val, ast.Call) and norm(val.func) == "list"):
                kind.setdefault(keys, set()).add("list")
    n_loops = n_map = 0
    for fi in sorted(p.functions.values(), key=lambda f: f.key):
        if not fi.module.name.startswith("vsg."):
            continue
        mentions = {x.id for x in ast.walk(fi.node) if isinstance(x, ast.Name)} | {x.attr for x in ast.walk(fi.node) if isinstance(x, ast.Attribute)}
        if not any(b in m for m in mentions for b in _CONFIG_BASES):
            continue
        for n in walk_function(fi.node):
            if not isinstance(n, ast.For):
                continue
            it = n.iter
            is_sorted = keyed = False
            while True:
                if isinstance(it, ast.Call) and isinstance(it.func, ast.Name) and it.func.id in ("list", "tuple", "sorted", "enumerate") and it.args:
                    is_sorted = is_sorted or it.func.id == "sorted"
                    it = it.args[0]
                elif isinstance(it, ast.Call) and isinstance(it.func, ast.Attribute) and it.func.attr in ("keys", "items", "values") and not it.args:
                    keyed = True
                    it = it.func.value
                else:
                    break
            try:
                full = ast.parse(expand_text(fi, it), mode="eval").body
            except SyntaxError:
                continue
            base, keys = _key_path(full)
            if not keys or not any(b in base for b in _CONFIG_BASES):
                continue
            n_loops += 1
            kinds = set()
            for k, v in kind.items():
                if _path_match(k, keys):
                    kinds |= v
            tnames = {x.id for x in ast.walk(n.target) if isinstance(x, ast.Name)}
            ittext = norm(full)
            for x in ast.walk(n):
                if isinstance(x, ast.Subscript) and isinstance(x.slice, ast.Name) and x.slice.id in tnames:
                    try:
                        if expand_text(fi, x.value) == ittext:
                            keyed = True
                    except Exception:
                        pass
            mapping = keyed or kinds == {"dict"}
            early = [x for x in ast.walk(n) if isinstance(x, (ast.Return, ast.Break)) and x is not n]
            kk = "%s:for-over:%s" % (fi.key, "".join("[%r]" % k for k in keys))
            if kinds == {"list"} and not keyed:
                r.ok("C17.keyorder", kk, "a list (stored as a list by vsg): order is part of the emitted value", sample=False)
                continue
            if mapping:
                n_map += 1
            if not early or is_sorted:
                r.ok("C17.keyorder", kk, "no first-match exit from the loop" if not early else "iterates in sorted order", sample=False)
            elif mapping:
                r.fail("C17.keyorder", kk, "a loop over the configuration mapping %s is left at the first match (`%s`): which entry wins depends on the key order, and the emitted configuration is written with its keys sorted - a file whose order differs behaves differently under its own emitted configuration" % (ittext[:60], norm(early[0])[:30]), fi.loc(early[0]))
            else:
                r.unknown("C17.keyorder", kk, "a loop over %s with a first-match exit; whether it is a mapping (order lost on emission) or a list could not be told from the writers" % ittext[:60])
    r.extra["configuration_loops"] = n_loops
    r.extra["configuration_mapping_loops"] = n_map
    if n_loops < 12 or n_map < 6:
        raise AnalysisError("only %d loops over configuration data (%d over mappings) found" % (n_loops, n_map))


def _parents(n, stop):
    out = []
    q = getattr(n, "_parent", None)
    while q is not None and q is not stop:
        out.append(q)
        q = getattr(q, "_parent", None)
    return out


def _encoding(r, p):
    gc = p.function("vsg.rule:Rule.get_configuration")
    loops = [n for n in walk_function(gc.node) if isinstance(n, ast.For)]
    ok = False
    if len(loops) == 1 and norm(loops[0].iter) == "self.configuration":
        v = loops[0].target.id
        for s in loops[0].body:
            if isinstance(s, ast.Assign) and isinstance(s.targets[0], ast.Subscript) and norm(s.targets[0].slice) == v and norm(s.value) == "getattr(self, %s)" % v:
                ok = True
    if ok:
        r.ok("C17.encoding", gc.key + ":names", "for name in self.configuration: out[name] = getattr(self, name)")
    else:
        r.fail("C17.encoding", gc.key + ":names", "get_configuration no longer emits exactly the names in self.configuration with their current attribute values", gc.loc())
    sev = [n for n in walk_function(gc.node) if isinstance(n, ast.Assign) and norm(n.targets[0]) == "dConfig['severity']"]
    if len(sev) == 1 and norm(sev[0].value) == "self.severity.name":
        r.ok("C17.encoding", gc.key + ":severity", "severity emitted by name")
    else:
        r.fail("C17.encoding", gc.key + ":severity", "severity is not emitted as its name (the readers resolve it by name)", gc.loc())
    for key in ("vsg.rule:configure_global_rule_attributes", "vsg.rule:configure_attribute", "vsg.rule:configure_rule_attributes"):
        fi = p.function(key)
        sevr = [n for n in walk_function(fi.node) if isinstance(n, ast.Assign) and norm(n.targets[0]) == "self.severity"]
        if len(sevr) == 1 and "severity_list.get_severity_named(" in expand_text(fi, sevr[0].value):
            f = Facts(fi.node)
            c = dict(f.conds_at(sevr[0]))
            if any(v and "== 'severity'" in k for k, v in c.items()):
                r.ok("C17.encoding", key + ":severity", "`severity` resolved by name through the severity list")
            else:
                r.fail("C17.encoding", key + ":severity", "severity assignment not under the `== 'severity'` branch", fi.loc(sevr[0]))
        else:
            r.fail("C17.encoding", key + ":severity", "reader does not resolve severity names through severity_list.get_severity_named", fi.loc())
        wr = [n for n in walk_function(fi.node) if isinstance(n, ast.Assign) and isinstance(n.targets[0], ast.Subscript) and norm(n.targets[0].value) == "self.__dict__"]
        if len(wr) == 1 and norm(wr[0].targets[0].slice) in expand_text(fi, wr[0].value) and "dConfig['rule']" in expand_text(fi, wr[0].value):
            r.ok("C17.encoding", key + ":write-back", "self.__dict__[name] = oConfig.dConfig['rule'][...][name]")
        else:
            r.fail("C17.encoding", key + ":write-back", "reader does not write the configured value back under the same name", fi.loc())
    # a rule that was never configured carries its own built-in severity object; the emitted file names it, and reading the
    # file back resolves the name through the list.  The two agree only if a name resolves to the *first* entry of that name
    # with the built-ins in front (a user section may re-declare `Error`): last-wins resolution changes the type on reload.
    gs = p.function("vsg.severity:create_list.get_severity_named")
    loops_ = [n for n in walk_function(gs.node) if isinstance(n, ast.For)]
    first = False
    if len(loops_) == 1 and norm(loops_[0].iter) == "self.lSeverities" and isinstance(loops_[0].target, ast.Name):
        el = loops_[0].target.id
        for x in ast.walk(loops_[0]):
            if isinstance(x, ast.If) and isinstance(x.test, ast.Compare) and len(x.test.ops) == 1 and isinstance(x.test.ops[0], ast.Eq) and {norm(x.test.left), norm(x.test.comparators[0])} == {gs.params[1], el + ".name"} and any(isinstance(y, ast.Return) and norm(y.value) == el for y in x.body):
                first = True
    if any(isinstance(n, (ast.Dict, ast.DictComp)) or (isinstance(n, ast.Call) and norm(n.func) in ("dict", "reversed")) for n in walk_function(gs.node)):
        first = False
    ini = p.function("vsg.severity:create_list.__init__")
    order = [(n.lineno, norm(n.func)) for n in walk_function(ini.node) if isinstance(n, ast.Call) and norm(n.func) in ("_add_built_in_severities", "_update_severities_from_configuration")]
    builtin_first = [x[1] for x in sorted(order)] == ["_add_built_in_severities", "_update_severities_from_configuration"]
    if first and builtin_first:
        r.ok("C17.encoding", gs.key + ":first-match", "a severity name resolves to the first entry of that name; built-ins are inserted first")
    else:
        r.fail("C17.encoding", gs.key + ":first-match", "a severity name no longer resolves to the first entry of the list with the built-ins in front: a rule that kept its built-in severity is emitted by name and comes back as a user re-declaration of that name (other type), so the emitted file does not reproduce the run", gs.loc())
    # deprecated rules skipped on emission
    rg = p.function("vsg.rule_list:rule_list.get_configuration")
    loops = [n for n in walk_function(rg.node) if isinstance(n, ast.For) and norm(n.iter) == "self.rules"]
    skipped = False
    keyed = False
    if loops:
        v = loops[0].target.id
        for s in loops[0].body:
            if isinstance(s, ast.If) and "deprecated" in norm(s.test) and s.body and isinstance(s.body[0], ast.Continue):
                skipped = True
            if isinstance(s, ast.Assign) and isinstance(s.targets[0], ast.Subscript) and norm(s.targets[0].slice) in ("%s.unique_id" % v, "%s.get_unique_id()" % v) and norm(s.value) == "%s.get_configuration()" % v:
                keyed = True
    if skipped:
        r.ok("C17.encoding", rg.key + ":deprecated-skipped", "deprecated rules are not emitted (naming one in a configuration is an error)")
    else:
        r.fail("C17.encoding", rg.key + ":deprecated-skipped", "deprecated rules are emitted: feeding the file back raises a configuration error", rg.loc())
    if keyed:
        r.ok("C17.encoding", rg.key + ":keyed-by-id", "out[rule id] = rule.get_configuration()")
    else:
        r.fail("C17.encoding", rg.key + ":keyed-by-id", "rule configurations are not keyed by the rule's unique id", rg.loc())
    # validation accepts what emission produces: every emitted key is a rule id in get_list_of_rule_names (same id form)
    names = p.function("vsg.rule_list:rule_list.get_list_of_rule_names")
    if any(isinstance(n, ast.Call) and norm(n.func).endswith(".get_unique_id") for n in walk_function(names.node)) or any(
        isinstance(n, ast.Attribute) and n.attr == "unique_id" for n in walk_function(names.node)
    ):
        r.ok("C17.encoding", names.key, "validation compares against the same unique ids that are emitted")
    else:
        r.fail("C17.encoding", names.key, "validation list is not built from rule unique ids", names.loc())


VARIANTS = [
    Variant("C17", "severity names resolved through a dictionary (last declaration wins)", "fire",
            [("vsg/severity.py", "        for oSeverity in self.lSeverities:\n            if sName == oSeverity.name:\n                return oSeverity\n        return None", "        dSeverities = {oSeverity.name: oSeverity for oSeverity in self.lSeverities}\n        return dSeverities.get(sName)")], rule="C17.encoding", key="first-match"),
    Variant("C17", "optional sections copied inside one try that swallows KeyError", "fire",
            [("vsg/__main__.py", "        for sKey in [\"file_rules\", \"linesep\", \"severity\", \"skip_phase\"]:\n            if sKey in configuration:\n                dOutputConfiguration[sKey] = configuration[sKey]\n", "        try:\n            for sKey in [\"file_rules\", \"linesep\", \"severity\", \"skip_phase\"]:\n                dOutputConfiguration[sKey] = configuration[sKey]\n        except KeyError:\n            pass\n")], rule="C17.sections"),
    Variant("C17", "twin: each optional section copied under its own try", "silent",
            [("vsg/__main__.py", "        for sKey in [\"file_rules\", \"linesep\", \"severity\", \"skip_phase\"]:\n            if sKey in configuration:\n                dOutputConfiguration[sKey] = configuration[sKey]\n", "        for sKey in [\"file_rules\", \"linesep\", \"severity\", \"skip_phase\"]:\n            try:\n                dOutputConfiguration[sKey] = configuration[sKey]\n            except KeyError:\n                pass\n")]),
    Variant("C17", "rule lists a misspelt configuration name", "fire",
            [("vsg/rules/token_case.py", '        self.configuration.append("case")', '        self.configuration.append("cases")')], rule="C17.names"),
    Variant("C17", "option removed from attributes but still listed", "fire",
            [("vsg/rules/blank_line_below_line_ending_with_token.py", "        self.style = ", "        self.style_ = ")], rule="C17.names"),
    Variant("C17", "-oc forgets pragma section", "fire",
            [("vsg/__main__.py", '        dOutputConfiguration["pragma"] = {}\n        dOutputConfiguration["pragma"]["patterns"] = configuration["pragma"]["patterns"]\n', "")],
            rule="C17.sections", key="pragma"),
    Variant("C17", "-oc forgets skip_phase again", "fire",
            [("vsg/__main__.py", '["file_rules", "linesep", "severity", "skip_phase"]', '["file_rules", "linesep", "severity"]')], rule="C17.sections", key="skip_phase"),
    Variant("C17", "new consumed section not emitted", "fire",
            [("vsg/apply_rules.py", '    tmpfile = f"{oVhdlFile.filename}.tmp"', '    tmpfile = f"{oVhdlFile.filename}.tmp"\n    bFinalNewline = dConfig.get("final_newline", True)')],
            rule="C17.sections", key="final_newline"),
    Variant("C17", "severity emitted as type", "fire",
            [("vsg/rule.py", '        dConfig["severity"] = self.severity.name', '        dConfig["severity"] = self.severity.type')], rule="C17.encoding", key="severity"),
    Variant("C17", "deprecated rules emitted", "fire",
            [("vsg/rule_list.py", "            if is_rule_deprecated(oRule):\n                continue\n            dConfiguration[oRule.unique_id]", "            dConfiguration[oRule.unique_id]")],
            rule="C17.encoding", key="deprecated"),
    Variant("C17", "pragma kinds tried in the key order of the configured mapping", "fire",
            [("vsg/vhdlFile/classify/pragma.py", "    if classify_open_pragmas(lObjects, dVars, configuration):\n        return True\n    if classify_close_pragmas(lObjects, dVars, configuration):\n        return True\n    if classify_single_pragmas(lObjects, dVars, configuration):\n        return True\n    return False", "    dKinds = {\"open\": classify_open_pragmas, \"close\": classify_close_pragmas, \"single\": classify_single_pragmas}\n    for sType in configuration.dConfig[\"pragma\"][\"regexp\"]:\n        if sType in dKinds and dKinds[sType](lObjects, dVars, configuration):\n            return True\n    return False")],
            rule="C17.keyorder", key="['pragma']['regexp']"),
    Variant("C17", "twin: pragma kinds tried in sorted key order", "silent",
            [("vsg/vhdlFile/classify/pragma.py", "    if classify_open_pragmas(lObjects, dVars, configuration):\n        return True\n    if classify_close_pragmas(lObjects, dVars, configuration):\n        return True\n    if classify_single_pragmas(lObjects, dVars, configuration):\n        return True\n    return False", "    dKinds = {\"open\": classify_open_pragmas, \"close\": classify_close_pragmas, \"single\": classify_single_pragmas}\n    for sType in sorted(configuration.dConfig[\"pragma\"][\"regexp\"]):\n        if sType in dKinds and dKinds[sType](lObjects, dVars, configuration):\n            return True\n    return False")]),
    Variant("C17", "twin: a rule gains a properly declared option", "silent",
            [("vsg/rules/token_case.py", '        self.configuration.append("case")', '        self.configuration.append("case")\n        self.strict = False\n        self.configuration.append("strict")')]),
]
