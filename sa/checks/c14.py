# -*- coding: utf-8 -*-
"""
C14 - exit status and every report format tell the same story.

  C14.walkers   the three walkers over rule.violations (stdout formats through Rule.get_violations,
                JSON, JUnit) iterate the same domain (self.rules x rule.violations), take rule id,
                line, solution and severity from the same sources, and apply no filter other than
                the documented error-type filter of JUnit.
  C14.counts    total_violations is len() of the very list that is printed; per-severity counters
                are incremented once per listed entry, keyed by that entry's severity name.
  C14.exit      every return of apply_rules: error handlers return a truthy constant, the normal
                path returns rule_list.violations computed by the check that follows the fix;
                main folds all per-file statuses with `or`, appends each result before any break,
                and ends in sys.exit(status).
  C14.type      consumers that decide "is this an error" key on the severity *type*, like the exit
                status and JUnit do, never on the built-in name "Error" (a user-defined error-type
                severity must behave like Error: docs/rule_severity.rst).
Does not decide: text layout, XML escaping, sorting stability.
"""

import ast

from ..flow import Facts, callee_text
from ..model import AnalysisError, norm, walk_function
from ..report import Result
from ..selftest import Variant

LEVEL = "other"
META = {
    "technique": "static analysis: sibling cross-check of the three report walkers (iteration domain, field provenance, filters), def-use of counters, enumeration of every return/exit path of apply_rules and main, name-vs-type comparison lint; must-not-be-dominated check of report producers against the exit-status flag",
    "level_text": "Decides that the stdout, JSON and JUnit producers are projections of one set by construction: same iteration domain, same field "
    "sources, only the documented JUnit filter; counts are len()/increments over the printed list; exit status flows from error-type counts "
    "through apply_rules to sys.exit on every path. Flags consumers that key on the severity name instead of its type.",
    "level_note": "Trusted base: CPython ast, the analyser. Not decided: formatting, XML escaping, quality-report fingerprint stability.",
}


def _parents(n, stop):
    out = []
    p = getattr(n, "_parent", None)
    while p is not None and p is not stop:
        out.append(p)
        p = getattr(p, "_parent", None)
    return out


ID_FORMS = ("{r}.unique_id", "{r}.get_unique_id()", "{r}.name + '_' + {r}.identifier")


def _classify_field(text, rvar, vvar):
    """Map a value expression to the abstract field it carries."""
    t = text
    for wrap in ("str(", "int("):
        if t.startswith(wrap) and t.endswith(")"):
            t = t[len(wrap) : -1]
    for f in ID_FORMS:
        if t == f.format(r=rvar):
            return "id"
    if vvar and t in ("%s.get_line_number()" % vvar, "utils.get_violation_line_number(%s)" % vvar, "%s.iLine" % vvar):
        return "line"
    if vvar and t in ("%s.get_solution()" % vvar, "%s.sSolution" % vvar):
        return "solution"
    if t == "%s.severity.name" % rvar:
        return "severity.name"
    if t == "%s.severity.type" % rvar:
        return "severity.type"
    return None


def _benign_filter(test_text, rvar):
    return test_text in (
        "%s.has_violations()" % rvar,
        "%s.has_violations" % rvar,
        "len(%s.violations) > 0" % rvar,
        "len(%s.violations) != 0" % rvar,
        "%s.violations" % rvar,
    )


def _error_filter(test_text, rvar):
    return test_text.replace(" ", "") in (
        "%s.severity.type==severity.error_type" % rvar,
        "severity.error_type==%s.severity.type" % rvar,
    )


def run(ctx):
    p = ctx.program
    cg = ctx.callgraph()
    r = Result("C14")
    r.rule("C14.walkers", "stdout/JSON/JUnit walkers: same domain, same field sources, only the documented JUnit error-type filter")
    r.rule("C14.counts", "total = len(printed list); severity counters +1 per printed entry by its severity name")
    r.rule("C14.exit", "exit status: truthy constant in error handlers, rule_list.violations otherwise, or-folded over all files, sys.exit on every path")
    r.rule("C14.gate", "what a report format contains is never gated by the exit-status flag: the producers of the stdout, JSON and JUnit content in apply_rules run whatever rule_list.violations says (it is set by error-type violations only)")
    r.rule("C14.type", "error-ness is decided by severity type, never by the name 'Error'")
    r.explanation = (
        "Each walker's loops, guards and stored expressions are extracted from the AST and mapped to abstract fields "
        "(id, line, solution, severity); the three walkers are compared as siblings. Counters and exit-status dataflow are checked by "
        "def-use and structured-flow dominance in rule_list.report_violations, apply_rules.apply_rules and __main__.main."
    )
    rl = p.cls("vsg.rule_list:rule_list")
    fields = {}

    # ---------------- walker 1: report_violations via Rule.get_violations -> _build_violation_dict...
    rep = p.function("vsg.rule_list:rule_list.report_violations")
    getv = p.function("vsg.rule:Rule.get_violations")
    build = p.function("vsg.rule:Rule._build_violation_dict_from_violation_object")
    # domain of get_violations
    loops = [n for n in walk_function(getv.node) if isinstance(n, ast.For)]
    if len(loops) != 1 or norm(loops[0].iter) != "self.violations":
        r.fail("C14.walkers", getv.key + ":domain", "Rule.get_violations does not iterate self.violations", getv.loc())
    else:
        conds = [x for x in _parents_of_calls(loops[0], "append") if isinstance(x, ast.If)]
        if conds:
            r.fail("C14.walkers", getv.key + ":filter", "Rule.get_violations filters violations under `%s`" % norm(conds[0].test), getv.loc(conds[0]))
        else:
            r.ok("C14.walkers", getv.key + ":domain", "for v in self.violations, unfiltered")
    f1 = {}
    vparam = build.params[1] if len(build.params) > 1 else None
    for n in walk_function(build.node):
        if isinstance(n, ast.Assign) and isinstance(n.targets[0], ast.Subscript) and not isinstance(n.value, ast.Dict):
            keytext = norm(n.targets[0])
            c = _classify_field(norm(n.value), "self", vparam)
            f1[keytext] = (c, norm(n.value), n)
    fields["stdout"] = f1
    # report_violations loop over self.rules
    _walker_domain(r, rep, "stdout")

    # ---------------- walker 2: JSON
    js = p.function("vsg.rule_list:rule_list.extract_violation_dictionary")
    f2 = {}
    rvar, vvar = _walker_domain(r, js, "json")
    for n in walk_function(js.node):
        if isinstance(n, ast.Assign) and isinstance(n.targets[0], ast.Subscript) and not isinstance(n.value, (ast.Dict, ast.List)):
            c = _classify_field(norm(n.value), rvar or "oRule", vvar)
            f2[norm(n.targets[0])] = (c, norm(n.value), n)
    fields["json"] = f2

    # ---------------- walker 3: JUnit
    ju = p.function("vsg.rule_list:rule_list.extract_junit_testcase")
    rvar3, vvar3 = _walker_domain(r, ju, "junit", allow_error_filter=True)
    f3 = {}
    parts = []
    for n in walk_function(ju.node):
        if isinstance(n, (ast.Assign, ast.AugAssign)) and isinstance(getattr(n, "target", None) or n.targets[0], ast.Name):
            tgt = (n.target if isinstance(n, ast.AugAssign) else n.targets[0]).id
            if tgt == "sLine":
                parts.extend(_concat_parts(n.value))
    # recognise the id form spelled as a concatenation: <r>.name + '_' + <r>.identifier
    rv = rvar3 or "oRule"
    i = 0
    merged = []
    while i < len(parts):
        if (
            i + 2 < len(parts)
            and norm(parts[i]) == rv + ".name"
            and isinstance(parts[i + 1], ast.Constant)
            and parts[i + 1].value == "_"
            and norm(parts[i + 2]) == rv + ".identifier"
        ):
            merged.append(ast.parse("%s.name + '_' + %s.identifier" % (rv, rv), mode="eval").body)
            i += 3
        else:
            merged.append(parts[i])
            i += 1
    for e in merged:
        if isinstance(e, ast.Constant):
            continue
        c = _classify_field(norm(e), rvar3 or "oRule", vvar3)
        if not hasattr(e, "lineno"):
            e.lineno = ju.node.lineno
        f3[norm(e)] = (c, norm(e), e)
    fields["junit"] = f3

    # ---------------- field provenance verdicts
    need = {"stdout": {"id", "line", "solution", "severity.name", "severity.type"}, "json": {"id", "line", "solution", "severity.name"}, "junit": {"id", "line", "solution"}}
    owner = {"stdout": build, "json": js, "junit": ju}
    for w, fs in fields.items():
        got = set()
        for k, (c, text, node) in fs.items():
            kk = "%s:%s:%s" % (owner[w].key, w, k)
            if c is None:
                # only expressions that mention the rule or violation matter
                r.fail("C14.walkers", kk, "%s report takes a field from `%s`, which is not one of the agreed sources (unique id, get_line_number(), get_solution(), rule.severity)" % (w, text), owner[w].loc(node))
            else:
                got.add(c)
                r.ok("C14.walkers", kk, "%s <- %s" % (c, text))
        missing = need[w] - got
        if missing:
            r.fail("C14.walkers", "%s:%s:missing" % (owner[w].key, w), "%s report no longer carries %s" % (w, ", ".join(sorted(missing))), owner[w].loc())

    # unique id forms are equal: Rule.__init__ builds unique_id = str(name) + "_" + str(identifier), get_unique_id = name + "_" + identifier
    init = p.function("vsg.rule:Rule.__init__")
    uid = [n for n in walk_function(init.node) if isinstance(n, ast.Assign) and norm(n.targets[0]) == "self.unique_id"]
    gu = p.function("vsg.rule:Rule.get_unique_id")
    rets = [n for n in walk_function(gu.node) if isinstance(n, ast.Return)]
    ok_uid = len(uid) == 1 and norm(uid[0].value).replace("str(", "").replace(")", "") == "self.name + '_' + self.identifier"
    ok_gu = len(rets) == 1 and norm(rets[0].value) == "self.name + '_' + self.identifier"
    if ok_uid and ok_gu:
        r.ok("C14.walkers", "rule-id-forms-agree", "unique_id == get_unique_id() == name + '_' + identifier")
    else:
        r.fail("C14.walkers", "rule-id-forms-agree", "the rule id forms used by the different reports are no longer provably equal", init.loc())
    # writers of unique_id/name/identifier after construction
    for fi in p.functions.values():
        if fi.name == "__init__":
            continue
        for n in walk_function(fi.node):
            if isinstance(n, ast.Assign):
                for t in n.targets:
                    if isinstance(t, ast.Attribute) and t.attr in ("unique_id", "identifier") and fi.module.name.startswith(("vsg.rule", "vsg.apply", "vsg.__main__")):
                        r.fail("C14.walkers", fi.key + ":rewrites-" + t.attr, "rule identity rewritten after construction", fi.loc(n))

    _counts(r, rep)
    _exit(r, p, cg)
    _type(r, p)
    _gate(r, p)
    return r


def _parents_of_calls(loop, attr):
    out = []
    for n in ast.walk(loop):
        if isinstance(n, ast.Call) and isinstance(n.func, ast.Attribute) and n.func.attr == attr:
            out.extend(_parents(n, loop))
    return out


def _concat_parts(e):
    if isinstance(e, ast.BinOp) and isinstance(e.op, ast.Add):
        return _concat_parts(e.left) + _concat_parts(e.right)
    return [e]


def _walker_domain(r, fi, label, allow_error_filter=False):
    """Check: outer loop over self.rules, guards benign, inner loop over <rule>.violations (or get_violations())."""
    K = fi.key
    outer = [n for n in walk_function(fi.node) if isinstance(n, ast.For) and norm(n.iter) == "self.rules"]
    if len(outer) != 1:
        r.fail("C14.walkers", K + ":domain", "%s walker does not iterate self.rules exactly once" % label, fi.loc())
        return None, None
    o = outer[0]
    rvar = o.target.id if isinstance(o.target, ast.Name) else None
    inner = [n for n in ast.walk(o) if isinstance(n, ast.For) and n is not o and norm(n.iter) == "%s.violations" % rvar]
    getcalls = [n for n in ast.walk(o) if isinstance(n, ast.Call) and norm(n.func) == "%s.get_violations" % rvar]
    vvar = None
    site = None
    if inner:
        vvar = inner[0].target.id if isinstance(inner[0].target, ast.Name) else None
        site = inner[0]
    elif getcalls:
        site = getcalls[0]
    else:
        r.fail("C14.walkers", K + ":domain", "%s walker does not visit %s.violations" % (label, rvar), fi.loc(o))
        return rvar, None
    guards = [x for x in _parents(site, o) if isinstance(x, ast.If)]
    if inner:
        guards += [x for n in ast.walk(inner[0]) for x in ([n] if isinstance(n, ast.If) else [])]
    bad = False
    saw_error_filter = False
    for g in guards:
        tests = g.test.values if isinstance(g.test, ast.BoolOp) and isinstance(g.test.op, ast.And) else [g.test]
        for t in tests:
            tt = norm(t)
            if _benign_filter(tt, rvar):
                continue
            if _error_filter(tt, rvar):
                saw_error_filter = True
                if allow_error_filter:
                    continue
                bad = True
                r.fail("C14.walkers", K + ":filter:" + tt, "%s report filters on error type, which only JUnit documents" % label, fi.loc(g))
                continue
            bad = True
            r.fail("C14.walkers", K + ":filter:" + tt, "%s report drops violations under an undocumented condition `%s`" % (label, tt), fi.loc(g))
    if allow_error_filter and not saw_error_filter:
        bad = True
        r.fail("C14.walkers", K + ":junit-error-filter", "JUnit no longer restricts itself to error-type severities (documented filter)", fi.loc(o))
    # continue/break inside the loops would also drop entries
    for n in ast.walk(o):
        if isinstance(n, (ast.Break, ast.Continue)):
            bad = True
            r.fail("C14.walkers", K + ":loop-exit", "%s walker leaves its loop early" % label, fi.loc(n))
    if not bad:
        r.ok("C14.walkers", K + ":domain", "self.rules x %s.violations%s" % (rvar, " (error-type only, documented)" if allow_error_filter else ""))
    return rvar, vvar


def _gate(r, p):
    """rule_list.violations is the exit-status flag (check_rules sets it for error-type violations only).  A file whose
    violations are all warnings has the flag False and still has report content: a producer of report content that is
    dominated by a test of the flag - in apply_rules or in a helper it calls, together with the call site's guards -
    leaves the warnings out of one format while the others list them."""
    import re as _re

    PRODUCERS = ("extract_violation_dictionary", "report_violations", "extract_junit_testcase")
    mod = [fi for fi in p.functions.values() if fi.module.name == "vsg.apply_rules"]
    n_prod = 0

    def flag_guard(fi, node):
        f = Facts(fi.node)
        return [t for t, pol in f.conds_at(node) if _re.search(r"\.violations\b(?!\[)", t) or _re.search(r"\bfExitStatus\b", t)]

    for fi in sorted(mod, key=lambda f: f.key):
        for n in walk_function(fi.node):
            if isinstance(n, ast.Call) and isinstance(n.func, ast.Attribute) and n.func.attr in PRODUCERS:
                n_prod += 1
                bad = flag_guard(fi, n)
                # guards at the call sites of the helper that contains the producer
                for g in mod:
                    for c in walk_function(g.node):
                        if isinstance(c, ast.Call) and isinstance(c.func, ast.Name) and c.func.id == fi.name and g is not fi:
                            bad += flag_guard(g, c)
                kk = "%s:%s" % (fi.key, n.func.attr)
                if bad:
                    r.fail("C14.gate", kk, "%s() runs only under `%s`, a test of the exit-status flag: a file with warning-type violations only (flag False) gets no entries in this format while the other formats list them" % (n.func.attr, bad[0][:60]), fi.loc(n))
                else:
                    r.ok("C14.gate", kk, "not dominated by a test of the exit-status flag")
    if n_prod < 3:
        raise AnalysisError("only %d report producers found in vsg.apply_rules" % n_prod)


def _counts(r, rep):
    K = rep.key
    tv = [n for n in walk_function(rep.node) if isinstance(n, ast.Assign) and norm(n.targets[0]) == "dRunInfo['total_violations']"]
    # the printed list / the counter dictionary may be built in a local that is stored into dRunInfo as it is
    list_names = {"dRunInfo['violations']"} | {n.value.id for n in walk_function(rep.node) if isinstance(n, ast.Assign) and norm(n.targets[0]) == "dRunInfo['violations']" and isinstance(n.value, ast.Name)}
    sev_names = {"dRunInfo['severities']"} | {n.value.id for n in walk_function(rep.node) if isinstance(n, ast.Assign) and norm(n.targets[0]) == "dRunInfo['severities']" and isinstance(n.value, ast.Name)}
    if len(tv) != 1:
        r.fail("C14.counts", K + ":total", "total_violations assigned %d times" % len(tv), rep.loc())
    elif norm(tv[0].value) not in {"len(%s)" % x for x in list_names}:
        r.fail("C14.counts", K + ":total", "total_violations = %s is not the length of the printed list" % norm(tv[0].value), rep.loc(tv[0]))
    else:
        facts = Facts(rep.node)
        # the list must not be extended after the count: no call dRunInfo['violations'].extend/append dominated by... check syntactically by line order in straight-line code
        later = [n for n in walk_function(rep.node) if isinstance(n, ast.Call) and isinstance(n.func, ast.Attribute) and norm(n.func.value) in list_names and n.lineno > tv[0].lineno]
        later += [n for n in walk_function(rep.node) if isinstance(n, ast.Assign) and norm(n.targets[0]) in list_names and n.lineno > tv[0].lineno and not (isinstance(n.value, ast.Name) and n.value.id in list_names)]
        if later:
            r.fail("C14.counts", K + ":total-stale", "the violation list changes after it was counted", rep.loc(later[0]))
        else:
            r.ok("C14.counts", K + ":total", "len(dRunInfo['violations']) taken after the list is final")
    # severity counters: either inline on dRunInfo['severities'] over dRunInfo['violations'], or in a helper that is handed
    # the printed list and whose result is stored as dRunInfo['severities']
    cfi, D, domain = rep, "dRunInfo['severities']", "dRunInfo['violations']"
    for n in walk_function(rep.node):
        if isinstance(n, ast.Assign) and norm(n.targets[0]) == "dRunInfo['severities']" and isinstance(n.value, ast.Call) and len(n.value.args) == 1 and norm(n.value.args[0]) == "dRunInfo['violations']" and isinstance(n.value.func, ast.Attribute) and norm(n.value.func.value) == "self":
            h = rep.cls.find_method(n.value.func.attr) if rep.cls is not None else None
            rets = [x for x in walk_function(h.node) if isinstance(x, ast.Return)] if h is not None else []
            if h is not None and len(rets) == 1 and isinstance(rets[0].value, ast.Name) and len(h.params) == 2:
                cfi, D, domain = h, rets[0].value.id, h.params[1]
    incs = []
    Dset = sev_names if cfi is rep else {D}
    domset = list_names if cfi is rep else {domain}
    for n in walk_function(cfi.node):
        if isinstance(n, ast.Assign) and isinstance(n.targets[0], ast.Subscript) and norm(n.targets[0].value) in Dset:
            incs.append(n)
            D = norm(n.targets[0].value)
    inc = [n for n in incs if not (isinstance(n.value, ast.Constant) and n.value.value == 0)]
    zero = [n for n in incs if isinstance(n.value, ast.Constant) and n.value.value == 0]
    if not zero:
        r.fail("C14.counts", K + ":severity-init", "severity counters are not initialised to 0", cfi.loc())
    if len(inc) != 1:
        r.fail("C14.counts", K + ":severity-inc", "expected one severity counter increment, found %d" % len(inc), cfi.loc())
        return
    n = inc[0]
    loop = [x for x in _parents(n, cfi.node) if isinstance(x, ast.For)]
    keyt = norm(n.targets[0].slice)
    want_val = "%s[%s] + 1" % (D, keyt)
    ok = loop and norm(loop[0].iter) in domset and norm(n.value) in (want_val, "1 + %s[%s]" % (D, keyt))
    guards = [x for x in _parents(n, cfi.node) if isinstance(x, ast.If)]
    if not ok or guards:
        r.fail("C14.counts", K + ":severity-inc", "severity counter `%s = %s` is not +1 per entry of the printed list" % (norm(n.targets[0]), norm(n.value)), cfi.loc(n))
        return
    # key derived from the entry's severity name
    v = loop[0].target.id
    src = None
    for s in loop[0].body:
        if isinstance(s, ast.Assign) and norm(s.targets[0]) == keyt:
            src = norm(s.value)
    if src == "%s['severity']['name']" % v or keyt == "%s['severity']['name']" % v:
        r.ok("C14.counts", K + ":severity-inc", "+1 per printed entry keyed by its severity name")
    else:
        r.fail("C14.counts", K + ":severity-key", "severity counter keyed by %s, not by the entry's severity name" % (src or keyt), cfi.loc(n))


def _exit(r, p, cg):
    from ..model import inline_helpers

    # result tuples may be built by a helper of the module (`return build_result(...)`): decide on the inlined view
    ar = inline_helpers(p, p.function("vsg.apply_rules:apply_rules"), toward={"write_vhdl_file", "create_backup_file"})
    facts = Facts(ar.node)
    rets = [n for n in walk_function(ar.node) if isinstance(n, ast.Return)]
    if len(rets) < 3:
        raise AnalysisError("apply_rules has %d returns (expected >= 3)" % len(rets))
    for n in rets:
        if not isinstance(n.value, ast.Tuple) or not n.value.elts:
            r.fail("C14.exit", ar.key + ":return-shape", "apply_rules returns %s" % norm(n.value), ar.loc(n))
            continue
        first = n.value.elts[0]
        hs = facts.in_handler(n)
        kk = "%s:return@%s" % (ar.key, "handler:" + hs[0] if hs else "normal")
        val = first
        if isinstance(first, ast.Name):
            # last assignment in the same block chain
            cands = [a for a in walk_function(ar.node) if isinstance(a, ast.Assign) and norm(a.targets[0]) == first.id and a.lineno < n.lineno]
            blk = set(id(x) for x in _parents(n, ar.node))
            cands = [a for a in cands if id(getattr(a, "_parent", None)) in blk or getattr(a, "_parent", None) is ar.node]
            if cands:
                val = cands[-1].value
        if hs:
            if isinstance(val, ast.Constant) and bool(val.value):
                r.ok("C14.exit", kk, "processing error -> status %r" % val.value)
            else:
                r.fail("C14.exit", kk, "a processing error returns status %s (must be truthy: the run failed)" % norm(val), ar.loc(n))
        else:
            if norm(val) == "oRules.violations":
                f = facts.facts_at(n)
                if ("call", "oRules.check_rules") in f:
                    r.ok("C14.exit", kk, "status = oRules.violations after check_rules")
                else:
                    r.fail("C14.exit", kk, "status read before the final check_rules", ar.loc(n))
            else:
                r.fail("C14.exit", kk, "normal path returns status %s, not the error-type violation flag of the final check" % norm(val), ar.loc(n))
    # the flag returned as status must describe ALL phases analysed: it is set from error-type counts and stays set
    from . import c13 as _c13

    chk_fi = p.function("vsg.rule_list:rule_list.check_rules")
    scratch = Result("C13")
    try:
        cph, csb = _c13._loop_info(scratch, chk_fi, "check")
        _c13._gate(scratch, p, chk_fi, cph, csb)
    except AnalysisError:
        raise
    relevant = [f for f in scratch.findings if any(t in f.key for t in ("violations-not-sticky", "violations-from-failures", "failure-count", "violations-reset-in-loop"))]
    for f in relevant:
        r.fail("C14.exit", f.key, "exit status source rule_list.violations: " + f.message, f.loc)
    if not relevant:
        r.ok("C14.exit", chk_fi.key + ":status-flag", "rule_list.violations is set from error-type violation counts and is never cleared once a phase failed")
    # report and status from the same check: report_violations dominated by check_rules and clear_violations
    for n in walk_function(ar.node):
        if isinstance(n, ast.Call) and callee_text(n) in ("oRules.report_violations", "oRules.extract_junit_testcase", "oRules.extract_violation_dictionary"):
            f = facts.facts_at(n)
            kk = "%s:%s-after-check" % (ar.key, callee_text(n))
            if ("call", "oRules.check_rules") in f and ("call", "oRules.clear_violations") in f:
                r.ok("C14.exit", kk)
            else:
                r.fail("C14.exit", kk, "%s is not dominated by clear_violations + check_rules: it could report stale violations" % callee_text(n), ar.loc(n))
    chk = [n for n in walk_function(ar.node) if isinstance(n, ast.Call) and callee_text(n) == "oRules.check_rules"]
    for n in chk:
        if ("call", "oRules.clear_violations") not in facts.facts_at(n):
            r.fail("C14.exit", ar.key + ":clear-before-check", "final check_rules not preceded by clear_violations", ar.loc(n))
    # main
    from ..model import inline_helpers

    # the per-file record / print block may live in a helper of __main__ (extract-function refactoring)
    main = inline_helpers(p, p.function("vsg.__main__:main"), toward={"print"})
    mf = Facts(main.node)
    exits = [n for n in walk_function(main.node) if isinstance(n, ast.Call) and callee_text(n) == "sys.exit"]
    if not exits:
        r.fail("C14.exit", main.key + ":sys.exit", "main never calls sys.exit", main.loc())
    last = main.node.body[-1]
    if isinstance(last, ast.Expr) and isinstance(last.value, ast.Call) and callee_text(last.value) == "sys.exit" and last.value.args and norm(last.value.args[0]) == "fExitStatus":
        r.ok("C14.exit", main.key + ":sys.exit", "main ends in sys.exit(fExitStatus)")
    else:
        r.fail("C14.exit", main.key + ":sys.exit", "main does not end in sys.exit(fExitStatus)", main.loc(last))
    folds = [n for n in walk_function(main.node) if isinstance(n, ast.Assign) and norm(n.targets[0]) == "fExitStatus" and not isinstance(n.value, ast.Constant)]
    if len(folds) != 1 or norm(folds[0].value) not in ("fExitStatus or fStatus", "fStatus or fExitStatus"):
        r.fail("C14.exit", main.key + ":fold", "exit status is not the or-fold of all per-file statuses: %s" % (norm(folds[0]) if folds else "no fold"), main.loc())
    else:
        loop = [x for x in _parents(folds[0], main.node) if isinstance(x, ast.For)]
        g = [x for x in _parents(folds[0], main.node) if isinstance(x, ast.If)]
        if loop and norm(loop[0].iter) == "lReturn" and not g:
            r.ok("C14.exit", main.key + ":fold", "for every entry of lReturn: status = status or fStatus")
        else:
            r.fail("C14.exit", main.key + ":fold", "the or-fold is conditional or not over all results", main.loc(folds[0]))
    # every break is dominated (within its iteration) by lReturn.append
    for n in walk_function(main.node):
        if isinstance(n, ast.Break):
            if ("call", "lReturn.append") in mf.facts_at(n):
                r.ok("C14.exit", main.key + ":append-before-break@%d" % len([0 for s in r.samples]), "result recorded before leaving the file loop", sample=False)
            else:
                r.fail("C14.exit", main.key + ":append-before-break", "a file's status can be dropped: break not dominated by lReturn.append", main.loc(n))
    appends = [n for n in walk_function(main.node) if isinstance(n, ast.Call) and callee_text(n) == "lReturn.append"]
    for a in appends:
        if not (a.args and isinstance(a.args[0], ast.Tuple) and a.args[0].elts and norm(a.args[0].elts[0]) == "fStatus"):
            r.fail("C14.exit", main.key + ":append-shape", "lReturn.append(%s) does not record the file status first" % norm(a.args[0]) if a.args else "", main.loc(a))
        guards = [x for x in _parents(a, main.node) if isinstance(x, ast.If) and "fStatus" in norm(x.test)]
        if guards:
            r.fail("C14.exit", main.key + ":append-guarded", "result recorded only under `%s`" % norm(guards[0].test), main.loc(a))


def _type(r, p):
    """Comparisons against / lookups by the literal severity name "Error" in code that decides error-ness."""
    n_sites = 0
    for fi in p.functions.values():
        mn = fi.module.name
        if not (mn.startswith("vsg.report") or mn in ("vsg.rule_list", "vsg.apply_rules", "vsg.__main__", "vsg.junit", "vsg.utils", "vsg.rule")):
            continue
        for n in walk_function(fi.node):
            hit = None
            if isinstance(n, ast.Compare) and any(isinstance(c, ast.Constant) and c.value in ("Error", "Warning") for c in [n.left] + n.comparators):
                other = [c for c in [n.left] + n.comparators if not isinstance(c, ast.Constant)]
                if other and isinstance(other[0], ast.Subscript) and isinstance(other[0].slice, ast.Constant) and other[0].slice.value in ("Error", "Warning"):
                    continue  # counted below as a subscript
                hit = n
            elif isinstance(n, ast.Subscript) and isinstance(n.slice, ast.Constant) and n.slice.value in ("Error",) and isinstance(n.ctx, ast.Load):
                par = getattr(n, "_parent", None)
                if isinstance(par, ast.Compare):
                    hit = par
            if hit is not None:
                n_sites += 1
                r.fail(
                    "C14.type",
                    "%s:%s" % (fi.key, norm(hit)),
                    "error-ness decided by the severity *name* 'Error' (`%s`); exit status and JUnit use the severity type, so a user-defined error-type severity makes this output disagree with them" % norm(hit),
                    fi.loc(hit),
                )
    if n_sites == 0:
        r.ok("C14.type", "no-name-keyed-decisions", "no comparison with the literal name 'Error' in report/exit code")


_RL = "vsg/rule_list.py"
VARIANTS = [
    Variant("C14", "JSON entry filled only when the exit-status flag is set", "fire",
            [("vsg/apply_rules.py", "        dJsonEntry[\"violations\"] = oRules.extract_violation_dictionary()[\"violations\"]", "        dJsonEntry[\"violations\"] = []\n        if oRules.violations:\n            dJsonEntry[\"violations\"] = oRules.extract_violation_dictionary()[\"violations\"]")],
            rule="C14.gate", key="extract_violation_dictionary"),
    Variant("C14", "twin: JSON request flag held in a local", "silent",
            [("vsg/apply_rules.py", "    if commandLineArguments.json or commandLineArguments.quality_report:\n        dJsonEntry[\"file_path\"] = sFileName", "    bWantJson = commandLineArguments.json or commandLineArguments.quality_report\n    if bWantJson:\n        dJsonEntry[\"file_path\"] = sFileName")]),
    Variant("C14", "JSON skips warnings", "fire",
            [(_RL, "            if oRule.has_violations:\n                for oViolation in oRule.violations:", "            if oRule.has_violations and oRule.severity.type == severity.error_type:\n                for oViolation in oRule.violations:")],
            rule="C14.walkers", key="extract_violation_dictionary"),
    Variant("C14", "JSON line from start index", "fire",
            [(_RL, '                    dTemp["linenumber"] = oViolation.get_line_number()', '                    dTemp["linenumber"] = oViolation.get_start_index()')],
            rule="C14.walkers", key="linenumber"),
    Variant("C14", "JUnit includes warnings", "fire",
            [(_RL, "            if len(oRule.violations) > 0 and oRule.severity.type == severity.error_type:", "            if len(oRule.violations) > 0:")],
            rule="C14.walkers", key="junit-error-filter"),
    Variant("C14", "total counted before extend", "fire",
            [(_RL, '        dRunInfo["total_violations"] = len(dRunInfo["violations"])', '        dRunInfo["total_violations"] = self.iNumberRulesRan')],
            rule="C14.counts", key="total"),
    Variant("C14", "config error returns falsy status", "fire",
            [("vsg/apply_rules.py", '    except ConfigurationError as e:\n        fExitStatus = True', '    except ConfigurationError as e:\n        fExitStatus = False')],
            rule="C14.exit", key="handler:ConfigurationError"),
    Variant("C14", "status of last file only", "fire",
            [("vsg/__main__.py", "        fExitStatus = fExitStatus or fStatus", "        fExitStatus = fStatus")], rule="C14.exit", key="fold"),
    Variant("C14", "break before recording the result", "fire",
            [("vsg/__main__.py", "                fStatus, testCase, dJsonEntry, sOutputStd, sOutputErr, bKeepProcessingFiles = tResult\n                lReturn.append((fStatus, testCase, dJsonEntry))\n",
              "                fStatus, testCase, dJsonEntry, sOutputStd, sOutputErr, bKeepProcessingFiles = tResult\n                if bKeepProcessingFiles:\n                    break\n                lReturn.append((fStatus, testCase, dJsonEntry))\n")],
            rule="C14.exit", key="append-before-break"),
    Variant("C14", "severity counter keyed by type", "fire",
            [(_RL, '            name = dViolation["severity"]["name"]', '            name = dViolation["severity"]["type"].capitalize()')], rule="C14.counts", key="severity-key"),
    Variant("C14", "twin: rename violation loop var in JSON walker", "silent",
            [(_RL, '''                for oViolation in oRule.violations:
                    dTemp = {}
                    dTemp["rule"] = oRule.unique_id
                    dTemp["linenumber"] = oViolation.get_line_number()
                    dTemp["severity"] = oRule.severity.name
                    dTemp["solution"] = oViolation.get_solution()''', '''                for oV in oRule.violations:
                    dTemp = {}
                    dTemp["rule"] = oRule.get_unique_id()
                    dTemp["linenumber"] = oV.get_line_number()
                    dTemp["severity"] = oRule.severity.name
                    dTemp["solution"] = oV.get_solution()''')]),
]
