# -*- coding: utf-8 -*-
"""
C20 - --fix_only fixes what it lists and nothing else.

  C20.dominance   in Rule.fix the per-violation fix loop and oFile.update are dominated by
                  analyze() and by the fix-only filter applied to this call's dFixOnly; violations
                  are not re-populated in between.
  C20.filter      the filter only removes: None -> untouched (plain --fix), "all" -> untouched,
                  rule not listed (KeyError) -> emptied, otherwise keeps exactly the violations
                  whose line number is *in* the list stored under this rule's own id.
  C20.forwarding  the dictionary read from --fix_only reaches every call of a rule's fix():
                  config.New -> oConfig.dFixOnly -> apply_rules -> rule_list.fix(dFixOnly) ->
                  oRule.fix(file, dFixOnly); overrides of fix() accept it.
  C20.nothing-else the only writers of had_violations are the per-violation loop of Rule.fix and
                  its propagation in rule_list.fix, so an empty selection writes nothing.
  C20.aliasing    a fix never puts the same token object at two places of the list: inside a loop of a fix,
                  what is added to a token list (append / extend / insert / += / insert_token) is created, copied
                  or selected in that iteration - not a loop-invariant token or list, which would be added once
                  per iteration.  Tokens are edited in place by later fixes (set_value, set_indent ...), so a
                  shared object makes a fix listed for one line change the other lines too.
Does not decide: that a listed line-local rule changes exactly the listed lines (C07's relation).
"""

import ast

from ..flow import Facts, callee_text
from ..model import AnalysisError, norm, walk_function
from ..report import Result
from ..selftest import Variant

LEVEL = "other"
META = {
    "technique": "static analysis: structured-flow dominance in Rule.fix, shape/effect analysis of the filter function (subset construction, exception paths), inter-procedural argument forwarding over the resolved call graph; no text write inside a loop over the region's tokens; no rule-attribute object added to a token list by reference",
    "level_text": "Decides the structural clauses that make --fix_only sound for every input and selection: the filter dominates every fix and the "
    "update, it can only remove violations, it keys on the rule's own id and on line membership, an unlisted rule ends with an empty selection, "
    "and the user's dictionary is forwarded unchanged to every rule's fix(). The per-line effect of an individual fix is a run-time relation (C07) and is not decided.",
    "level_note": "Trusted base: CPython ast, the analyser, Python dict/list semantics. Rules loaded with --local_rules are outside the analysed program.",
}


def _self_attr(n, attr):
    return isinstance(n, ast.Attribute) and n.attr == attr and isinstance(n.value, ast.Name) and n.value.id == "self"


def _assigns_to_self_attr(fnode, attr):
    out = []
    for n in walk_function(fnode):
        if isinstance(n, ast.Assign):
            for t in n.targets:
                if _self_attr(t, attr):
                    out.append(n)
        elif isinstance(n, (ast.AugAssign, ast.AnnAssign)) and _self_attr(n.target, attr):
            out.append(n)
    return out


def run(ctx):
    p = ctx.program
    cg = ctx.callgraph()
    r = Result("C20")
    r.rule("C20.dominance", "filter(dFixOnly) and analyze dominate the _fix_violation loop and oFile.update in Rule.fix")
    r.rule("C20.filter", "the filter only removes; keeps by line membership under the rule's own id; unlisted rule -> empty")
    r.rule("C20.forwarding", "the --fix_only dictionary reaches every Rule.fix call")
    r.rule("C20.nothing-else", "had_violations is set only per applied fix")
    r.rule("C20.position", "a fix rewrites token text only at the position its violation names, never at every matching token of the region (violations of one region share it; the others may have been filtered out)")
    r.rule("C20.aliasing", "no fix adds a loop-invariant token or token list to a list inside a loop (one object, several positions)")
    r.explanation = (
        "Dominance facts computed over the structured control flow of vsg.rule:Rule.fix; shape analysis of "
        "Rule._filter_out_fix_only_violations (every assignment to self.violations, every exception path); argument forwarding "
        "checked at each call site on the path config.New -> apply_rules -> rule_list.fix -> Rule.fix (all overrides by class hierarchy)."
    )
    rule_cls = p.cls("vsg.rule:Rule")
    fix = p.function("vsg.rule:Rule.fix")
    facts = Facts(fix.node)
    K = fix.key
    if len(fix.params) < 3:
        r.fail("C20.forwarding", K + ":signature", "Rule.fix no longer takes the fix-only dictionary", fix.loc())
        return r
    fo_param = fix.params[2]

    # --- filter call(s) in fix
    filt_calls = []
    for s in cg.sites[fix.key]:
        for t in s.targets:
            if t.cls is not None and t.name.startswith("_filter_out_fix_only"):
                filt_calls.append((s.node, t))
    if not filt_calls:
        # discover by role: a method of Rule that reads its parameter with ["fix"]["rule"]
        r.fail("C20.dominance", K + ":filter-call", "Rule.fix does not call the fix-only filter", fix.loc())
        return r
    fnode, filt = filt_calls[0]
    ftext = callee_text(fnode)
    if not fnode.args or norm(fnode.args[0]) != fo_param:
        r.fail("C20.forwarding", K + ":filter-arg", "the filter is not given this call's %s (got %s)" % (fo_param, norm(fnode.args[0]) if fnode.args else "nothing"), fix.loc(fnode))
    else:
        r.ok("C20.forwarding", K + ":filter-arg", "%s(%s)" % (ftext, fo_param))

    # --- fix loop and update dominated by analyze + filter
    targets = []
    for n in walk_function(fix.node):
        if isinstance(n, ast.Call) and callee_text(n) in ("self._fix_violation",):
            targets.append(("self._fix_violation", n))
        if isinstance(n, ast.Call) and isinstance(n.func, ast.Attribute) and n.func.attr == "update" and isinstance(n.func.value, ast.Name) and n.func.value.id == fix.params[1]:
            targets.append(("%s.update" % fix.params[1], n))
    if len(targets) < 2:
        raise AnalysisError("Rule.fix: per-violation fix call or file update not found")
    for name, n in targets:
        f = facts.facts_at(n)
        for need in ("self.analyze", ftext):
            kk = "%s:%s-dominated-by:%s" % (K, name, need)
            if ("call", need) in f:
                r.ok("C20.dominance", kk)
            else:
                r.fail("C20.dominance", kk, "%s is not dominated by %s" % (name, need), fix.loc(n))
    # order analyze before filter
    if ("call", "self.analyze") not in facts.facts_at(fnode):
        r.fail("C20.dominance", K + ":analyze-before-filter", "the filter runs before analyze(): it would filter an empty list", fix.loc(fnode))
    else:
        r.ok("C20.dominance", K + ":analyze-before-filter")
    # no re-population between filter and loop: no assignment/extension of self.violations in fix,
    # and no second analyze after the filter
    for a in _assigns_to_self_attr(fix.node, "violations"):
        r.fail("C20.dominance", K + ":violations-reassigned", "Rule.fix re-assigns self.violations", fix.loc(a))
    for n in walk_function(fix.node):
        if isinstance(n, ast.Call) and callee_text(n) in ("self.analyze", "self._analyze", "self.add_violation"):
            if ("call", ftext) in facts.facts_at(n):
                r.fail("C20.dominance", K + ":reanalyze-after-filter", "%s after the filter re-populates the selection" % callee_text(n), fix.loc(n))
    # the loop iterates self.violations
    for n in walk_function(fix.node):
        if isinstance(n, ast.For) and any(isinstance(c, ast.Call) and callee_text(c) == "self._fix_violation" for c in ast.walk(n)):
            it = n.iter
            base = it.value if isinstance(it, ast.Subscript) else it
            if not _self_attr(base, "violations"):
                r.fail("C20.dominance", K + ":loop-domain", "the fix loop iterates %s, not the filtered self.violations" % norm(it), fix.loc(n))
            else:
                r.ok("C20.dominance", K + ":loop-domain", "for ... in %s" % norm(it))
    upd = [n for name, n in targets if name.endswith(".update")]
    for u in upd:
        if not u.args or not _self_attr(u.args[0], "violations"):
            r.fail("C20.dominance", K + ":update-domain", "update() is given %s, not the filtered self.violations" % (norm(u.args[0]) if u.args else "nothing"), fix.loc(u))

    _filter_shape(r, filt)
    _forwarding(r, p, cg, rule_cls, fix)
    _nothing_else(r, p, cg, fix)
    _aliasing(r, p, cg)
    _position(r, ctx, p, cg)
    return r


def _filter_shape(r, filt):
    fn = filt.node
    K = filt.key
    facts = Facts(fn)
    if len(filt.params) < 2:
        r.fail("C20.filter", K + ":signature", "filter takes no dictionary", filt.loc())
        return
    d = filt.params[1]
    # (1) None -> return untouched
    none_ok = False
    for n in walk_function(fn):
        if isinstance(n, ast.If) and norm(n.test) in ("%s is None" % d, "not %s" % d) and n.body and isinstance(n.body[0], ast.Return):
            none_ok = True
    if none_ok:
        r.ok("C20.filter", K + ":none-is-plain-fix", "`%s is None` returns before touching violations" % d)
    else:
        r.unknown("C20.filter", K + ":none-is-plain-fix", "no early return on a missing dictionary recognised")

    single = {}
    for n in walk_function(fn):
        if isinstance(n, ast.Assign) and len(n.targets) == 1 and isinstance(n.targets[0], ast.Name):
            single.setdefault(n.targets[0].id, []).append(n.value)
    single = {k: v[0] for k, v in single.items() if len(v) == 1}

    def rooted_lookup(e):
        """True if e is <d>[...]...[self.unique_id] (the list for this rule), possibly through a
        singly-assigned local."""
        if isinstance(e, ast.Name) and e.id in single:
            e = single[e.id]
        if not isinstance(e, ast.Subscript):
            return False
        last = e.slice
        if norm(last) not in ("self.unique_id", "self.get_unique_id()"):
            return False
        b = e.value
        while isinstance(b, ast.Subscript):
            b = b.value
        return isinstance(b, ast.Name) and b.id == d

    # (2) assignments to self.violations
    assigns = _assigns_to_self_attr(fn, "violations")
    if not assigns:
        r.fail("C20.filter", K + ":no-filtering", "the filter never narrows self.violations", filt.loc())
    local_lists = {}
    for n in walk_function(fn):
        if isinstance(n, ast.Assign) and len(n.targets) == 1 and isinstance(n.targets[0], ast.Name) and isinstance(n.value, ast.List) and not n.value.elts:
            local_lists[n.targets[0].id] = n
    for a in assigns:
        if not isinstance(a, ast.Assign):
            r.fail("C20.filter", K + ":violations-augmented", "self.violations is augmented in the filter", filt.loc(a))
            continue
        v = a.value
        if isinstance(v, ast.List) and not v.elts:
            r.ok("C20.filter", K + ":assign:" + norm(a), "emptied")
            continue
        if isinstance(v, ast.Name) and v.id in local_lists:
            # every mutation of that local must be append(<loop var of `for x in self.violations`>) under a membership test
            okshape = True
            n_app = 0
            for n in walk_function(fn):
                if isinstance(n, ast.Call) and isinstance(n.func, ast.Attribute) and isinstance(n.func.value, ast.Name) and n.func.value.id == v.id:
                    # order / multiplicity: the kept list must grow while walking self.violations itself.
                    # Growing it inside a loop over (something derived from) the user's dictionary makes the
                    # selection follow the order and repetitions of the --fix_only file; Rule.fix and
                    # vhdlFile.update splice in reverse list order and rely on the analysed (ascending) order.
                    user_loops = []
                    par = n
                    while par is not None and par is not fn:
                        par = getattr(par, "_parent", None)
                        if isinstance(par, ast.For):
                            it = par.iter
                            src = it
                            if isinstance(it, ast.Name):
                                for a2 in walk_function(fn):
                                    if isinstance(a2, ast.Assign) and len(a2.targets) == 1 and isinstance(a2.targets[0], ast.Name) and a2.targets[0].id == it.id:
                                        src = a2.value
                            if any(isinstance(x, ast.Name) and x.id == d for x in ast.walk(src)) and not _self_attr(it, "violations"):
                                user_loops.append(par)
                    if user_loops:
                        okshape = False
                        r.fail(
                            "C20.filter",
                            K + ":kept-order-follows-selection",
                            "the kept violations are collected while iterating `%s` (the --fix_only data): their order and multiplicity follow the user's list, "
                            "but the fixes are spliced back in reverse list order and need the analysed order with each violation once" % norm(user_loops[0].iter),
                            filt.loc(n),
                        )
                        continue
                    if n.func.attr != "append" or len(n.args) != 1 or not isinstance(n.args[0], ast.Name):
                        okshape = False
                        r.unknown("C20.filter", K + ":kept-list:" + norm(n), "unrecognised construction of the kept list")
                        continue
                    n_app += 1
                    var = n.args[0].id
                    # enclosing for
                    par = n
                    loop = None
                    tests = []
                    while par is not None and par is not fn:
                        par = getattr(par, "_parent", None)
                        if isinstance(par, ast.If):
                            tests.append(par)
                        if isinstance(par, ast.For) and isinstance(par.target, ast.Name) and par.target.id == var:
                            loop = par
                            break
                    if loop is None or not _self_attr(loop.iter, "violations"):
                        r.fail("C20.filter", K + ":kept-not-subset", "kept list receives %s which is not an element of self.violations" % var, filt.loc(n))
                        okshape = False
                        continue
                    # membership condition
                    member = None
                    for t in tests:
                        c = t.test
                        if isinstance(c, ast.Compare) and len(c.ops) == 1 and isinstance(c.left, ast.Call) and norm(c.left) == "%s.get_line_number()" % var:
                            member = (c, t)
                    if member is None:
                        r.fail("C20.filter", K + ":kept-without-line-test", "a violation is kept without testing its line against the selection", filt.loc(n))
                        okshape = False
                        continue
                    c, t = member
                    in_body = any(n is x for s in t.body for x in ast.walk(s))
                    op = c.ops[0]
                    positive = (isinstance(op, ast.In) and in_body) or (isinstance(op, ast.NotIn) and not in_body)
                    if not positive:
                        r.fail("C20.filter", K + ":line-test-inverted", "violations are kept when their line is NOT in the selection", filt.loc(c))
                        okshape = False
                    elif not rooted_lookup(c.comparators[0]):
                        r.fail("C20.filter", K + ":line-test-key", "the line list is looked up as %s, not under this rule's own id in the --fix_only dictionary" % norm(c.comparators[0]), filt.loc(c))
                        okshape = False
            if okshape and n_app:
                r.ok("C20.filter", K + ":assign:" + norm(a), "subset of self.violations selected by `line in %s[..][self.unique_id]`" % d)
            continue
        r.unknown("C20.filter", K + ":assign:" + norm(a), "unrecognised right-hand side")
    # (3) exception paths: KeyError -> emptied; and the 'all' test returns
    handlers = [h for n in walk_function(fn) if isinstance(n, ast.Try) for h in n.handlers]
    for h in handlers:
        ht = norm(h.type) if h.type is not None else "<bare>"
        emptied = any(isinstance(s, ast.Assign) and any(_self_attr(t, "violations") for t in s.targets) and isinstance(s.value, ast.List) and not s.value.elts for s in ast.walk(h))
        leaves = not facts.handler_falls_through.get(id(h), True)
        kk = "%s:unlisted-rule:%s" % (K, ht)
        if emptied:
            r.ok("C20.filter", kk, "rule not listed -> selection emptied")
        elif leaves:
            r.fail("C20.filter", kk, "when the rule is not listed the handler leaves the filter without emptying the selection: every violation gets fixed", filt.loc(h))
        else:
            r.unknown("C20.filter", kk, "handler neither empties nor leaves")
    # 'all' path
    for n in walk_function(fn):
        if isinstance(n, ast.If) and isinstance(n.test, ast.Compare) and isinstance(n.test.left, ast.Constant) and n.test.left.value == "all":
            if isinstance(n.test.ops[0], ast.In) and rooted_lookup(n.test.comparators[0]) and n.body and isinstance(n.body[0], ast.Return):
                r.ok("C20.filter", K + ":all", "'all' under the rule's own id keeps everything")
            else:
                r.fail("C20.filter", K + ":all", "the 'all' shortcut is not keyed on this rule's own entry: %s" % norm(n.test), filt.loc(n))


def _forwarding(r, p, cg, rule_cls, fix):
    # overrides of fix
    fixes = [fix] + [c.methods["fix"] for c in rule_cls.all_subclasses() if "fix" in c.methods]
    for f in fixes:
        if len(f.params) < 3:
            r.fail("C20.forwarding", f.key + ":signature", "override of fix() does not accept the fix-only dictionary", f.loc())
        else:
            r.ok("C20.forwarding", f.key + ":signature", "fix(self, %s, %s)" % (f.params[1], f.params[2]), nontrivial=f is not fix)
    # every call site of any Rule.fix in the program
    n_sites = 0
    for k, sites in cg.sites.items():
        caller = p.functions[k]
        for s in sites:
            if s.kind != "resolved" or not any(t in fixes for t in s.targets):
                continue
            if not (isinstance(s.node.func, ast.Attribute) and s.node.func.attr == "fix"):
                continue
            # exclude rule_list.fix (different class) calls: targets must be Rule.fix only
            if all(t.cls is not None and t.cls.is_subclass_of(rule_cls) for t in s.targets):
                n_sites += 1
                args = s.node.args
                kws = {kw.arg: kw.value for kw in s.node.keywords}
                passed = args[1] if len(args) > 1 else kws.get(fix.params[2])
                kk = "%s:%s" % (k, norm(s.node))
                if passed is None:
                    r.fail("C20.forwarding", kk, "a rule's fix() is called without the fix-only dictionary: every violation of that rule gets fixed", caller.loc(s.node))
                elif isinstance(passed, ast.Name) and passed.id in caller.params:
                    r.ok("C20.forwarding", kk, "forwards its own parameter %s" % passed.id)
                elif isinstance(passed, ast.Constant) and passed.value is None:
                    r.fail("C20.forwarding", kk, "a rule's fix() is called with a literal None selection", caller.loc(s.node))
                else:
                    r.unknown("C20.forwarding", kk, "passes %s" % norm(passed))
    if n_sites < 1:
        raise AnalysisError("no call site of Rule.fix found")
    # rule_list.fix parameter -> from apply_rules
    rl_fix = p.function("vsg.rule_list:rule_list.fix")
    ar = p.function("vsg.apply_rules:apply_rules")
    if "dFixOnly" not in rl_fix.params and len(rl_fix.params) < 4:
        r.fail("C20.forwarding", rl_fix.key + ":signature", "rule_list.fix lost its fix-only parameter", rl_fix.loc())
    fo_name = rl_fix.params[3] if len(rl_fix.params) > 3 else None
    for s in cg.sites[ar.key]:
        if rl_fix in s.targets and s.kind == "resolved" and isinstance(s.node.func, ast.Attribute) and s.node.func.attr == "fix":
            args = s.node.args
            kws = {kw.arg: kw.value for kw in s.node.keywords}
            passed = args[2] if len(args) > 2 else kws.get(fo_name)
            kk = "%s:%s" % (ar.key, "oRules.fix")
            if passed is None:
                r.fail("C20.forwarding", kk, "apply_rules calls rule_list.fix without the fix-only dictionary", ar.loc(s.node))
                continue
            # resolve local
            src = passed
            if isinstance(passed, ast.Name):
                for n in walk_function(ar.node):
                    if isinstance(n, ast.Assign) and len(n.targets) == 1 and isinstance(n.targets[0], ast.Name) and n.targets[0].id == passed.id:
                        src = n.value
            if isinstance(src, ast.Attribute) and src.attr == "dFixOnly":
                r.ok("C20.forwarding", kk, "%s = %s" % (norm(passed), norm(src)))
            else:
                r.fail("C20.forwarding", kk, "rule_list.fix receives %s, not the configuration's dFixOnly" % norm(src), ar.loc(s.node))
    # config.New stores the parsed file under dFixOnly when the option is given
    new = p.function("vsg.config:New")
    stores = [n for n in walk_function(new.node) if isinstance(n, ast.Assign) and any(isinstance(t, ast.Attribute) and t.attr == "dFixOnly" for t in n.targets)]
    if not stores:
        r.fail("C20.forwarding", new.key + ":dFixOnly", "config.New never stores the --fix_only dictionary", new.loc())
    nf = Facts(new.node)
    for s in stores:
        cond = nf.cond_at(s, "commandLineArguments.fix_only")
        if cond is True:
            if isinstance(s.value, ast.Call) and any("fix_only" in norm(a) for a in s.value.args):
                r.ok("C20.forwarding", new.key + ":dFixOnly:given", "dFixOnly = %s" % norm(s.value))
            else:
                r.fail("C20.forwarding", new.key + ":dFixOnly:given", "with --fix_only the stored selection is %s" % norm(s.value), new.loc(s))
        elif cond is False:
            if isinstance(s.value, ast.Constant) and s.value.value is None:
                r.ok("C20.forwarding", new.key + ":dFixOnly:absent", "None -> plain --fix")
            else:
                r.fail("C20.forwarding", new.key + ":dFixOnly:absent", "without --fix_only the selection is %s, not None" % norm(s.value), new.loc(s))


def _nothing_else(r, p, cg, fix):
    # writers of had_violations anywhere
    writers = []
    for fi in p.functions.values():
        for n in walk_function(fi.node):
            if isinstance(n, (ast.Assign, ast.AugAssign)):
                ts = n.targets if isinstance(n, ast.Assign) else [n.target]
                for t in ts:
                    if isinstance(t, ast.Attribute) and t.attr == "had_violations":
                        writers.append((fi, n))
    if len(writers) < 3:
        raise AnalysisError("had_violations writers vanished (%d found)" % len(writers))
    for fi, n in writers:
        kk = "%s:%s" % (fi.key, norm(n))
        val = n.value
        true_store = isinstance(val, ast.Constant) and val.value is True
        if fi.name == "__init__" and isinstance(val, ast.Constant) and val.value is False:
            r.ok("C20.nothing-else", kk, "initialised False", nontrivial=False)
            continue
        if fi.key == fix.key and true_store:
            f = Facts(fi.node)
            in_loop = False
            par = n
            while par is not None and par is not fi.node:
                par = getattr(par, "_parent", None)
                if isinstance(par, ast.For) and any(isinstance(c, ast.Call) and callee_text(c) == "self._fix_violation" for c in ast.walk(par)):
                    in_loop = True
            if in_loop:
                r.ok("C20.nothing-else", kk, "set once per applied fix, inside the loop over the filtered violations")
            else:
                r.fail("C20.nothing-else", kk, "had_violations is set outside the per-violation fix loop: an empty selection would still rewrite the file", fi.loc(n))
            continue
        if fi.cls is not None and fi.cls.key == "vsg.rule_list:rule_list" and true_store:  # fix() or a helper method of it
            f = Facts(fi.node)
            conds = [c for c, pol in f.conds_at(n) if pol and c.endswith(".had_violations")]
            if conds:
                r.ok("C20.nothing-else", kk, "propagated under `if %s`" % conds[0])
            else:
                r.fail("C20.nothing-else", kk, "rule_list.had_violations set without a rule having fixed something", fi.loc(n))
            continue
        r.fail("C20.nothing-else", kk, "unexpected writer of had_violations", fi.loc(n))


_R = "vsg/rule.py"
_RL = "vsg/rule_list.py"
def _position(r, ctx, p, cg):
    """Several violations of one rule can share a region of interest (the case rules report every token of a region
    against the same region object and tell them apart by an index).  --fix_only removes some of them; a fix that walks
    the region and rewrites every token that looks like its target also rewrites the filtered ones.  So: a text write
    (set_value of something that is not blanks) reachable from a fix is never inside a loop over the region's tokens."""
    from ..fixeffects import FixEffects, ws_locals
    from ..model import expand_text
    from ..summaries import Summaries

    fx = FixEffects(ctx, Summaries(p, cg))
    roots = [m for ci in p.classes.values() for name, m in ci.methods.items() if name == "_fix_violation" and ci.key != "vsg.rule:Rule"]
    reach = cg.reachable(roots)
    n_writes = 0
    for k in sorted(reach):
        fi = p.functions[k]
        if not fi.module.name.startswith("vsg.rules"):
            continue
        ws = None
        for c in walk_function(fi.node):
            if not (isinstance(c, ast.Call) and isinstance(c.func, ast.Attribute) and c.func.attr == "set_value" and len(c.args) == 1):
                continue
            if ws is None:
                ws = ws_locals(fi)
            kind = fx._classify_value(fi, c.args[0], ws)
            if kind == "WS" or kind.startswith("WSINS"):
                continue
            if kind.startswith("ACTION:") and fx.action_key_is_ws(fi.module, kind.split(":", 1)[1])[0]:
                continue
            n_writes += 1
            kk = "%s:%s" % (fi.key, norm(c)[:70])
            q = getattr(c, "_parent", None)
            hit = None
            while q is not None and q is not fi.node:
                if isinstance(q, ast.For):
                    it = expand_text(fi, q.iter)
                    tg = {x.id for x in ast.walk(q.target) if isinstance(x, ast.Name)}
                    recv_names = {x.id for x in ast.walk(c.func.value) if isinstance(x, ast.Name)}
                    over_tokens = "get_tokens()" in it or any(pn in it.split("(")[-1] and pn in fi.params for pn in fi.params if pn.startswith("lTokens"))
                    if over_tokens and (tg & recv_names):
                        hit = q
                q = getattr(q, "_parent", None)
            if hit is not None:
                r.fail("C20.position", kk, "`%s` runs for every token of the region that passes a test (`for %s in %s`), not for the one position the violation names: with --fix_only, tokens whose violations were filtered out are rewritten too" % (norm(c)[:50], norm(hit.target), norm(hit.iter)[:40]), fi.loc(c))
            else:
                r.ok("C20.position", kk, "one position per violation", sample=n_writes < 4)
    r.extra["text_writes_in_fixes"] = n_writes
    if n_writes < 8:
        raise AnalysisError("only %d text writes found in fix code" % n_writes)


def _aliasing(r, p, cg):
    roots = [m for ci in p.classes.values() for name, m in ci.methods.items() if name == "_fix_violation" and ci.key != "vsg.rule:Rule"]
    reach = cg.reachable(roots)
    n_loops = 0
    n_adds = 0
    # _fix_violation is itself the body of the loop over the violations in Rule.fix: an attribute of the rule object is
    # loop-invariant there, so adding the attribute's object itself (not a copy, not a new instance) to a token list puts
    # one object at the position of every violation
    from ..model import expand_text

    n_attr = 0
    for k in sorted(reach):
        fi = p.functions[k]
        if not fi.module.name.startswith("vsg.rules"):
            continue
        for c in walk_function(fi.node):
            if not isinstance(c, ast.Call):
                continue
            fn = norm(c.func).split(".")[-1]
            e = None
            if fn == "insert_token" and len(c.args) >= 3:
                e = c.args[2]
            elif fn == "append_token" and len(c.args) >= 2:
                e = c.args[1]
            elif fn in ("insert", "append", "extend") and isinstance(c.func, ast.Attribute) and c.args and not norm(c.func.value).startswith("self."):
                e = c.args[-1]
            if e is None:
                continue
            n_attr += 1
            t = expand_text(fi, e)
            if t.startswith("self.") and "(" not in t and "[" not in t:
                r.fail("C20.aliasing", "%s:rule-attribute:%s" % (fi.key, t), "`%s` adds the object held in the rule attribute %s itself to a token list; the fix runs once per violation, so every violation gets the same object: a later fix applied to one of these positions (a case fix selected for one line with --fix_only, its code tags, its indent) changes all of them" % (norm(c)[:60], t), fi.loc(c))
    r.extra["token_list_additions_in_fixes"] = n_attr
    if n_attr < 40:
        raise AnalysisError("only %d additions to token lists found in fix code" % n_attr)

    def names(e):
        return {x.id for x in ast.walk(e) if isinstance(x, ast.Name)}

    for k in sorted(reach):
        fi = p.functions[k]
        if not fi.module.name.startswith("vsg.rules"):
            continue
        facts = None
        for loop in [x for x in walk_function(fi.node) if isinstance(x, (ast.For, ast.While))]:
            n_loops += 1
            bound = set()
            for st in ast.walk(loop):
                if isinstance(st, ast.Assign):
                    for t in st.targets:
                        bound |= names(t)
                elif isinstance(st, (ast.AugAssign, ast.AnnAssign)):
                    bound |= names(st.target)
                elif isinstance(st, ast.For):
                    bound |= names(st.target)
                elif isinstance(st, ast.comprehension):
                    bound |= names(st.target)
            loopvars = names(loop.target) if isinstance(loop, ast.For) else set()
            for c in ast.walk(loop):
                e = None
                if isinstance(c, ast.Call) and isinstance(c.func, ast.Attribute) and c.func.attr in ("extend", "append", "insert") and c.args:
                    e = c.args[-1]
                elif isinstance(c, ast.Call) and norm(c.func).endswith("insert_token") and len(c.args) >= 3:
                    e = c.args[2]
                elif isinstance(c, ast.AugAssign) and isinstance(c.op, ast.Add):
                    e = c.value
                if e is None or isinstance(e, (ast.Constant, ast.Call)):
                    continue  # a call constructs, copies or selects at the use
                if isinstance(e, ast.List) and all(isinstance(x, ast.Call) for x in e.elts):
                    continue
                ns = names(e)
                if not ns or ns & bound:
                    continue
                n_adds += 1
                # executed at most once per loop: guarded by an equality test on the loop variable
                if facts is None:
                    facts = Facts(fi.node)
                once = any(pol is True and "==" in t and any(v in t for v in loopvars) for t, pol in facts.conds_at(c))
                recv = norm(c.func.value) if isinstance(c, ast.Call) and isinstance(c.func, ast.Attribute) else ""
                if recv and not any(w in recv.lower() for w in ("token", "ltemp", "lnew", "lfinal", "lreturn", "lmy")):
                    continue  # not a token list (strings, indexes, ...)
                kk = "%s:%s" % (fi.key, norm(c)[:70])
                if once:
                    r.ok("C20.aliasing", kk, "added under an equality test on the loop variable: at most once", sample=False)
                elif r.tabled("C20.aliasing", kk):
                    r.ok("C20.aliasing", kk, "tabled", sample=False)
                else:
                    r.fail("C20.aliasing", kk, "`%s` adds %s, which does not change inside the loop, on every iteration: the same token object(s) end up at several places of the token list, and a later in-place fix of one line (set_value, set_indent) changes the others as well" % (norm(c)[:60], ", ".join(sorted(ns))), fi.loc(c))
    r.extra["fix_loops_scanned"] = n_loops
    if n_loops < 8:
        raise AnalysisError("only %d loops in fix-reachable rule code" % n_loops)
    r.ok("C20.aliasing", "fix-loops", "%d loops in fix-reachable rule code: everything added to a token list inside a loop is created, copied or selected per iteration (%d loop-invariant additions, each executed at most once)" % (n_loops, n_adds))


VARIANTS = [
    Variant("C20", "optional keyword inserted by reference again (3b8518f reverted)", "fire",
            [("vsg/rules/insert_token_right_of_token_if_it_does_not_exist_before_token.py", "rules_utils.insert_token(lTokens, 2, copy.deepcopy(self.insert_token))", "rules_utils.insert_token(lTokens, 2, self.insert_token)")],
            rule="C20.aliasing", key="rule-attribute"),
    Variant("C20", "twin: the copy of the optional keyword held in a local", "silent",
            [("vsg/rules/insert_token_right_of_token_if_it_does_not_exist_before_token.py", "                rules_utils.insert_token(lTokens, 2, copy.deepcopy(self.insert_token))", "                oNew = copy.deepcopy(self.insert_token)\n                rules_utils.insert_token(lTokens, 2, oNew)")]),
    Variant("C20", "formal-part case fix rewrites every formal of the region with the same text", "fire",
            [("vsg/rules/token_case_formal_part_of_association_element_in_map_between_tokens.py", "        lTokens[dAction[\"index\"]].set_value(dAction[\"value\"])", "        sOld = lTokens[dAction[\"index\"]].get_value()\n        for oToken in lTokens:\n            if oToken.get_value() == sOld:\n                oToken.set_value(dAction[\"value\"])")],
            rule="C20.position"),
    Variant("C20", "twin: formal-part case fix names its token through a local", "silent",
            [("vsg/rules/token_case_formal_part_of_association_element_in_map_between_tokens.py", "        lTokens[dAction[\"index\"]].set_value(dAction[\"value\"])", "        oFormal = lTokens[dAction[\"index\"]]\n        oFormal.set_value(dAction[\"value\"])")]),
    Variant("C20", "declaration split reuses the leading tokens for every new line", "fire",
            [("vsg/rules/separate_multiple_signal_identifiers_into_individual_statements.py", "        lFinalTokens = []\n        for oIdentifier in dAction[\"identifiers\"]:\n            lNewTokens = []\n", "        lDeclaration = lTokens[: dAction[\"start\"]]\n        lFinalTokens = []\n        for oIdentifier in dAction[\"identifiers\"]:\n            lFinalTokens.extend(lDeclaration)\n            lNewTokens = []\n")], rule="C20.aliasing"),
    Variant("C20", "twin: declaration split copies the leading tokens per line", "silent",
            [("vsg/rules/separate_multiple_signal_identifiers_into_individual_statements.py", "        lFinalTokens = []\n        for oIdentifier in dAction[\"identifiers\"]:\n            lNewTokens = []\n", "        lDeclaration = lTokens[: dAction[\"start\"]]\n        lFinalTokens = []\n        for oIdentifier in dAction[\"identifiers\"]:\n            lFinalTokens.extend(copy.deepcopy(lDeclaration))\n            lFinalTokens = lFinalTokens[: -len(lDeclaration)]\n            lNewTokens = []\n")]),
    Variant("C20", "filter after the fix loop", "fire",
            [(_R, "            self._filter_out_fix_only_violations(dFixOnly)\n            for oViolation in self.violations[::-1]:\n                self._fix_violation(oViolation)\n                self.had_violations = True\n",
              "            for oViolation in self.violations[::-1]:\n                self._fix_violation(oViolation)\n                self.had_violations = True\n            self._filter_out_fix_only_violations(dFixOnly)\n")],
            rule="C20.dominance", key="_fix_violation-dominated-by"),
    Variant("C20", "unlisted rule returns instead of emptying", "fire",
            [(_R, "        except KeyError:\n            self.violations = []\n\n        lTemp = []", "        except KeyError:\n            return\n\n        lTemp = []")],
            rule="C20.filter", key="unlisted-rule"),
    Variant("C20", "line test inverted", "fire",
            [(_R, 'if oViolation.get_line_number() in dFixOnly["fix"]["rule"][self.unique_id]:', 'if oViolation.get_line_number() not in dFixOnly["fix"]["rule"][self.unique_id]:')],
            rule="C20.filter", key="line-test-inverted"),
    Variant("C20", "line list looked up under rule name only", "fire",
            [(_R, 'if oViolation.get_line_number() in dFixOnly["fix"]["rule"][self.unique_id]:', 'if oViolation.get_line_number() in dFixOnly["fix"]["rule"][self.name]:')],
            rule="C20.filter", key="line-test-key"),
    Variant("C20", "warning-path style call drops dFixOnly", "fire",
            [(_RL, "oRule.fix(self.oVhdlFile, dFixOnly)", "oRule.fix(self.oVhdlFile)")],
            rule="C20.forwarding", key="rule_list.fix"),
    Variant("C20", "had_violations set before the loop", "fire",
            [(_R, "            for oViolation in self.violations[::-1]:\n                self._fix_violation(oViolation)\n                self.had_violations = True\n",
              "            self.had_violations = True\n            for oViolation in self.violations[::-1]:\n                self._fix_violation(oViolation)\n")],
            rule="C20.nothing-else"),
    Variant("C20", "second analyze after filter", "fire",
            [(_R, "            for oViolation in self.violations[::-1]:", "            self.analyze(oFile)\n            for oViolation in self.violations[::-1]:")],
            rule="C20.dominance", key="reanalyze-after-filter"),
    Variant("C20", "twin: hoist the line list into a local", "silent",
            [(_R, '        lTemp = []\n        for oViolation in self.violations:\n            if oViolation.get_line_number() in dFixOnly["fix"]["rule"][self.unique_id]:\n                lTemp.append(oViolation)\n        self.violations = lTemp',
              '        lKeep = []\n        for oViolation in self.violations:\n            if oViolation.get_line_number() in dFixOnly["fix"]["rule"][self.unique_id]:\n                lKeep.append(oViolation)\n        self.violations = lKeep')]),
]
