# -*- coding: utf-8 -*-
"""
C04 - reading a file is lossless and a clean file is never rewritten.

  C04.tokenizer   join(tokens.create(s)) == s for every string s: each of the nine regrouping passes of
                  tokens.create (and New.__init__) is proven text-conserving by abstract interpretation
                  (FOLD / WINDOW / REBUILD / SCAN rules of sa/wordexec.py over all syntactic paths), the
                  pipeline calls only proven passes, and the side conditions the proofs export (quote
                  pairs ordered and non-negative, split index found) are discharged from the producers.
                  PROOF discipline: an obligation that cannot be discharged fails the check.
  C04.classify    classification keeps text:
                  (V1) assign_next_token_required/_if(S, C): a constant-valued class C stores the
                       constant S.lower() spells;
                  (V2) a constant-valued class handed to a helper that does not test the text
                       (assign_next_token, assign_token, tokenize_label, ...) is dominated by a test for
                       exactly that constant;
                  (V3) every direct write into a token list under vsg/vhdlFile is value preserving
                       (same-index/same-value replacement, guarded constant, convert_to, verified merge /
                       split patterns) - others are tabled with their reason;
                  (V4) _processFile appends one carriage_return per input line, get_lines joins the
                       values of every token between carriage returns, convert_to copies the value.
  C04.clean       no write-back without an applied fix: the only sink whose target derives from the input
                  file name is the write-back/backup pair, dominated by --fix and had_violations, which is
                  set only per applied fix (shared with C16/C20).
Does not decide: that every accepted file has every token classified (needs the grammar); byte identity
under the ISO-8859-1 read fallback (a clean file is not written).
"""

import ast

from ..classifier import ClassifierTable
from ..flow import Facts, callee_text
from ..model import AnalysisError, norm, walk_function
from ..report import Result
from ..selftest import Variant
from .. import wordexec as we

LEVEL = "other"
META = {
    "technique": "static analysis: abstract interpretation of the tokenizer passes in a word (concatenation) domain with path enumeration and inductive loop rules (no execution, no solver); writer/reader table agreement and must-guard rules over the classifier's 700+ assignment sites; dominance facts for the write-back",
    "level_text": "For the tokenizer the check is a machine-checked conservation argument for every input string: nine passes, each proven on all syntactic paths, "
    "with the exported side conditions discharged from the code that produces the quote pairs and split index; any pass the rules cannot prove fails the "
    "check (proof discipline, not sampling). For classification it decides table agreement (class constant vs tested literal) and value preservation "
    "at every write site of the token list. The clean-file clause is a dominance fact. Category 'other' because the classifier part is a necessary-condition "
    "analysis, not a proof of emit(parse(x)) == x.",
    "level_note": "Trusted base: CPython ast; the word-domain interpreter (sa/wordexec.py) and its three lemmas; Python str/list slicing semantics (s[:k]+s[k:] == s for "
    "int k; L[:a]+[join(L[a:b])]+L[b:] conserves text for 0 <= a <= b). Assumption: str.lower() maps no digit to b/o/x/d.",
}

HELPERS_VERIFIED = {
    "vsg.vhdlFile.utils:" + n
    for n in ("assign_next_token", "assign_token", "assign_next_token_if", "assign_next_token_if_not", "assign_next_token_if_not_one_of", "assign_next_token_required", "assign_tokens_until_matching_closing_paren")
}

GUARD_HELPERS = {
    "token_is_open_parenthesis": "(",
    "token_is_close_parenthesis": ")",
    "token_is_comma": ",",
    "token_is_semicolon": ";",
    "token_is_assignment_operator": "<=",
}


def run(ctx):
    p = ctx.program
    r = Result("C04")
    r.load_table("c04.json")
    r.rule("C04.tokenizer", "every pass of tokens.create proven text-conserving on all paths; side conditions discharged")
    r.rule("C04.classify", "classifier: class constant == tested literal; constant classes guarded; direct writes value preserving; line framing")
    r.rule("C04.clean", "no write-back without an applied fix")
    r.rule("C04.reader", "the line reader splits on line feeds only and strips nothing but the line terminator")
    r.explanation = (
        "The tokenizer is proven, not sampled: sa/wordexec.py abstracts lists of strings and strings by their concatenation (tuples of symbolic atoms) "
        "and walks every syntactic path of each pass with inductive loop rules; proofs are rebuilt from /repo's source on every run. The classifier "
        "tables are read off all assign_* call sites and token class constructors."
    )
    _tokenizer(r, p)
    ct = ClassifierTable(p)
    _classify_tables(r, p, ct)
    _direct_writes(r, p, ct)
    _split_builders(r, p, ct)
    _framing(r, p)
    _clean(r, ctx)
    _reader(r, p)
    return r


# ====================================================================== tokenizer
_STR_EDITS = ("strip", "rstrip", "lstrip", "replace", "expandtabs", "lower", "upper", "title", "capitalize", "swapcase", "casefold", "translate", "removeprefix", "removesuffix", "zfill", "center", "ljust", "rjust", "format", "encode")


def _reader(r, p):
    """Reading must be lossless: the text of the file is the lines joined by the terminator.  In read_vhdlfile (and its
    nested helpers) and in the statement of _processFile that hands a line to the tokenizer, the only string edits
    allowed are rstrip of carriage return / line feed characters; lines come from iterating the file object,
    readlines() or split on a line-feed literal - never str.splitlines(), which also breaks lines at form feed,
    vertical tab, FS/GS/RS, NEL and U+2028/2029 and drops those characters."""
    rd = p.function("vsg.vhdlFile.utils:read_vhdlfile")
    pf = p.function("vsg.vhdlFile.vhdlFile:vhdlFile._processFile")
    nodes = list(ast.walk(rd.node))  # includes nested defs
    tok_calls = [n for n in walk_function(pf.node) if isinstance(n, ast.Call) and norm(n.func) == "tokens.create"]
    if len(tok_calls) != 1:
        raise AnalysisError("_processFile no longer hands each line to tokens.create exactly once")
    nodes += list(ast.walk(tok_calls[0]))
    n_edits = 0
    sources = 0
    for n in nodes:
        if isinstance(n, ast.For) and any(n is x for x in ast.walk(rd.node)):
            sources += 1
        if not (isinstance(n, ast.Call) and isinstance(n.func, ast.Attribute)):
            continue
        a = n.func.attr
        where = rd if any(n is x for x in ast.walk(rd.node)) else pf
        kk = "%s:%s" % (where.key, norm(n)[:60])
        if a == "splitlines":
            sources += 1
            n_edits += 2
            r.fail("C04.reader", kk, "lines are obtained with str.splitlines(): besides line feeds it also splits at form feed, vertical tab, FS/GS/RS, NEL (0x85) and U+2028/U+2029 and drops them - a file containing one of these is not read back as written", where.loc(n))
            continue
        if a == "split":
            sources += 1
            if not (len(n.args) >= 1 and isinstance(n.args[0], ast.Constant) and n.args[0].value in ("\n", "\r\n")):
                r.fail("C04.reader", kk, "lines are split on %s, not on a line-feed literal" % (norm(n.args[0]) if n.args else "arbitrary whitespace"), where.loc(n))
            continue
        if a == "readlines":
            sources += 1
            continue
        if a in _STR_EDITS:
            n_edits += 1
            ok = a == "rstrip" and len(n.args) == 1 and isinstance(n.args[0], ast.Constant) and isinstance(n.args[0].value, str) and n.args[0].value != "" and set(n.args[0].value) <= {"\r", "\n"}
            if ok:
                r.ok("C04.reader", kk, "strips only line-terminator characters", sample=False)
            else:
                r.fail("C04.reader", kk, "the reader edits the text of a line with .%s(%s): only rstrip of carriage-return / line-feed characters keeps reading lossless" % (a, ", ".join(norm(x) for x in n.args)), where.loc(n))
    if sources < 1:
        raise AnalysisError("read_vhdlfile: no line source (iteration over the file, readlines, split) recognised")
    if n_edits < 2:
        raise AnalysisError("reader edits not found (expected the rstrip of the terminator in read_vhdlfile and _processFile)")
    r.ok("C04.reader", rd.key, "lines come from iterating the file; %d terminator strips, nothing else edits a line before the tokenizer" % n_edits)


class _Desugar(ast.NodeTransformer):
    """`return [E for T in I if C]` / `x = [E for T in I if C]` -> the equivalent empty-list + for + append form, so that the
    loop rules of the word-domain prover and the shape-based side conditions see one idiom for both spellings."""

    def __init__(self):
        self.n = 0

    def _loop(self, comp, out):
        g = comp.generators[0]
        body = [ast.Expr(value=ast.Call(func=ast.Attribute(value=ast.Name(id=out, ctx=ast.Load()), attr="append", ctx=ast.Load()), args=[comp.elt], keywords=[]))]
        for c in reversed(g.ifs):
            body = [ast.If(test=c, body=body, orelse=[])]
        return ast.For(target=g.target, iter=g.iter, body=body, orelse=[])

    def _ok(self, v):
        if not (isinstance(v, ast.ListComp) and len(v.generators) == 1 and not v.generators[0].is_async):
            return False
        g = v.generators[0]
        # `[x for x in L]` (optionally `if x != ""`) is understood natively by the prover (keeps every non-empty piece)
        if isinstance(v.elt, ast.Name) and isinstance(g.target, ast.Name) and v.elt.id == g.target.id:
            return False
        return True

    def _block(self, stmts):
        out = []
        for st in stmts:
            if isinstance(st, ast.Return) and self._ok(st.value):
                self.n += 1
                name = "lComprehension%d" % self.n
                new = [ast.Assign(targets=[ast.Name(id=name, ctx=ast.Store())], value=ast.List(elts=[], ctx=ast.Load())), self._loop(st.value, name), ast.Return(value=ast.Name(id=name, ctx=ast.Load()))]
            elif isinstance(st, ast.Assign) and len(st.targets) == 1 and isinstance(st.targets[0], ast.Name) and self._ok(st.value) and not any(isinstance(x, ast.Name) and x.id == st.targets[0].id for x in ast.walk(st.value)):
                name = st.targets[0].id
                new = [ast.Assign(targets=[ast.Name(id=name, ctx=ast.Store())], value=ast.List(elts=[], ctx=ast.Load())), self._loop(st.value, name)]
            else:
                new = [st]
                for field in ("body", "orelse", "finalbody"):
                    sub = getattr(st, field, None)
                    if isinstance(sub, list) and sub and isinstance(sub[0], ast.stmt):
                        setattr(st, field, self._block(sub))
            for x in new:
                if x is not st:
                    ast.copy_location(x, st)
                    for y in ast.walk(x):
                        if not hasattr(y, "lineno") and isinstance(y, (ast.expr, ast.stmt)):
                            ast.copy_location(y, st)
            out.extend(new)
        return out

    def visit_FunctionDef(self, node):
        node.body = self._block(node.body)
        self.generic_visit(node)
        return node


class _Shim:
    def __init__(self, fi, node):
        self.node = node
        self.loc = fi.loc
        self.params = fi.params
        self.key = fi.key
        self.name = fi.name


def _tokenizer(r, p):
    import copy

    mod = p.module("vsg.tokens")
    tree = _Desugar().visit(copy.deepcopy(mod.tree))
    for node in ast.walk(tree):
        for child in ast.iter_child_nodes(node):
            child._parent = node
    funcs = {n.name: n for n in tree.body if isinstance(n, ast.FunctionDef)}
    consts = {t.id for n in tree.body if isinstance(n, ast.Assign) for t in n.targets if isinstance(t, ast.Name)}
    cls0 = p.cls("vsg.tokens:New")
    cnode = [n for n in tree.body if isinstance(n, ast.ClassDef) and n.name == "New"][0]

    class cls:  # the class as seen through the desugared copy
        methods = {n.name: _Shim(cls0.methods[n.name], n) for n in cnode.body if isinstance(n, ast.FunctionDef) and n.name in cls0.methods}
    create = p.function("vsg.tokens:create")
    # pipeline shape: oLine = New(s); oLine.m1(); ...; return oLine.lChars
    body = [s for s in create.node.body if not (isinstance(s, ast.Expr) and isinstance(s.value, ast.Constant))]
    obj = None
    called = []
    okshape = True
    for s in body:
        if isinstance(s, ast.Assign) and isinstance(s.value, ast.Call) and norm(s.value.func) == "New" and len(s.value.args) == 1 and norm(s.value.args[0]) == create.params[0]:
            obj = norm(s.targets[0])
        elif isinstance(s, ast.Expr) and isinstance(s.value, ast.Call) and isinstance(s.value.func, ast.Attribute) and obj and norm(s.value.func.value) == obj and not s.value.args:
            called.append(s.value.func.attr)
        elif isinstance(s, ast.Return) and obj and norm(s.value) == obj + ".lChars":
            pass
        else:
            okshape = False
            r.fail("C04.tokenizer", "vsg.tokens:create:" + norm(s)[:60], "tokens.create contains a step outside the proven pipeline shape (construct, call passes, return lChars): `%s`" % norm(s)[:80], create.loc(s))
    if len(called) < 5:
        raise AnalysisError("tokens.create calls only %d passes" % len(called))
    if okshape:
        r.ok("C04.tokenizer", "vsg.tokens:create:pipeline", "New(s) then %d passes then return lChars" % len(called))
    # constructor: lChars = convert_string_to_chars(sLine)
    init = cls.methods["__init__"]
    a = [n for n in walk_function(init.node) if isinstance(n, ast.Assign) and norm(n.targets[0]) == "self.lChars"]
    if len(a) == 1 and isinstance(a[0].value, ast.Call) and isinstance(a[0].value.func, ast.Name) and a[0].value.func.id in funcs and len(a[0].value.args) == 1 and norm(a[0].value.args[0]) == init.params[1]:
        fn = a[0].value.func.id
        try:
            pr = we.prove_function_returns_param(funcs, funcs[fn], 0, consts)
            r.ok("C04.tokenizer", "vsg.tokens:New.__init__", "lChars = %s(line): flat(result) == line proven on %d path(s)" % (fn, pr.paths))
        except we.ProofFailure as e:
            r.fail("C04.tokenizer", "vsg.tokens:" + fn, "the initial split of a line into characters is not provably lossless: %s" % e, p.functions["vsg.tokens:" + fn].loc())
    else:
        r.fail("C04.tokenizer", "vsg.tokens:New.__init__", "New.__init__ does not initialise lChars from the line through a tokens helper", init.loc())
    proofs = {}
    all_side = []
    for name in called:
        m = cls.methods.get(name)
        kk = "vsg.tokens:New.%s" % name
        if m is None:
            r.fail("C04.tokenizer", kk + ":missing", "create() calls %s which New does not define" % name, create.loc())
            continue
        try:
            pr = we.prove_method_conserves_attr(funcs, m.node, "lChars", consts)
        except we.ProofFailure as e:
            r.fail("C04.tokenizer", kk, "pass %s is not provably text-conserving: %s" % (name, e), m.loc())
            continue
        except RecursionError:
            r.fail("C04.tokenizer", kk, "pass %s: analysis did not terminate (recursive helpers)" % name, m.loc())
            continue
        proofs[name] = pr
        for sc in pr.side:
            all_side.append((name, sc))
        r.ok("C04.tokenizer", kk, "%d path(s): %s" % (pr.paths, "; ".join(pr.steps)[:400]))
    r.extra["tokenizer_passes"] = called
    r.extra["tokenizer_paths"] = sum(pr.paths for pr in proofs.values())
    r.extra["tokenizer_proof_steps"] = {k: v.steps for k, v in proofs.items()}
    _discharge(r, p, funcs, cls, all_side)


def _discharge(r, p, funcs, cls, all_side):
    """Side conditions exported by the pass proofs."""
    by_pass = {}
    for name, sc in all_side:
        by_pass.setdefault(name, []).append(sc)
    for name, scs in sorted(by_pass.items()):
        m = cls.methods[name]
        kk = "vsg.tokens:New.%s:side" % name
        kinds = {sc[0] for sc in scs}
        if any("lPair" in " ".join(map(str, sc)) for sc in scs):
            ok, why = _pairs_ordered(p, funcs, m)
            if ok:
                r.ok("C04.tokenizer", kk + ":pairs", "quote pairs are [a, b] with 0 <= a <= b: %s" % why)
            else:
                r.fail("C04.tokenizer", kk + ":pairs", "the proof of %s needs every quote pair [a, b] to satisfy 0 <= a <= b, which is not established: %s" % (name, why), m.loc())
        if "index-search" in kinds:
            ok, why = _split_index_found(p, funcs, m, [sc for sc in scs if sc[0] == "index-search"])
            if ok:
                r.ok("C04.tokenizer", kk + ":split-index", why)
            else:
                r.fail("C04.tokenizer", kk + ":split-index", "the split s[:k] + s[k:] is lossless only for an integer k, but the index search can fall off its loop (None) and no guard establishes that it finds one: %s" % why, m.loc())
        other = [sc for sc in scs if "lPair" not in " ".join(map(str, sc)) and sc[0] != "index-search" and not (sc[0] == "ordered" and sc[1] == "0")]
        for sc in other:
            r.fail("C04.tokenizer", kk + ":" + "/".join(map(str, sc))[:80], "undischarged side condition %s of pass %s" % (sc, name), m.loc())


def _ascending_index_producer(fn):
    """def f(v, L): out = []; for i, x in enumerate(L): if ...: out.append(i); return out"""
    loops = [n for n in fn.body if isinstance(n, ast.For)]
    if len(loops) != 1:
        return False
    lp = loops[0]
    if not (isinstance(lp.iter, ast.Call) and norm(lp.iter.func) == "enumerate" and isinstance(lp.target, ast.Tuple) and isinstance(lp.target.elts[0], ast.Name)):
        return False
    i = lp.target.elts[0].id
    apps = [n for n in ast.walk(fn) if isinstance(n, ast.Call) and isinstance(n.func, ast.Attribute) and n.func.attr in ("append", "extend", "insert")]
    return bool(apps) and all(a.func.attr == "append" and len(a.args) == 1 and norm(a.args[0]) == i and any(a is x for x in ast.walk(lp)) for a in apps)


def _pairs_ordered(p, funcs, m):
    """Every 2-element list that can reach combine_quote_pairs from method m is [a, b] with 0 <= a <= b."""
    calls = [n for n in walk_function(m.node) if isinstance(n, ast.Call) and isinstance(n.func, ast.Name) and n.func.id in funcs and any(isinstance(x, ast.For) for x in ast.walk(funcs[n.func.id]))]
    # find the producer chain: names assigned from calls, followed into helper functions
    assigns = {}
    for n in walk_function(m.node):
        if isinstance(n, ast.Assign) and len(n.targets) == 1 and isinstance(n.targets[0], ast.Name):
            assigns.setdefault(n.targets[0].id, []).append(n.value)
    consumer = [n for n in walk_function(m.node) if isinstance(n, ast.Call) and isinstance(n.func, ast.Name) and n.args and isinstance(n.args[0], ast.Name) and n.args[0].id in assigns and "pair" in n.func.id.lower()]
    if not consumer:
        return False, "no consumer of the pair list found"
    pair_var = consumer[0].args[0].id
    reasons = []
    seen = set()

    def check_producer_expr(e, env_funcs):
        """e evaluates to the list of pairs"""
        if isinstance(e, ast.Call) and isinstance(e.func, ast.Name) and e.func.id in funcs:
            return check_function(funcs[e.func.id], e)
        return False

    def check_function(fn, call):
        if fn.name in seen:
            return True
        seen.add(fn.name)
        params = [a.arg for a in fn.args.args]
        rets = [n for n in ast.walk(fn) if isinstance(n, ast.Return) and n.value is not None]
        if not rets or not all(isinstance(x.value, ast.Name) for x in rets):
            reasons.append("%s: unrecognised return" % fn.name)
            return False
        rv = rets[0].value.id
        apps = [n for n in ast.walk(fn) if isinstance(n, ast.Call) and isinstance(n.func, ast.Attribute) and isinstance(n.func.value, ast.Name) and n.func.value.id == rv and n.func.attr in ("append", "extend", "insert")]
        if not apps:
            reasons.append("%s: nothing appended" % fn.name)
            return False
        local = {}
        for n in ast.walk(fn):
            if isinstance(n, ast.Assign) and len(n.targets) == 1 and isinstance(n.targets[0], ast.Name):
                local.setdefault(n.targets[0].id, []).append(n.value)
        loopvars = {}
        for n in ast.walk(fn):
            if isinstance(n, ast.For):
                if isinstance(n.iter, ast.Call) and norm(n.iter.func) == "enumerate" and isinstance(n.target, ast.Tuple) and len(n.target.elts) == 2:
                    src = n.iter.args[0]
                    base = src.value if isinstance(src, ast.Subscript) else src
                    loopvars[norm(n.target.elts[1])] = norm(base)
                elif isinstance(n.target, ast.Name):
                    src = n.iter
                    base = src.value if isinstance(src, ast.Subscript) else src
                    loopvars[n.target.id] = norm(base)
        for a in apps:
            if a.func.attr != "append" or len(a.args) != 1:
                reasons.append("%s: %s" % (fn.name, norm(a)))
                return False
            e = a.args[0]
            if isinstance(e, ast.List) and len(e.elts) == 2:
                x, y = e.elts
                # [S[i], S[i+1]] over an ascending index list
                if isinstance(x, ast.Subscript) and isinstance(y, ast.Subscript) and norm(x.value) == norm(y.value) and norm(y.slice) in (norm(x.slice) + " + 1", "1 + " + norm(x.slice)):
                    src = norm(x.value)
                    vals = local.get(src, [])
                    if len(vals) == 1 and isinstance(vals[0], ast.Call) and isinstance(vals[0].func, ast.Name) and vals[0].func.id in funcs and _ascending_index_producer(funcs[vals[0].func.id]):
                        reasons.append("%s builds [S[i], S[i+1]] over the ascending index list of %s" % (fn.name, vals[0].func.id))
                        continue
                    reasons.append("%s: %s is not a known ascending index list" % (fn.name, src))
                    return False
                # [q, q + c], c >= 0, q an element of an ascending index list parameter
                if isinstance(y, ast.BinOp) and isinstance(y.op, ast.Add) and norm(y.left) == norm(x) and isinstance(y.right, ast.Constant) and isinstance(y.right.value, int) and y.right.value >= 0:
                    q = norm(x)
                    src = None
                    if q in loopvars:
                        src = loopvars[q]
                    elif q in local and len(local[q]) == 1 and isinstance(local[q][0], ast.Subscript):
                        src = norm(local[q][0].value)
                    if src in params and call is not None:
                        arg = call.args[params.index(src)]
                        origin = assigns.get(norm(arg), [None])[0] if isinstance(arg, ast.Name) else arg
                        if isinstance(origin, ast.Call) and isinstance(origin.func, ast.Name) and origin.func.id in funcs and _ascending_index_producer(funcs[origin.func.id]):
                            reasons.append("%s builds [q, q+%d] for q in the index list of %s" % (fn.name, y.right.value, origin.func.id))
                            continue
                    reasons.append("%s: origin of %s not established as a non-negative index" % (fn.name, q))
                    return False
                reasons.append("%s: pair %s not in a recognised ordered form" % (fn.name, norm(e)))
                return False
            # element of a parameter list: a filter
            en = norm(e)
            src = None
            if en in loopvars:
                src = loopvars[en]
            elif isinstance(e, ast.Subscript):
                src = norm(e.value)
            if src in params and call is not None:
                arg = call.args[params.index(src)]
                origin = assigns.get(norm(arg), [None])[0] if isinstance(arg, ast.Name) else arg
                if check_producer_expr(origin, funcs):
                    reasons.append("%s only re-emits elements of its input" % fn.name)
                    continue
                return False
            reasons.append("%s: appended %s of unknown origin" % (fn.name, en))
            return False
        return True

    oks = []
    for v in assigns.get(pair_var, []):
        oks.append(check_producer_expr(v, funcs))
    if oks and all(oks):
        return True, "; ".join(dict.fromkeys(reasons))
    return False, "; ".join(dict.fromkeys(reasons)) or "producer of %s not recognised" % pair_var


def _split_index_found(p, funcs, m, scs):
    """parse_*(s) is reached only when a guard established that s ends with a non-digit."""
    searcher = funcs.get(scs[0][1])
    if searcher is None:
        return False, "searcher vanished"
    lp = [n for n in searcher.body if isinstance(n, ast.For)][0]
    ifs = [n for n in lp.body if isinstance(n, ast.If)]
    if not (len(ifs) == 1 and isinstance(ifs[0].test, ast.UnaryOp) and isinstance(ifs[0].test.op, ast.Not) and isinstance(ifs[0].test.operand, ast.Call) and norm(ifs[0].test.operand.func).endswith(".isdigit")):
        return False, "the search predicate is not `not s[i].isdigit()`"
    # the caller of the splitting function: guarded by a predicate that tests endswith(<constants>) on the same element
    splitter = None
    for name, fn in funcs.items():
        if any(isinstance(n, ast.Call) and isinstance(n.func, ast.Name) and n.func.id == searcher.name for n in ast.walk(fn)):
            splitter = fn
    if splitter is None:
        return False, "no caller of the index search"
    facts = Facts(m.node)
    calls = [n for n in walk_function(m.node) if isinstance(n, ast.Call) and isinstance(n.func, ast.Name) and n.func.id == splitter.name]
    if not calls:
        return False, "pass does not call %s" % splitter.name
    for c in calls:
        guards = [t for t, pol in facts.conds_at(c) if pol]
        gfun = None
        for g in guards:
            try:
                ge = ast.parse(g, mode="eval").body
            except SyntaxError:
                continue
            if isinstance(ge, ast.Call) and isinstance(ge.func, ast.Name) and ge.func.id in funcs:
                gfun = funcs[ge.func.id]
        if gfun is None:
            return False, "call %s is not under a guard predicate" % norm(c)
        ends = [n for n in ast.walk(gfun) if isinstance(n, ast.Call) and isinstance(n.func, ast.Attribute) and n.func.attr == "endswith" and n.args]
        if not ends:
            return False, "guard %s has no endswith test" % gfun.name
        a = ends[0].args[0]
        lits = [x.value for x in (a.elts if isinstance(a, (ast.Tuple, ast.List)) else [a]) if isinstance(x, ast.Constant) and isinstance(x.value, str)]
        if not lits or any(not s or s[-1].isdigit() for s in lits):
            return False, "guard suffixes %r do not all end in a non-digit" % lits
        # the True return of the guard is under that endswith test
        gf = Facts(gfun)
        trues = [n for n in ast.walk(gfun) if isinstance(n, ast.Return) and isinstance(n.value, ast.Constant) and n.value.value is True]
        if not trues or not all(any("endswith" in t and pol for t, pol in gf.conds_at(x)) for x in trues):
            return False, "guard can return True without the endswith test"
        return True, "split only under %s: the element ends with one of %r, none a digit, so the search for the first non-digit succeeds" % (gfun.name, lits)
    return False, "?"


# ===================================================================== classifier
def _classify_tables(r, p, ct):
    n_sites = len(ct.sites)
    if n_sites < 600:
        raise AnalysisError("only %d classifier assignment sites found" % n_sites)
    r.extra["classifier_sites"] = n_sites
    r.extra["keyword_classes"] = len(ct.keyword_classes())
    r.extra["open_classes"] = len(ct.open_classes)
    r.extra["constant_valued_classes"] = len(ct.const_value)
    # V1
    n1 = 0
    for fi, n, api, lit, cls, litnode in ct.sites:
        if cls is None or lit is None or cls.key not in ct.const_value:
            continue
        n1 += 1
        kk = "%s:%s(%r, %s)" % (fi.key, api, lit, cls.key)
        cv = ct.const_value[cls.key]
        if cv.lower() == lit.lower():
            r.ok("C04.classify", kk, "class constant %r == tested literal" % cv, sample=n1 < 3)
        else:
            r.fail("C04.classify", kk, "%s tests for %r but the class %s always stores %r: the text read is replaced by a different text" % (api, lit, cls.key, cv), fi.loc(n))
    # multi-literal keyword classes that are constant valued are covered above; V2
    facts_cache = {}
    n2 = 0
    for fi, n, api, lit, cls, litnode in ct.sites:
        if cls is None or lit is not None or cls.key not in ct.const_value:
            continue
        if api in ("assign_next_token_if_not", "assign_next_token_if_not_one_of", "assign_tokens_until", "assign_tokens_until_ignoring_paren", "assign_tokens_until_matching_closing_paren"):
            r.fail("C04.classify", "%s:%s(%s)" % (fi.key, api, cls.key), "%s can assign arbitrary text to the constant-valued class %s (stores %r)" % (api, cls.key, ct.const_value[cls.key]), fi.loc(n))
            continue
        n2 += 1
        cv = ct.const_value[cls.key]
        kk = "%s:%s(%s)" % (fi.key, api, cls.key)
        if api == "tokenize_label":
            continue  # verified once below
        if fi.key not in facts_cache:
            facts_cache[fi.key] = Facts(fi.node)
        conds = [t for t, pol in facts_cache[fi.key].conds_at(n) if pol]
        if _guarded(conds, cv):
            r.ok("C04.classify", kk, "guarded by a test for %r" % cv, sample=n2 < 4)
            continue
        # if/elif chain on a local holding the lowered value: `elif sValue == ')'`
        if _sibling_detect_guards(p, fi, cv):
            r.ok("C04.classify", kk, "guarded in the module's detect() before classify() is entered", sample=False)
            continue
        r.fail(
            "C04.classify",
            kk,
            "%s replaces the text it finds by the constant %r of class %s without a dominating test that the text is %r" % (api, cv, cls.key, cv),
            fi.loc(n),
        )
    # tokenize_label verified once
    tl = p.function("vsg.vhdlFile.utils:tokenize_label")
    hl = p.function("vsg.vhdlFile.utils:has_label")
    f = Facts(tl.node)
    colon_assign = [n for n in walk_function(tl.node) if isinstance(n, ast.Call) and callee_text(n) == "assign_token" and len(n.args) == 3 and norm(n.args[2]) == tl.params[3]]
    ok_tl = bool(colon_assign) and all(any("has_label" in t and pol for t, pol in f.conds_at(c)) and any(t.replace(" ", "") == "iItemCount==1" and pol for t, pol in f.conds_at(c)) for c in colon_assign)
    ok_hl = any(isinstance(n, ast.Call) and callee_text(n) == "object_value_is" and len(n.args) == 3 and isinstance(n.args[2], ast.Constant) and n.args[2].value == ":" for n in walk_function(hl.node))
    n_tl = len([1 for s in ct.sites if s[2] == "tokenize_label"])
    if ok_tl and ok_hl:
        r.ok("C04.classify", tl.key, "label colon class assigned to the second item only after has_label() found ':' there (%d call sites)" % (n_tl // 2))
    else:
        r.fail("C04.classify", tl.key, "tokenize_label no longer assigns the colon class under has_label()'s ':' test", tl.loc())
    # every label colon class handed to tokenize_label stores ':'
    for fi, n, api, lit, cls, litnode in ct.sites:
        if api == "tokenize_label" and cls is not None and cls.key in ct.const_value and ct.const_value[cls.key] != ":":
            r.fail("C04.classify", "%s:tokenize_label(%s)" % (fi.key, cls.key), "label helper is given a constant class storing %r" % ct.const_value[cls.key], fi.loc(n))


def _guarded(conds, cv):
    reps = {repr(cv), '"%s"' % cv}
    for t in conds:
        for name, lit in GUARD_HELPERS.items():
            if name + "(" in t and lit == cv:
                return True
        if any(rp in t for rp in reps) and ("is_next_token" in t or "object_value_is" in t or "==" in t or "are_next_consecutive_tokens" in t or "find_in" in t):
            return True
    return False


def _type_guard(p, fi, conds, cv, ct):
    """A dominating `type(x) == K` / isinstance(x, K) where K is a constant-valued class storing the same text."""
    for t in conds:
        try:
            e = ast.parse(t, mode="eval").body
        except SyntaxError:
            continue
        k = None
        if isinstance(e, ast.Compare) and len(e.ops) == 1 and isinstance(e.ops[0], ast.Eq) and isinstance(e.left, ast.Call) and norm(e.left.func) == "type":
            k = e.comparators[0]
        elif isinstance(e, ast.Call) and norm(e.func) == "isinstance" and len(e.args) == 2:
            k = e.args[1]
        if k is not None and isinstance(k, (ast.Name, ast.Attribute)):
            ent = p.resolve_expr(fi.module, k)
            if ent and ent[0] == "class" and ct.const_value.get(ent[1].key) == cv:
                return True
    return False


def _merge_pattern(fi):
    """accumulate text over range(a, b) of list L, remove exactly those elements, store C(acc):
         for i in range(a, b): acc += L[i].get_value()
         for i in range(a, b): L.pop(a)        |   del L[a:b]
         L[a - 1] = C(acc)  (acc seeded with L[a-1].get_value())   |   L.insert(a, C(acc))  (acc seeded with "")
       Returns the set of statement texts it vouches for."""
    ok = set()
    loops = [n for n in walk_function(fi.node) if isinstance(n, ast.For) and isinstance(n.iter, ast.Call) and norm(n.iter.func) == "range" and len(n.iter.args) == 2]
    accs = []
    for lp in loops:
        if len(lp.body) == 1 and isinstance(lp.body[0], ast.AugAssign) and isinstance(lp.body[0].op, ast.Add):
            v = lp.body[0].value
            if isinstance(v, ast.Call) and isinstance(v.func, ast.Attribute) and v.func.attr == "get_value" and isinstance(v.func.value, ast.Subscript) and norm(v.func.value.slice) == norm(lp.target):
                accs.append((norm(lp.body[0].target), norm(v.func.value.value), norm(lp.iter.args[0]), norm(lp.iter.args[1]), lp))
    for acc, lst, a, b, lp in accs:
        removed = None
        for lp2 in loops:
            if lp2 is not lp and norm(lp2.iter.args[0]) == a and norm(lp2.iter.args[1]) == b and len(lp2.body) == 1 and isinstance(lp2.body[0], ast.Expr):
                cc = lp2.body[0].value
                if isinstance(cc, ast.Call) and norm(cc.func) == lst + ".pop" and len(cc.args) == 1 and norm(cc.args[0]) == a:
                    removed = norm(cc)
        for n in walk_function(fi.node):
            if isinstance(n, ast.Delete) and len(n.targets) == 1 and isinstance(n.targets[0], ast.Subscript) and isinstance(n.targets[0].slice, ast.Slice) and norm(n.targets[0].value) == lst:
                sl = n.targets[0].slice
                if sl.lower is not None and sl.upper is not None and norm(sl.lower) == a and norm(sl.upper) == b:
                    removed = norm(n)
        if removed is None:
            continue
        # the store
        for n in walk_function(fi.node):
            if isinstance(n, ast.Assign) and isinstance(n.targets[0], ast.Subscript) and norm(n.targets[0].value) == lst and isinstance(n.value, ast.Call) and n.value.args and norm(n.value.args[0]) == acc:
                ok.add(norm(n))
                ok.add(removed)
            if isinstance(n, ast.Call) and norm(n.func) == lst + ".insert" and len(n.args) == 2 and norm(n.args[0]) == a and isinstance(n.args[1], ast.Call) and n.args[1].args and norm(n.args[1].args[0]) == acc:
                ok.add(norm(n))
                ok.add(removed)
    return ok


def _split_pattern(fi, p, ct):
    """parts = V.split(SEP, 1) under `SEP in V`;  L[i] = A(parts[0]); L.insert(i + 1, D(SEP)); L.insert(i + 2, B(parts[1]))"""
    ok = set()
    f = None
    for n in walk_function(fi.node):
        if isinstance(n, ast.Assign) and isinstance(n.value, ast.Call) and isinstance(n.value.func, ast.Attribute) and n.value.func.attr == "split" and len(n.targets) == 1 and isinstance(n.targets[0], ast.Name):
            parts = n.targets[0].id
            args = n.value.args
            if not (len(args) == 2 and isinstance(args[0], ast.Constant) and isinstance(args[1], ast.Constant) and args[1].value == 1):
                continue
            sep = args[0].value
            src = norm(n.value.func.value)
            if f is None:
                f = Facts(fi.node)
            if not any(pol and t.replace('"', "'") == "%r in %s" % (sep, src) for t, pol in f.conds_at(n)):
                continue
            stores = {}
            for m in walk_function(fi.node):
                if isinstance(m, ast.Assign) and isinstance(m.targets[0], ast.Subscript) and isinstance(m.value, ast.Call) and m.value.args and norm(m.value.args[0]) == "%s[0]" % parts:
                    stores[0] = (m, norm(m.targets[0].slice), norm(m.targets[0].value))
                if isinstance(m, ast.Call) and isinstance(m.func, ast.Attribute) and m.func.attr == "insert" and len(m.args) == 2 and isinstance(m.args[1], ast.Call) and m.args[1].args:
                    a0 = m.args[1].args[0]
                    if isinstance(a0, ast.Constant) and a0.value == sep:
                        stores[1] = (m, norm(m.args[0]), norm(m.func.value))
                    elif norm(a0) == "%s[1]" % parts:
                        stores[2] = (m, norm(m.args[0]), norm(m.func.value))
            if len(stores) == 3 and stores[1][1] == stores[0][1] + " + 1" and stores[2][1] == stores[0][1] + " + 2" and len({s[2] for s in stores.values()}) == 1:
                for s in stores.values():
                    ok.add(norm(s[0]))
    return ok


def _sibling_detect_guards(p, fi, cv):
    if fi.cls is not None or fi.name not in ("classify",):
        return False
    det = fi.module.functions.get("detect")
    if det is None:
        return False
    f = Facts(det.node)
    for n in walk_function(det.node):
        if isinstance(n, ast.Call) and isinstance(n.func, ast.Name) and n.func.id == "classify":
            conds = [t for t, pol in f.conds_at(n) if pol]
            if _guarded(conds, cv):
                return True
    return False


def _split_builders(r, p, ct):
    """The dotted-name splitter: classify_selected_name replaces one item by build_*_token_list(value.split(".")).  The
    table reason for that replacement says the builders emit one token per part, in order, each followed by a dot token,
    and drop the trailing dot - so the joined text is the original.  That claim is checked here by shape."""
    cs = p.functions.get("vsg.vhdlFile.classify.utils:classify_selected_name")
    if cs is None:
        raise AnalysisError("classify_selected_name vanished")
    if not any(isinstance(n, ast.Assign) and isinstance(n.value, ast.Call) and isinstance(n.value.func, ast.Attribute) and n.value.func.attr == "split" and len(n.value.args) == 1 and isinstance(n.value.args[0], ast.Constant) and n.value.args[0].value == "." for n in walk_function(cs.node)):
        r.fail("C04.classify", cs.key + ":split", "the dotted name is no longer split on '.' alone", cs.loc())
    modfuncs = {fi.name: fi for fi in p.functions.values() if fi.module.name == "vsg.vhdlFile.classify.utils" and fi.cls is None}
    # builders: what the splice site's producer returns -- the producer itself, or (through a dispatcher whose
    # every return is a call of a module function) the functions it dispatches to
    entry = modfuncs.get("classify_selected_name")
    if entry is None:
        raise AnalysisError("classify_selected_name not found")
    prod = [modfuncs[n.value.func.id] for n in walk_function(entry.node) if isinstance(n, ast.Assign) and isinstance(n.value, ast.Call) and isinstance(n.value.func, ast.Name) and n.value.func.id in modfuncs]
    if len(prod) != 1:
        raise AnalysisError("classify_selected_name: producer of the replacement list not found")
    builders, seen, work = [], set(), [prod[0]]
    while work:
        fi = work.pop()
        if fi.key in seen:
            continue
        seen.add(fi.key)
        rets = [n for n in walk_function(fi.node) if isinstance(n, ast.Return)]
        if rets and all(isinstance(n.value, ast.Call) and isinstance(n.value.func, ast.Name) and n.value.func.id in modfuncs for n in rets):
            work.extend(modfuncs[n.value.func.id] for n in rets)
        else:
            builders.append(fi)
    dispatchers = seen - {b_.key for b_ in builders}
    if not builders:
        raise AnalysisError("selected-name builders not found")
    n_elem = 0
    any_problem = False
    for bfi in sorted(builders, key=lambda f: f.key):
        problems = []
        loops = [n for n in walk_function(bfi.node) if isinstance(n, ast.For)]
        rets = [n for n in walk_function(bfi.node) if isinstance(n, ast.Return)]
        parts = norm(loops[0].iter.args[0]) if loops and isinstance(loops[0].iter, ast.Call) and loops[0].iter.args else "?"
        if len(loops) != 1:
            problems.append("does not loop exactly once over every part of the split name")
        if any(isinstance(n, ast.Subscript) and norm(n.value) == parts and isinstance(n.slice, (ast.Constant, ast.UnaryOp)) for n in walk_function(bfi.node)):
            problems.append("picks parts by fixed position")
        if len(rets) != 1 or not isinstance(rets[0].value, ast.Name):
            problems.append("does not return the one list it builds")
        out = norm(rets[0].value) if rets and rets[0].value is not None else "?"
        pops = [n for n in walk_function(bfi.node) if isinstance(n, ast.Call) and isinstance(n.func, ast.Attribute) and n.func.attr == "pop" and norm(n.func.value) == out]
        if len(pops) != 1 or pops[0].args or (loops and pops[0].lineno < loops[0].end_lineno):
            problems.append("does not drop exactly the trailing separator after the loop")
        body = loops[0].body if loops else []
        efs = []
        call = None
        if len(body) == 1 and isinstance(body[0], ast.Expr) and isinstance(body[0].value, ast.Call) and isinstance(body[0].value.func, ast.Name):
            call = body[0].value
            fname = call.func.id
            if fname in bfi.params:
                # element classifier handed in as a function value: every call of the builder must pass a module function
                pi = bfi.params.index(fname)
                for g in modfuncs.values():
                    for c in walk_function(g.node):
                        if isinstance(c, ast.Call) and isinstance(c.func, ast.Name) and c.func.id == bfi.name:
                            a_ = c.args[pi] if pi < len(c.args) else None
                            if isinstance(a_, ast.Name) and a_.id in modfuncs:
                                efs.append(modfuncs[a_.id])
                            else:
                                problems.append("called with an element classifier that is not a function of the module")
            elif fname in modfuncs:
                efs.append(modfuncs[fname])
        if not efs:
            problems.append("loop body is not a call of an element classifier")
        for ef in efs:
            n_elem += 1
            amap = {pn: norm(a_) for pn, a_ in zip(ef.params, call.args)}
            lst = [pn for pn, a_ in amap.items() if a_ == out]
            prt = [pn for pn, a_ in amap.items() if a_ == parts]
            idx = [pn for pn, a_ in amap.items() if isinstance(loops[0].target, ast.Tuple) and a_ == norm(loops[0].target.elts[0])]
            if not (lst and prt and idx):
                problems.append("element classifier %s is not given the index, the parts and the output list" % ef.name)
                continue
            lst, prt, idx = lst[0], prt[0], idx[0]
            stmts = [st for st in ef.node.body if not (isinstance(st, ast.Expr) and isinstance(st.value, ast.Constant))]
            svar = None
            if stmts and isinstance(stmts[0], ast.Assign) and norm(stmts[0].value) == "%s[%s]" % (prt, idx):
                svar = norm(stmts[0].targets[0])
                stmts = stmts[1:]
            else:
                problems.append("%s: element text is not parts[index]" % ef.name)

            def is_part_append(st):
                return isinstance(st, ast.Expr) and isinstance(st.value, ast.Call) and norm(st.value.func) == lst + ".append" and len(st.value.args) == 1 and isinstance(st.value.args[0], ast.Call) and len(st.value.args[0].args) == 1 and norm(st.value.args[0].args[0]) == svar

            def is_dot_append(st):
                return isinstance(st, ast.Expr) and isinstance(st.value, ast.Call) and norm(st.value.func) == lst + ".append" and len(st.value.args) == 1 and isinstance(st.value.args[0], ast.Call) and not st.value.args[0].args and norm(st.value.args[0].func).endswith(".dot")

            def branches(ifn):
                out_ = [ifn.body]
                if len(ifn.orelse) == 1 and isinstance(ifn.orelse[0], ast.If):
                    out_ += branches(ifn.orelse[0])
                elif ifn.orelse:
                    out_.append(ifn.orelse)
                else:
                    out_.append(None)
                return out_

            if len(stmts) == 2 and isinstance(stmts[0], ast.If) and is_dot_append(stmts[1]):
                for br in branches(stmts[0]):
                    if br is None or len(br) != 1 or not is_part_append(br[0]):
                        problems.append("%s: a branch does not append exactly one token carrying the part's text" % ef.name)
                        break
            elif len(stmts) == 2 and is_part_append(stmts[0]) and is_dot_append(stmts[1]):
                pass
            else:
                problems.append("%s is not `one token with the part's text, then one dot`" % ef.name)
        for k in ("vsg.token.use_clause:dot", "vsg.token.context_reference:dot"):
            if ct.const_value.get(k) != ".":
                problems.append("%s is no longer the constant '.'" % k)
        if problems:
            any_problem = True
            r.fail("C04.classify", bfi.key + ":split-builder", "%s no longer provably re-emits every part of the split name (%s): text between the dots is lost when the file is written back" % (bfi.name, "; ".join(sorted(set(problems))[:3])), bfi.loc())
        else:
            r.ok("C04.classify", bfi.key + ":split-builder", "one token per part of value.split('.'), in order, each followed by '.', trailing '.' dropped (%d element classifier(s))" % len(efs))
    if n_elem < 2 and not any_problem:
        raise AnalysisError("only %d element classifiers behind the selected-name builders" % n_elem)

def _direct_writes(r, p, ct):
    """V3: every direct write of a token list in the classifier."""
    item = p.cls("vsg.parser:item")
    n_sites = 0
    for fi in p.functions.values():
        mn = fi.module.name
        if not (mn.startswith("vsg.vhdlFile.classify") or mn in ("vsg.vhdlFile.vhdlFile", "vsg.vhdlFile.utils")):
            continue
        if fi.key in ("vsg.vhdlFile.vhdlFile:vhdlFile.update", "vsg.vhdlFile.utils:fix_blank_lines", "vsg.vhdlFile.utils:fix_trailing_whitespace"):
            continue  # fix-time writers (C01/C18)
        if fi.key in HELPERS_VERIFIED:
            continue  # the assign_* helpers themselves are verified in _framing
        assigns = {}
        for n in walk_function(fi.node):
            if isinstance(n, ast.Assign) and len(n.targets) == 1 and isinstance(n.targets[0], ast.Name):
                assigns.setdefault(n.targets[0].id, []).append(n.value)
        loops = {}
        for n in walk_function(fi.node):
            if isinstance(n, ast.For) and isinstance(n.iter, ast.Call) and norm(n.iter.func) == "enumerate" and isinstance(n.target, ast.Tuple) and len(n.target.elts) == 2:
                loops[norm(n.target.elts[1])] = (norm(n.target.elts[0]), norm(n.iter.args[0]))
        facts = None
        vouched = None
        for n in walk_function(fi.node):
            if not (isinstance(n, ast.Assign) and len(n.targets) == 1 and isinstance(n.targets[0], ast.Subscript) and not isinstance(n.targets[0].slice, ast.Slice)):
                continue
            t = n.targets[0]
            v = n.value
            lst = norm(t.value)
            if not lst.startswith(("lObjects", "lTokens", "lAllObjects", "self.lAllObjects")):
                continue
            # only token constructions / conversions
            cls = None
            arg = None
            conv = False
            if isinstance(v, ast.Call):
                if isinstance(v.func, ast.Attribute) and v.func.attr == "convert_to":
                    conv = True
                else:
                    ent = p.resolve_expr(fi.module, v.func) if isinstance(v.func, (ast.Name, ast.Attribute)) else None
                    if ent and ent[0] == "class" and item in ent[1].mro:
                        cls = ent[1]
                        arg = v.args[0] if v.args else None
                    elif isinstance(v.func, (ast.Name, ast.Subscript)):
                        cls = "dynamic"
                        arg = v.args[0] if v.args else None
            if cls is None and not conv:
                continue
            n_sites += 1
            idx = norm(t.slice)
            kk = "%s:%s" % (fi.key, norm(n))
            if vouched is None:
                vouched = _merge_pattern(fi) | _split_pattern(fi, p, ct)
            if norm(n) in vouched:
                r.ok("C04.classify", kk, "store of a verified merge/split pattern", sample=False)
                continue
            if conv:
                recv = norm(v.func.value)
                src = loops.get(recv)
                if src and src[0] == idx and src[1] == lst:
                    r.ok("C04.classify", kk, "convert_to keeps the value of the element it replaces", sample=False)
                else:
                    r.unknown("C04.classify", kk, "convert_to of %s stored at %s[%s]" % (recv, lst, idx))
                continue
            if arg is None:
                # constant-valued class: needs a guard on the element's value
                cv = ct.const_value.get(cls.key) if cls != "dynamic" else None
                if facts is None:
                    facts = Facts(fi.node)
                conds = [tt for tt, pol in facts.conds_at(n) if pol]
                if cv is not None and (_guarded(conds, cv) or any(repr(cv) in c_ for c_ in conds) or _type_guard(p, fi, conds, cv, ct)):
                    r.ok("C04.classify", kk, "constant %r stored under a test for that text" % cv, sample=False)
                elif cv == "":
                    r.ok("C04.classify", kk, "empty-text token", sample=False)
                elif r.tabled("C04.classify", kk):
                    r.ok("C04.classify", kk, "tabled", sample=False)
                else:
                    r.fail("C04.classify", kk, "an element is replaced by the constant token %s without a test that its text is %r" % (norm(v.func), cv), fi.loc(n))
                continue
            # value argument: must be the value of the element being replaced
            a = arg
            hops = 0
            while isinstance(a, ast.Name) and a.id in assigns and len(assigns[a.id]) == 1 and hops < 3:
                a = assigns[a.id][0]
                hops += 1
            at = norm(a)
            same = at in ("%s[%s].get_value()" % (lst, idx),)
            if not same and isinstance(a, ast.Call) and isinstance(a.func, ast.Attribute) and a.func.attr == "get_value":
                recv = norm(a.func.value)
                src = loops.get(recv)
                same = bool(src and src[0] == idx and src[1] == lst)
            if not same and isinstance(arg, ast.Name) and arg.id in loops and loops[arg.id][0] == idx:
                same = True  # parallel string list of the same line (lTokens[i] is the text of lObjects[i])
            if same:
                r.ok("C04.classify", kk, "re-typed with the same text", sample=n_sites < 6)
                continue
            # definite mismatch: value of a *different* index of the same list
            if isinstance(a, ast.Call) and isinstance(a.func, ast.Attribute) and a.func.attr == "get_value" and isinstance(a.func.value, ast.Subscript) and norm(a.func.value.value) == lst and norm(a.func.value.slice) != idx:
                if r.tabled("C04.classify", kk):
                    r.ok("C04.classify", kk, "tabled", sample=False)
                else:
                    r.fail("C04.classify", kk, "element %s[%s] is replaced by a token carrying the text of %s[%s]" % (lst, idx, lst, norm(a.func.value.slice)), fi.loc(n))
                continue
            if r.tabled("C04.classify", kk):
                r.ok("C04.classify", kk, "tabled", sample=False)
            else:
                r.unknown("C04.classify", kk, "value `%s` not recognised as the replaced element's text" % at)
    r.extra["direct_write_sites"] = n_sites
    if n_sites < 25:
        raise AnalysisError("only %d direct token-list writes found in the classifier" % n_sites)
    # structural edits of token lists in the classifier (pop/insert/del/clear/append): closed world, each tabled or matched
    for fi in p.functions.values():
        mn = fi.module.name
        if not mn.startswith("vsg.vhdlFile.classify"):
            continue
        for n in walk_function(fi.node):
            hit = None
            if isinstance(n, ast.Call) and isinstance(n.func, ast.Attribute) and n.func.attr in ("pop", "insert", "clear", "remove", "append", "extend") and norm(n.func.value).startswith(("lObjects", "lFirstList")):
                hit = n
            elif isinstance(n, ast.Delete) and any(norm(t).startswith("lObjects") for t in n.targets):
                hit = n
            elif isinstance(n, ast.Assign) and any(isinstance(t, ast.Subscript) and isinstance(t.slice, ast.Slice) and norm(t.value).startswith(("lObjects", "lFirstList")) for t in n.targets):
                hit = n  # slice store: replaces a run of elements
            elif isinstance(n, ast.AugAssign) and norm(n.target).startswith(("lObjects", "lFirstList")) and not isinstance(n.target, ast.Subscript):
                hit = n  # lObjects += [...]
            if hit is None:
                continue
            kk = "%s:%s" % (fi.key, norm(hit)[:80])
            vouched = _merge_pattern(fi) | _split_pattern(fi, p, ct)
            if norm(hit) in vouched:
                r.ok("C04.classify", kk, "part of a verified merge/split pattern (text of the removed elements is carried by the stored token)")
            elif isinstance(hit, ast.Call) and isinstance(hit.func, ast.Attribute) and hit.func.attr == "append" and hit.args and isinstance(hit.args[0], ast.Call) and (
                (not hit.args[0].args and ct.const_value.get(_cls_key(p, fi, hit.args[0].func)) == "") or (hit.args[0].args and isinstance(hit.args[0].args[0], ast.Constant) and hit.args[0].args[0].value == "")
            ):
                r.ok("C04.classify", kk, "appends a token with empty text")
            elif r.tabled("C04.classify", kk):
                r.ok("C04.classify", kk, "tabled structural edit", sample=False)
            else:
                r.fail("C04.classify", kk, "the classifier adds or removes elements of the token list here and the site is not one of the verified merge/split patterns", fi.loc(hit))


def _cls_key(p, fi, e):
    ent = p.resolve_expr(fi.module, e) if isinstance(e, (ast.Name, ast.Attribute)) else None
    return ent[1].key if ent and ent[0] == "class" else None


def _framing(r, p):
    pf = p.function("vsg.vhdlFile.vhdlFile:vhdlFile._processFile")
    loops = [n for n in pf.node.body if isinstance(n, ast.For)]
    if len(loops) != 1 or norm(loops[0].iter) != "self.filecontent":
        r.fail("C04.classify", pf.key + ":lines", "_processFile does not iterate the lines read exactly once", pf.loc())
        return
    lp = loops[0]
    crs = [n for n in ast.walk(lp) if isinstance(n, ast.Call) and norm(n.func) == "self.lAllObjects.append" and n.args and norm(n.args[0]) == "parser.carriage_return()"]
    direct = [s for s in lp.body if isinstance(s, ast.Expr) and s.value in crs]
    if len(crs) == 1 and len(direct) == 1 and not any(isinstance(x, (ast.Continue, ast.Break, ast.Return)) for x in ast.walk(lp)):
        r.ok("C04.classify", pf.key + ":one-cr-per-line", "exactly one carriage_return appended per input line, unconditionally")
    else:
        r.fail("C04.classify", pf.key + ":one-cr-per-line", "_processFile does not append exactly one carriage_return per input line on every path", pf.loc(lp))
    # tokens of the line: items built from tokens.create(line-without-newline) and all of them extended
    tk = [n for n in ast.walk(lp) if isinstance(n, ast.Assign) and isinstance(n.value, ast.Call) and norm(n.value.func) == "tokens.create"]
    ext = [n for n in ast.walk(lp) if isinstance(n, ast.Call) and norm(n.func) == "self.lAllObjects.extend"]
    if len(tk) == 1 and len(ext) == 1:
        argt = norm(tk[0].value.args[0])
        lv = norm(lp.target)
        if argt.startswith(lv + ".rstrip(") and all(ch in "\\nr'\".rstip()" + lv for ch in argt[len(lv) :].replace(" ", "")):
            r.ok("C04.classify", pf.key + ":tokenize-line", "each line (less its line terminator) is tokenized and every object of the line is kept")
        else:
            r.fail("C04.classify", pf.key + ":tokenize-line", "the text handed to the tokenizer is `%s`, not the line less its terminator" % argt, pf.loc(tk[0]))
    else:
        r.fail("C04.classify", pf.key + ":tokenize-line", "line tokenization/extension shape changed", pf.loc(lp))
    items = [n for n in ast.walk(lp) if isinstance(n, ast.Call) and norm(n.func) == "lObjects.append" and n.args and norm(n.args[0]).startswith("parser.item(")]
    if len(items) == 1:
        il = [x for x in ast.walk(lp) if isinstance(x, ast.For) and any(items[0] is y for y in ast.walk(x)) and x is not lp]
        if il and norm(il[0].iter) == norm(tk[0].targets[0]) and norm(items[0].args[0]) == "parser.item(%s)" % norm(il[0].target):
            r.ok("C04.classify", pf.key + ":items", "one parser.item per lexical token, carrying its text")
        else:
            r.fail("C04.classify", pf.key + ":items", "items are not built one per lexical token with that token's text", pf.loc(items[0]))
    gl = p.function("vsg.vhdlFile.vhdlFile:vhdlFile.get_lines")
    if any(isinstance(n, ast.Call) and norm(n.func) == "utils.convert_token_list_to_string" for n in walk_function(gl.node)) and any(isinstance(n, ast.Call) and norm(n.func) == "split_on_carriage_return" and norm(n.args[0]) == "self.lAllObjects" for n in walk_function(gl.node)):
        r.ok("C04.classify", gl.key, "get_lines joins the tokens between carriage returns")
    else:
        r.fail("C04.classify", gl.key, "get_lines no longer joins every token between carriage returns", gl.loc())
    cs = p.function("vsg.vhdlFile.utils:convert_token_list_to_string")
    aug = [n for n in walk_function(cs.node) if isinstance(n, ast.AugAssign)]
    lps = [n for n in walk_function(cs.node) if isinstance(n, ast.For)]
    if len(aug) == 1 and len(lps) == 1 and norm(lps[0].iter) == cs.params[0] and norm(aug[0].value) == norm(lps[0].target) + ".get_value()" and not any(isinstance(x, (ast.If, ast.Continue, ast.Break)) for x in ast.walk(lps[0])):
        r.ok("C04.classify", cs.key, "concatenates get_value() of every token, unconditionally")
    else:
        r.fail("C04.classify", cs.key, "line text is not the concatenation of every token's value", cs.loc())
    sp = p.function("vsg.vhdlFile.vhdlFile:split_on_carriage_return")
    lp2 = [n for n in walk_function(sp.node) if isinstance(n, ast.For)]
    okk = False
    if len(lp2) == 1:
        # the loop element is appended on every iteration on which it is not a carriage return (either polarity / shape)
        from ..flow import Facts as _Facts

        fsp = _Facts(sp.node)
        el = norm(lp2[0].target)
        for x in ast.walk(lp2[0]):
            if isinstance(x, ast.Call) and norm(x.func).endswith(".append") and x.args and norm(x.args[0]) == el:
                conds = fsp.conds_at(x)
                canon = set()
                for t, pol in conds:
                    t = t.strip()
                    while t.startswith("not "):
                        t = t[4:].strip()
                        if t.startswith("(") and t.endswith(")"):
                            t = t[1:-1].strip()
                        pol = not pol
                    canon.add((t, pol))
                if all("carriage_return" in t and pol is False and el in t for t, pol in canon):
                    okk = True
    if okk:
        r.ok("C04.classify", sp.key, "every non-carriage-return token lands in exactly one line")
    else:
        r.fail("C04.classify", sp.key, "split_on_carriage_return no longer keeps every token", sp.loc())
    cv = p.function("vsg.parser:item.convert_to")
    ctor = [n for n in walk_function(cv.node) if isinstance(n, ast.Assign) and isinstance(n.value, ast.Call) and norm(n.value.func) == cv.params[1]]
    if len(ctor) == 1 and len(ctor[0].value.args) == 1 and norm(ctor[0].value.args[0]) == "self.value":
        r.ok("C04.classify", cv.key, "convert_to constructs the new class with the same text")
    else:
        r.fail("C04.classify", cv.key, "convert_to does not carry the token's text over", cv.loc())
    # item stores its argument
    init = p.function("vsg.parser:item.__init__")
    if any(isinstance(n, ast.Assign) and norm(n.targets[0]) == "self.value" and norm(n.value) == init.params[1] for n in walk_function(init.node)) and any(
        isinstance(n, ast.Return) and norm(n.value) == "self.value" for n in walk_function(p.function("vsg.parser:item.get_value").node)
    ):
        r.ok("C04.classify", init.key, "a token stores and returns its text unchanged")
    else:
        r.fail("C04.classify", init.key, "parser.item no longer stores/returns its text unchanged", init.loc())
    # assign_* helpers re-type with the same index's text
    for name in ("assign_next_token", "assign_token", "assign_next_token_if", "assign_next_token_if_not", "assign_next_token_if_not_one_of", "assign_next_token_required", "assign_tokens_until_matching_closing_paren"):
        fi = p.function("vsg.vhdlFile.utils:" + name)
        wr = [n for n in walk_function(fi.node) if isinstance(n, ast.Assign) and isinstance(n.targets[0], ast.Subscript) and norm(n.targets[0].value) == "lObjects"]
        bad = False
        for w in wr:
            idx = norm(w.targets[0].slice)
            v = w.value
            if isinstance(v, ast.Call) and v.args:
                if norm(v.args[0]) != "lObjects[%s].get_value()" % idx:
                    bad = True
            elif isinstance(v, ast.Call) and not v.args:
                hs = Facts(fi.node).in_handler(w)
                if "TypeError" not in hs:
                    bad = True
            else:
                bad = True
        if wr and not bad:
            r.ok("C04.classify", fi.key, "replaces lObjects[i] by token(lObjects[i].get_value()) (argument-less only for classes that take none)", sample=False)
        else:
            r.fail("C04.classify", fi.key, "helper no longer re-types an element with that same element's text", fi.loc())


# ========================================================================== clean
def _clean(r, ctx):
    from . import c16 as _c16, c20 as _c20

    res16 = _c16.run(ctx)
    rel = [f for f in res16.findings if f.rule in ("C16.sinks",) or "had_violations" in f.key or "commandLineArguments.fix" in f.key or "calls-writeback" in f.key]
    for f in rel:
        r.fail("C04.clean", f.key, "a file could be (re)written without an applied fix: " + f.message, f.loc)
    if not rel:
        r.ok("C04.clean", "write-back-guarded", "the only writers of a path derived from the input file are the write-back (dominated by --fix and had_violations) and the --backup copy")
    p = ctx.program
    scratch = Result("C20")
    _c20._nothing_else(scratch, p, ctx.callgraph(), p.function("vsg.rule:Rule.fix"))
    for f in scratch.findings:
        r.fail("C04.clean", f.key, "had_violations can be set without a fix having been applied: " + f.message, f.loc)
    if not scratch.findings:
        r.ok("C04.clean", "had_violations-per-fix", "had_violations is set only inside the per-violation fix loop and propagated under that flag")
    # fixable rules really have a fix; unfixable ones never reach update with changes (C03.c) - summarised
    fix = p.function("vsg.rule:Rule.fix")
    f = Facts(fix.node)
    ups = [n for n in walk_function(fix.node) if isinstance(n, ast.Call) and isinstance(n.func, ast.Attribute) and n.func.attr == "update"]
    if ups and all(dict(f.conds_at(u)).get("self.fixable") is True for u in ups):
        r.ok("C04.clean", fix.key + ":fixable-gate", "nothing is spliced for a rule with fixable False")
    else:
        r.fail("C04.clean", fix.key + ":fixable-gate", "Rule.fix updates the file outside the `if self.fixable` gate", fix.loc())


_T = "vsg/tokens.py"
VARIANTS = [
    Variant("C04", "use-clause name rebuilt from its first, second and last part", "fire",
            [("vsg/vhdlFile/classify/utils.py", "    lNewTokens = []\n    for iThisToken, sToken in enumerate(lTokens):\n        classify_use_clause_selected_name_elements(iThisToken, lNewTokens, lTokens, token)\n    lNewTokens.pop()\n    return lNewTokens", "    lNewTokens = [token.library_name(lTokens[0])]\n    if len(lTokens) > 2:\n        lNewTokens.extend([token.dot(), token.package_name(lTokens[1])])\n    if len(lTokens) > 1:\n        lNewTokens.extend([token.dot(), token.item_name(lTokens[-1])])\n    return lNewTokens")], rule="C04.classify", key="split-builder"),
    Variant("C04", "context-reference element classifier skips the dot for the last part", "fire",
            [("vsg/vhdlFile/classify/utils.py", "        lNewTokens.append(token.context_name(sToken))\n    lNewTokens.append(token.dot())", "        lNewTokens.append(token.context_name(sToken))\n    if iThisToken < len(lTokens):\n        lNewTokens.append(token.dot())")], rule="C04.classify", key="split-builder"),
    Variant("C04", "delimited-comment merge keeps only the text tokens of the replaced run", "fire",
            [("vsg/vhdlFile/classify/comment.py", "        sNewValue = \"\"\n        for iIndex in range(iStartIndex, iEndIndex + 1):\n            sNewValue += lObjects[iIndex].get_value()\n        del lObjects[iStartIndex : iEndIndex + 1]\n        lObjects.insert(iStartIndex, token.text(sNewValue))", "        lText = [oToken.get_value() for oToken in lObjects[iStartIndex : iEndIndex + 1] if isinstance(oToken, token.text)]\n        lObjects[iStartIndex : iEndIndex + 1] = [token.text(\"\".join(lText))]")], rule="C04.classify"),
    Variant("C04", "reader switches to read().splitlines()", "fire",
            [("vsg/vhdlFile/utils.py", "        lLines = []\n        for sLine in oFile:\n            lLines.append(sLine.rstrip(\"\\r\\n\"))\n        return lLines", "        return oFile.read().splitlines()")], rule="C04.reader"),
    Variant("C04", "reader strips trailing blanks", "fire",
            [("vsg/vhdlFile/utils.py", "            lLines.append(sLine.rstrip(\"\\r\\n\"))", "            lLines.append(sLine.rstrip())")], rule="C04.reader"),
    Variant("C04", "twin: reader uses readlines", "silent",
            [("vsg/vhdlFile/utils.py", "        for sLine in oFile:\n            lLines.append(sLine.rstrip(\"\\r\\n\"))", "        for sLine in oFile.readlines():\n            lLines.append(sLine.rstrip(\"\\r\\n\"))")]),
    Variant("C04", "word pass forgets to emit the separator", "fire",
            [(_T, "                if sTemp != \"\":\n                    lReturn.append(sTemp)\n                lReturn.append(sChar)\n                sTemp = \"\"", "                if sTemp != \"\":\n                    lReturn.append(sTemp)\n                    sTemp = \"\"\n                else:\n                    lReturn.append(sChar)")],
            rule="C04.tokenizer", key="combine_characters_into_words"),
    Variant("C04", "two-char window advances by three", "fire",
            [(_T, "            if sChars in lTwoCharacterSymbols:\n                lReturn.append(sChars)\n                i += 2", "            if sChars in lTwoCharacterSymbols:\n                lReturn.append(sChars)\n                i += 3")],
            rule="C04.tokenizer", key="combine_two_character_symbols"),
    Variant("C04", "whitespace flushed only at the end", "fire",
            [(_T, "                if sSpace.isspace():\n                    lReturn.append(sSpace)\n                    sSpace = \"\"\n                lReturn.append(sChar)", "                lReturn.append(sChar)")],
            rule="C04.tokenizer", key="combine_whitespace"),
    Variant("C04", "trailing word dropped", "fire",
            [(_T, "        if len(sTemp) != 0:\n            lReturn.append(sTemp)\n\n        self.lChars = lReturn\n\n    def combine_string_literals", "        self.lChars = lReturn\n\n    def combine_string_literals")],
            rule="C04.tokenizer", key="combine_characters_into_words"),
    Variant("C04", "quote pair end exclusive", "fire",
            [(_T, "        iRight = lPair[1] + 1\n        lReturn = self.lChars[0:iLeft]", "        iRight = lPair[1]\n        lReturn = self.lChars[0:iLeft]\n        iLeft = iLeft + 1")],
            rule="C04.tokenizer"),
    Variant("C04", "exponent letter lower-cased while splitting numbers", "fire",
            [(_T, "            lReturn.append(sTemp)\n            lReturn.append(sChar)\n            sTemp = \"\"\n        else:\n            sTemp += sChar", "            lReturn.append(sTemp)\n            lReturn.append(sChar.lower())\n            sTemp = \"\"\n        else:\n            sTemp += sChar")],
            rule="C04.tokenizer", key="split_natural_numbers"),
    Variant("C04", "bit string split without the base-specifier guard", "fire",
            [(_T, "            if is_bit_string_literal_integer_and_base_specifier(iIndex, self.lChars):\n                lReturn.extend", "            if iIndex < len(self.lChars) - 1:\n                lReturn.extend")],
            rule="C04.tokenizer", key="split-index"),
    Variant("C04", "keyword class with wrong literal", "fire",
            [("vsg/vhdlFile/classify/architecture_body.py", 'utils.assign_next_token_if("architecture", token.end_architecture_keyword', 'utils.assign_next_token_if("architecture", token.semicolon')],
            rule="C04.classify", key="semicolon"),
    Variant("C04", "constant class assigned without a test", "fire",
            [("vsg/vhdlFile/classify/primary_unit_declaration.py", "    iCurrent = utils.assign_token(lObjects, iCurrent, token.semicolon)", "    iCurrent = utils.assign_next_token(token.identifier, iCurrent, lObjects)\n    iCurrent = utils.assign_token(lObjects, iCurrent, token.semicolon)")],
            rule="C04.classify", key="semicolon"),
    Variant("C04", "carriage return only for non-empty lines", "fire",
            [("vsg/vhdlFile/vhdlFile.py", "            self.lAllObjects.extend(lObjects)\n            self.lAllObjects.append(parser.carriage_return())", "            self.lAllObjects.extend(lObjects)\n            if lObjects:\n                self.lAllObjects.append(parser.carriage_return())")],
            rule="C04.classify", key="one-cr-per-line"),
    Variant("C04", "entity name split drops the tail again", "fire",
            [("vsg/vhdlFile/classify/instantiated_unit.py", '        lTokenValue = sTokenValue.split(".", 1)', '        lTokenValue = sTokenValue.split(".")')], rule="C04.classify", key="classify_entity_name"),
    Variant("C04", "write-back whenever --fix is given", "fire",
            [("vsg/apply_rules.py", "        if oRules.had_violations:\n            write_vhdl_file(oVhdlFile, oConfig.dConfig)", "        write_vhdl_file(oVhdlFile, oConfig.dConfig)")], rule="C04.clean"),
    Variant("C04", "twin: word pass with renamed accumulator and len() test", "silent",
            [(_T, "                if sTemp != \"\":\n                    lReturn.append(sTemp)\n                lReturn.append(sChar)\n                sTemp = \"\"", "                if len(sTemp) > 0:\n                    lReturn.append(sTemp)\n                    sTemp = \"\"\n                lReturn.append(sChar)")]),
    Variant("C04", "twin: three-char window written with explicit width", "silent",
            [(_T, "            sChars = \"\".join(self.lChars[i : i + 3])\n            if sChars in lThreeCharacterSymbols:\n                lReturn.append(sChars)\n                i += 3", "            iWidth = 3\n            sChars = \"\".join(self.lChars[i : i + iWidth])\n            if sChars in lThreeCharacterSymbols:\n                lReturn.append(sChars)\n                i += iWidth")]),
]
