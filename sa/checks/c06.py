# -*- coding: utf-8 -*-
"""
C06 - analysis is read-only, repeatable and rules do not interfere.

Rules can only influence each other, or a later repetition, through state that outlives one
analyze() call: the file object and its tokens, the token index, module/class-level objects, and the
rule object itself.  Decided by effect analysis over the may-call graph from every analysis entry
point of every loaded rule (_get_tokens_of_interest, _analyze, analyze):

  C06.tokens   no token is mutated (set_value/set_indent/... or an attribute store on a token) by
               anything reachable from analysis.
  C06.file     nothing reachable from analysis writes file state (update, fix_blank_lines,
               fix_trailing_whitespace, set_token_indent, update_token_map, set_indent_map, a store to
               lAllObjects/oTokenMap), mutates the file's token list or the token index in place, or
               hands them to a function that does.
  C06.self     writes to the rule object during analysis are recomputed caches; read-modify-write of a
               rule attribute (append/+=) makes the result depend on how often analysis ran.
  C06.driver   check_rules only analyses, counts and sets its own fields; clear_violations resets
               exactly `violations`.
  C06.determinism no source of nondeterminism (random, time, id, hash, os.urandom) is reachable.
Does not decide: the documented sub-phase dependence (allowed), nor that two rules' fixes commute.
"""

import ast

from ..effects import TOKEN_MUTATORS
from ..model import AnalysisError, local_names, norm, walk_function
from ..mutation import fresh_locals, mutation_sites
from ..report import Result
from ..selftest import Variant
from ..summaries import Summaries

LEVEL = "other"
META = {
    "technique": "static analysis: effect analysis over the may-call graph from all analysis entry points (token mutation, file-state writes, in-place mutation of the token list / token index classified by a may-alias analysis with return/mutate-parameter summaries, read-modify-write of rule state), driver shape check; memoising-decorator lint with return-value immutability",
    "level_text": "Decides non-interference by construction for all inputs, rule subsets and analysis orders: if analysis writes neither the file model nor the "
    "index nor shared objects, and only recomputed caches on the rule itself, the violations a rule reports are a function of (file, that rule's "
    "configuration). Sites where today's tree violates this are individually triaged (known finding with a demonstrated input, or tabled with a reason).",
    "level_note": "Trusted base: CPython ast, the analyser's over-approximating call graph, alias summaries, Hungarian-convention receiver typing for token objects. "
    "Not decided: sub-phase dependence (documented), commutation of fixes.",
}

FILE_WRITERS = {"update", "fix_blank_lines", "fix_trailing_whitespace", "set_token_indent", "update_token_map", "set_indent_map", "_processFile"}
TOKEN_NAME_HINT = ("oToken", "oObject", "oNextToken", "oPrevToken", "oComment", "oWhitespace", "oLeft", "oRight", "oItem", "oFirstToken", "oLastToken", "oSecondLastToken", "oMyToken")
NONDET = {"random", "time", "uuid", "secrets"}


def analysis_roots(p, rt):
    roots = []
    seen = set()
    for e in rt.live():
        for m in ("_get_tokens_of_interest", "_analyze", "analyze"):
            f = e.ci.find_method(m)
            if f is not None and f.key not in seen:
                seen.add(f.key)
                roots.append(f)
    return roots


def _is_token_receiver(expr, fi, fresh):
    """Receiver expression denotes a token of the file (by VSG's naming convention / element of a token list)."""
    if isinstance(expr, ast.Name):
        if expr.id in fresh:
            return False
        return expr.id.startswith(TOKEN_NAME_HINT) or expr.id in ("token",)
    if isinstance(expr, ast.Subscript) and not isinstance(expr.slice, ast.Slice):
        b = expr.value
        t = norm(b)
        return t.startswith(("lTokens", "lAllTokens", "lAllObjects", "lObjects", "lMyTokens", "lNewTokens")) or t.endswith((".get_tokens()", ".lTokens", ".lAllObjects"))
    return False


def run(ctx):
    p = ctx.program
    cg = ctx.callgraph()
    rt = ctx.ruletable
    r = Result("C06")
    r.load_table("c06.json")
    r.rule("C06.tokens", "no token mutation reachable from analysis")
    r.rule("C06.file", "no file-state write / in-place mutation of the token list or index reachable from analysis")
    r.rule("C06.self", "writes to the rule during analysis are recomputed caches, not read-modify-write")
    r.rule("C06.driver", "check_rules only analyses and counts; clear_violations resets exactly violations")
    r.rule("C06.determinism", "no nondeterminism source reachable from analysis")
    r.rule("C06.memo", "nothing reachable from analysis is memoised with a mutable result (one object shared by every rule and every repetition)")
    r.explanation = (
        "All functions reachable from the analysis entry points of every live rule (static rule table x class hierarchy call graph) are "
        "scanned for effect sites; receivers are classified by a flow-insensitive may-alias analysis (origins FILE list, token INDEX, "
        "parameters) with whole-program summaries of which parameters a function may return or mutate."
    )
    roots = analysis_roots(p, rt)
    if len(roots) < 150:
        raise AnalysisError("only %d analysis entry points found" % len(roots))
    reach = cg.reachable(roots)
    funcs = [p.functions[k] for k in sorted(reach)]
    r.extra["analysis_entry_points"] = len(roots)
    r.extra["functions_reachable_from_analysis"] = len(funcs)
    from ..effects import memoised_functions

    memo = memoised_functions(p)
    r.extra["memoised_functions"] = [fi.key for fi, _, _ in memo]
    hit = False
    for fi, deco, mutable in memo:
        if fi.key in reach and mutable:
            hit = True
            r.fail("C06.memo", fi.key, "%s is memoised (@%s) and returns an object built per call: every rule and every repetition of the analysis is handed the same object, so whatever one of them adds to it is seen by the next (results depend on which rules ran before)" % (fi.name, deco), fi.loc(), path=[x[0] for x in cg.path(reach, fi.key)][-7:])
    if not hit:
        r.ok("C06.memo", "analysis-reach", "%d memoised function(s) in vsg/, none reachable from analysis with a mutable result" % len(memo))
    summ = Summaries(p, cg)
    vf = p.cls("vsg.vhdlFile.vhdlFile:vhdlFile")
    rule_cls = p.cls("vsg.rule:Rule")

    def path(fi):
        return [x[0] for x in cg.path(reach, fi.key)][-7:]

    n_tok = n_file = n_self = 0
    for fi in funcs:
        fresh, binds = fresh_locals(fi, p)
        locs = local_names(fi.node)
        # ------------------------------------------------------------ tokens
        for n in walk_function(fi.node):
            if isinstance(n, ast.Call) and isinstance(n.func, ast.Attribute) and n.func.attr in TOKEN_MUTATORS:
                recv = n.func.value
                ent = p.resolve_expr(fi.module, n.func, local_names=locs) if isinstance(recv, (ast.Name, ast.Attribute)) else None
                if ent is not None and ent[0] == "func" and ent[1].cls is None:
                    continue  # module-level function that merely shares the name (alignment_utils.set_indent)
                if isinstance(recv, ast.Name) and recv.id in fresh:
                    continue
                if isinstance(recv, ast.Name) and recv.id == "self" and fi.cls is not None and not fi.module.name.startswith("vsg.parser"):
                    continue
                if fi.module.name == "vsg.parser":
                    continue
                n_tok += 1
                r.fail(
                    "C06.tokens",
                    "%s:%s" % (fi.key, norm(n)),
                    "analysis mutates a token (%s): a later rule, or a repetition of the check, sees a different file model" % n.func.attr,
                    fi.loc(n),
                    path=path(fi),
                )
        for m in mutation_sites(fi):
            if m.kind == "attr-store" and _is_token_receiver(m.recv, fi, fresh):
                n_tok += 1
                r.fail("C06.tokens", m.key, "analysis stores attribute `%s` on a token of the file" % m.method, fi.loc(m.node), path=path(fi))
        # -------------------------------------------------------------- file
        for s in cg.sites.get(fi.key, ()):
            if s.kind != "resolved":
                continue
            for t in s.targets:
                if t.cls is vf and t.name in FILE_WRITERS:
                    # only when the receiver can be the file object
                    recv = s.node.func.value if isinstance(s.node.func, ast.Attribute) else None
                    rt_ = norm(recv) if recv is not None else ""
                    if rt_ in ("oFile", "oVhdlFile", "self.oVhdlFile", "self") and (rt_ != "self" or fi.cls is vf):
                        n_file += 1
                        r.fail("C06.file", "%s:%s" % (fi.key, norm(s.node)), "analysis calls the file writer vhdlFile.%s" % t.name, fi.loc(s.node), path=path(fi))
        for m in mutation_sites(fi):
            if m.kind == "attr-store" and m.method in ("lAllObjects", "oTokenMap", "dIndentMap") and not (fi.name == "__init__"):
                n_file += 1
                r.fail("C06.file", m.key, "analysis re-binds file state `%s`" % m.method, fi.loc(m.node), path=path(fi))
        # aliases of the file list / index mutated in place
        def source(fi_, e):
            if isinstance(e, ast.Attribute) and e.attr == "lAllObjects":
                return "FILE"
            if isinstance(e, ast.Call) and isinstance(e.func, ast.Attribute) and e.func.attr == "get_token_indexes":
                copy = any(kw.arg == "bCopy" and isinstance(kw.value, ast.Constant) and kw.value.value is True for kw in e.keywords) or (len(e.args) > 1 and isinstance(e.args[1], ast.Constant) and e.args[1].value is True)
                return None if copy else "INDEX"
            if isinstance(e, ast.Subscript):
                b = e
                while isinstance(b, ast.Subscript):
                    b = b.value
                if isinstance(b, ast.Attribute) and b.attr == "dMap":
                    return "INDEX"
            return None

        org = None
        for m in mutation_sites(fi):
            if m.root is None or m.root == "self":
                continue
            if m.kind == "attr-store":
                continue
            if m.path and m.path[0] == "[]" and m.kind == "method":
                continue  # x[i].append(): element of the list, not the list
            if org is None:
                org = summ.origins(fi, source)
            tags = org.get(m.root, set())
            # parameters named like the file list in extract helpers
            if m.root in ("lAllTokens", "lAllObjects") and m.root in fi.params and not m.path:
                tags = tags | {"FILE"}
            direct = source(fi, m.recv)
            if direct:
                tags = tags | {direct}
            for tag in ("FILE", "INDEX"):
                if tag in tags and (not m.path or m.kind == "item-store"):
                    if fi.module.name == "vsg.token_map" and fi.name in ("process_tokens",):
                        continue
                    n_file += 1
                    r.fail(
                        "C06.file",
                        m.key,
                        "analysis mutates %s in place (`%s`): %s"
                        % ("the file's token list" if tag == "FILE" else "a list of the token index (get_token_indexes returns the index's own list unless bCopy=True)", norm(m.node)[:70], "every later rule sees the change"),
                        fi.loc(m.node),
                        path=path(fi),
                    )
        # passing FILE / INDEX aliases to a function that mutates that parameter
        for s in cg.sites.get(fi.key, ()):
            if s.kind != "resolved":
                continue
            for t in s.targets:
                tm = summ.mutates_param.get(t.key, ())
                if not tm:
                    continue
                for i, a in enumerate(s.node.args):
                    if summ.param_index_for_arg(fi, s.node, t, i) not in tm:
                        continue
                    if org is None:
                        org = summ.origins(fi, source)
                    tags = summ.expr_origins(fi, a, org, source)
                    if isinstance(a, ast.Name) and a.id in ("lAllTokens", "lAllObjects") and a.id in fi.params:
                        tags = tags | {"FILE"}
                    for tag in ("FILE", "INDEX"):
                        if tag in tags and _struct_mutation(p, summ, t, summ.param_index_for_arg(fi, s.node, t, i)):
                            n_file += 1
                            r.fail(
                                "C06.file",
                                "%s:%s" % (fi.key, norm(s.node)[:90]),
                                "analysis passes %s to %s, which mutates that argument in place" % ("the file's token list" if tag == "FILE" else "a list owned by the token index", t.key),
                                fi.loc(s.node),
                                path=path(fi),
                            )
        # -------------------------------------------------------------- self
        if fi.cls is not None and rule_cls in fi.cls.mro and fi.name != "__init__":
            for m in mutation_sites(fi):
                if m.root != "self" or not m.path:
                    continue
                attr = m.path[0][1:]
                if attr in ("violations",):
                    continue
                rmw = (m.kind == "method") or (m.kind == "item-store") or (isinstance(m.node, ast.AugAssign))
                if not rmw:
                    continue
                # fresh re-assignment earlier in the same method -> recomputed cache
                from .c15 import _dominating_fresh_assignment

                if _dominating_fresh_assignment(fi, m, attr):
                    continue
                n_self += 1
                r.fail(
                    "C06.self",
                    m.key,
                    "analysis read-modify-writes rule attribute `%s` (%s): its content depends on how many times the rule was analysed before" % (attr, m.method or m.kind),
                    fi.loc(m.node),
                    path=path(fi),
                )
            # local alias of a rule attribute mutated in place: x = self.a ; x += [...] / x.append(..)
            binds = {}
            for n in walk_function(fi.node):
                if isinstance(n, ast.Assign) and len(n.targets) == 1 and isinstance(n.targets[0], ast.Name):
                    binds.setdefault(n.targets[0].id, []).append(n.value)
            for m in mutation_sites(fi):
                if m.root is None or m.root == "self" or m.path:
                    continue
                rmw = (m.kind == "method") or (m.kind == "item-store") or (isinstance(m.node, ast.AugAssign))
                if not rmw:
                    continue
                vals = binds.get(m.root, [])
                al = [v for v in vals if isinstance(v, ast.Attribute) and isinstance(v.value, ast.Name) and v.value.id == "self"]
                if not al or len(al) != len(vals):
                    continue  # also bound to something else (a fresh copy on another branch): not decided here
                attr = al[0].attr
                if attr in ("violations",):
                    continue
                n_self += 1
                r.fail(
                    "C06.self",
                    m.key,
                    "analysis mutates `%s` in place, a local alias of rule attribute `%s` (%s): what one analysis adds is still there in the next one, so the reported violations depend on what was analysed before" % (m.root, attr, m.method or m.kind),
                    fi.loc(m.node),
                    path=path(fi),
                )
        # ------------------------------------------------------ determinism
        for n in walk_function(fi.node):
            if isinstance(n, ast.Call):
                f = n.func
                if isinstance(f, ast.Name) and f.id in ("id", "hash") and f.id not in locs and f.id not in fi.module.bindings:
                    r.fail("C06.determinism", "%s:%s" % (fi.key, norm(n)[:50]), "%s() is run-dependent" % f.id, fi.loc(n), path=path(fi))
                elif isinstance(f, ast.Attribute) and isinstance(f.value, ast.Name):
                    ent = p.resolve_name(fi.module, f.value.id) if f.value.id not in locs else None
                    if ent and ent[0] == "external" and ent[1].split(".")[0] in NONDET:
                        r.fail("C06.determinism", "%s:%s" % (fi.key, norm(n)[:50]), "call into %s makes analysis non-repeatable" % ent[1], fi.loc(n), path=path(fi))
    r.ok("C06.tokens", "reach:analysis", "%d entry points, %d reachable functions scanned; %d token-mutation site(s) found" % (len(roots), len(funcs), n_tok))
    r.ok("C06.file", "reach:analysis", "%d file-state site(s) found" % n_file)
    r.ok("C06.self", "reach:analysis", "%d read-modify-write site(s) on rule attributes found" % n_self)
    r.ok("C06.determinism", "reach:analysis", "no random/time/id/hash reachable")

    _driver(r, p)
    return r


def _struct_mutation(p, summ, t, idx):
    """Does t (or callees) change the *structure* of parameter idx (not just attributes of elements)?
    Conservative: true if any direct mutation site in t on that parameter is a container mutator on the
    parameter itself, an item store or a delete; otherwise follow one level of calls."""
    if idx >= len(t.params):
        return False
    pn = t.params[idx]
    for m in mutation_sites(t):
        if m.root == pn and not m.path and m.kind in ("method", "item-store", "aug"):
            return True
        if m.root == pn and m.path == [] and isinstance(m.node, ast.Delete):
            return True
    for s in summ.cg.sites.get(t.key, ()):
        if s.kind != "resolved":
            continue
        for t2 in s.targets:
            if t2 is t:
                continue
            for i, a in enumerate(s.node.args):
                if isinstance(a, ast.Name) and a.id == pn:
                    j = summ.param_index_for_arg(t, s.node, t2, i)
                    if j in summ.mutates_param.get(t2.key, ()):
                        pn2 = t2.params[j] if j < len(t2.params) else None
                        for m in mutation_sites(t2):
                            if m.root == pn2 and not m.path and m.kind in ("method", "item-store", "aug"):
                                return True
    return False


def _driver(r, p):
    chk = p.function("vsg.rule_list:rule_list.check_rules")
    allowed_calls = {"range", "self.get_rules_in_phase", "self.get_rules_in_subphase", "filter_out_disabled_rules", "oRule.analyze", "len"}
    for n in walk_function(chk.node):
        if isinstance(n, ast.Call):
            ct = norm(n.func)
            if ct not in allowed_calls:
                r.fail("C06.driver", "%s:%s" % (chk.key, ct), "check_rules calls %s: a check must only select, analyse and count" % ct, chk.loc(n))
    stores = set()
    for n in walk_function(chk.node):
        if isinstance(n, (ast.Assign, ast.AugAssign)):
            for t in n.targets if isinstance(n, ast.Assign) else [n.target]:
                if isinstance(t, ast.Attribute):
                    stores.add(norm(t))
    extra = stores - {"self.iNumberRulesRan", "self.violations", "self.lastPhaseRan"}
    if extra:
        r.fail("C06.driver", chk.key + ":stores", "check_rules writes %s" % sorted(extra), chk.loc())
    else:
        r.ok("C06.driver", chk.key, "only select/analyse/count; writes its own three fields")
    for key in ("vsg.rule:Rule.clear_violations",):
        fi = p.function(key)
        body = [s for s in fi.node.body if not (isinstance(s, ast.Expr) and isinstance(s.value, ast.Constant))]
        if len(body) == 1 and isinstance(body[0], ast.Assign) and norm(body[0].targets[0]) == "self.violations" and isinstance(body[0].value, ast.List) and not body[0].value.elts:
            r.ok("C06.driver", key, "resets exactly self.violations")
        else:
            r.fail("C06.driver", key, "clear_violations does more (or less) than resetting self.violations", fi.loc())
    an = p.function("vsg.rule:Rule.analyze")
    calls = [norm(n.func) for n in walk_function(an.node) if isinstance(n, ast.Call)]
    if calls.count("self._get_tokens_of_interest") == 1 and calls.count("self._analyze") == 1 and not [c for c in calls if c not in ("self._get_tokens_of_interest", "self._analyze", "self._print_debug_message")]:
        r.ok("C06.driver", an.key, "analyze = _get_tokens_of_interest + _analyze")
    else:
        r.fail("C06.driver", an.key, "Rule.analyze does more than extract + analyse: %s" % calls, an.loc())


VARIANTS = [
    Variant("C06", "scope pairing of the consistent-case rules memoised (dicts shared by every rule)", "fire",
            [("vsg/rules/consistent_case_utils.py", "def merge_block_indexes_into_list(lFirst, lSecond, lThird, sType):", "import functools\n\n\n@functools.lru_cache(maxsize=32)\ndef merge_block_indexes_into_list(lFirst, lSecond, lThird, sType):")],
            rule="C06.memo", key="merge_block_indexes_into_list"),
    Variant("C06", "twin: a memoised helper that returns text", "silent",
            [("vsg/rules/alignment_utils.py", "def build_solution(sIndent):", "import functools\n\n\n@functools.lru_cache(maxsize=32)\ndef build_solution(sIndent):")]),
    Variant("C06", "analysis extends a rule attribute through a local alias", "fire",
            [("vsg/rules/blank_line_below_line_ending_with_token.py", "lAllowTokens = self.lAllowTokens + [token.pragma.pragma]", "lAllowTokens = self.lAllowTokens\n            lAllowTokens += [token.pragma.pragma]")], rule="C06.self"),
    Variant("C06", "case rule normalises token value during analysis", "fire",
            [("vsg/rules/case_utils.py", "def get_token_value(oToi, iIndex):\n    return oToi.get_tokens()[iIndex].get_value()", "def get_token_value(oToi, iIndex):\n    oToken = oToi.get_tokens()[iIndex]\n    oToken.set_value(oToken.get_value().strip())\n    return oToken.get_value()")],
            rule="C06.tokens", key="case_utils"),
    Variant("C06", "analysis sorts the index list in place", "fire",
            [("vsg/rules/consistent_case_utils.py", "        lReturn.extend(oTokenMap.get_token_indexes(oToken))\n    lReturn.sort()\n    return lReturn", "        lReturn = lReturn or oTokenMap.get_token_indexes(oToken)\n    lReturn.sort()\n    return lReturn")],
            rule="C06.file", key="consistent_case_utils"),
    Variant("C06", "extract helper pops from the file list", "fire",
            [("vsg/vhdlFile/extract/get_tokens_matching.py", "def get_tokens_matching(lTokens, lAllTokens, oTokenMap):\n", "def get_tokens_matching(lTokens, lAllTokens, oTokenMap):\n    if lAllTokens and lAllTokens[-1] is None:\n        lAllTokens.pop()\n")],
            rule="C06.file", key="get_tokens_matching"),
    Variant("C06", "rule refreshes indents before analysing", "fire",
            [("vsg/rules/token_indent.py", "    def _get_tokens_of_interest(self, oFile):\n", "    def _get_tokens_of_interest(self, oFile):\n        oFile.set_token_indent()\n")],
            rule="C06.file", key="token_indent"),
    Variant("C06", "rule accumulates seen lines across analyses", "fire",
            [("vsg/rules/token_case.py", "        self.oRegex = re.compile(self.regex)\n", "        self.oRegex = re.compile(self.regex)\n        self.prefix_exceptions.append(\"\")\n")], rule="C06.self", key="prefix_exceptions"),
    Variant("C06", "check_rules re-indents before phase 4", "fire",
            [("vsg/rule_list.py", "            if phase in lSkipPhase:\n                continue\n\n            for subphase in range(0, 6):\n                lRules = self.get_rules_in_phase(phase)\n                lRules = self.get_rules_in_subphase(lRules, subphase)\n                lRules = filter_out_disabled_rules(lRules)\n\n",
              "            if phase in lSkipPhase:\n                continue\n            if phase == 4:\n                self.oVhdlFile.set_token_indent()\n\n            for subphase in range(0, 6):\n                lRules = self.get_rules_in_phase(phase)\n                lRules = self.get_rules_in_subphase(lRules, subphase)\n                lRules = filter_out_disabled_rules(lRules)\n\n")],
            rule="C06.driver"),
    Variant("C06", "twin: analysis builds and sorts its own copy of the index list", "silent",
            [("vsg/rules/consistent_case_utils.py", "        lReturn.extend(oTokenMap.get_token_indexes(oToken))\n    lReturn.sort()", "        lReturn.extend(oTokenMap.get_token_indexes(oToken, bCopy=True))\n    lReturn.sort()")]),
]
