# -*- coding: utf-8 -*-
"""
C18 - the token index and every rule's region of interest mirror the token list.

  C18.toi      at every tokens.New(S, L, T) site, T is a slice X[S':E] (or [X[S']]) of the function's
               token-list parameter and S' == S as linear expressions: the recorded start position is
               where those very tokens sit.  S != S' (differing by a constant) is refuted; anything
               the analysis cannot put into that form is listed as unproven, not alarmed.
               tokens.New derives its end index from the start and the list it was given;
               extract_tokens adds its offset to the parent's start; update() splices with the same
               update's start/end, last update first.
  C18.remap    a rule that opts out of re-indexing (remap False: case and naming groups) has a fix
               whose effect signature contains no structural edit (no insert/delete/slice/rebuilt list,
               no token construction): it cannot shift positions, so the stale index stays exact.
  C18.index    lists owned by the index (get_token_indexes without bCopy=True, dMap[..]) are never
               mutated in place or handed to a function that mutates that parameter - anywhere.
  C18.rebuild  every writer of vhdlFile.lAllObjects is followed by a rebuild of the index before the
               next rule runs: update() rebuilds under bUpdateMap (covered by C18.remap), the two
               phase-1 normalisers are post-dominated by update_token_map in rule_list.fix.
  C18.ids      every token class's docstring names its own module and class as unique_id (the index key
               is read from the docstring), and ids are unique.
"""

import ast

from ..flow import Facts, callee_text
from ..model import AnalysisError, norm, walk_function
from ..mutation import mutation_sites
from ..report import Result
from ..ruletable import UNKNOWN
from ..selftest import Variant
from ..summaries import Summaries
from ..fixeffects import FixEffects

LEVEL = "other"
META = {
    "technique": "static analysis: linear-expression agreement at every region-of-interest construction site, effect signature of fixes (alias-tracked structural edits) against the static rule table's remap flag, may-alias/escape analysis of index-owned lists with mutate-parameter summaries, post-dominance of the index rebuild, docstring-id table agreement",
    "level_text": "Decides the invariant's structural carriers for every input: where a region's start index and its token slice come from, that opting out of "
    "re-indexing implies a length-preserving fix (the defect no single-rule test can see, because a stale index only hurts the next rule), "
    "that nobody edits the index's own lists, that list writers are followed by a rebuild, and that index keys are well-formed and unique.",
    "level_note": "Trusted base: CPython ast, the analyser (alias summaries are may-analyses; unproven sites are listed). Not decided: data-dependent start offsets built "
    "by accumulation (listed as unproven), correctness of the value-dependent end of a region.",
}


# ---------------------------------------------------------------- linear forms
def linear(e, subst, depth=0):
    """Return ({name: coeff}, const) or None."""
    if depth > 6:
        return None
    if isinstance(e, ast.Constant) and isinstance(e.value, int) and not isinstance(e.value, bool):
        return ({}, e.value)
    if isinstance(e, ast.Call) and isinstance(e.func, ast.Attribute) and e.func.attr == "get_start_index" and not e.args and isinstance(e.func.value, ast.Name):
        return ({"%s.get_start_index()" % e.func.value.id: 1}, 0)
    if isinstance(e, ast.Name):
        if e.id in subst and subst[e.id] is not None:
            r = linear(subst[e.id], subst, depth + 1)
            if r is not None:
                return r
        return ({e.id: 1}, 0)
    if isinstance(e, ast.UnaryOp) and isinstance(e.op, ast.USub):
        r = linear(e.operand, subst, depth + 1)
        if r is None:
            return None
        return ({k: -v for k, v in r[0].items()}, -r[1])
    if isinstance(e, ast.BinOp) and isinstance(e.op, (ast.Add, ast.Sub)):
        a = linear(e.left, subst, depth + 1)
        b = linear(e.right, subst, depth + 1)
        if a is None or b is None:
            return None
        sign = 1 if isinstance(e.op, ast.Add) else -1
        out = dict(a[0])
        for k, v in b[0].items():
            out[k] = out.get(k, 0) + sign * v
        out = {k: v for k, v in out.items() if v != 0}
        return (out, a[1] + sign * b[1])
    if isinstance(e, (ast.Attribute, ast.Subscript, ast.Call)):
        return ({norm(e): 1}, 0)
    return None


def _single_assign_ints(fnode):
    seen = {}
    for n in walk_function(fnode):
        if isinstance(n, ast.Assign):
            for t in n.targets:
                if isinstance(t, ast.Name):
                    seen.setdefault(t.id, []).append(n.value)
                elif isinstance(t, (ast.Tuple, ast.List)):
                    for x in t.elts:
                        if isinstance(x, ast.Name):
                            seen.setdefault(x.id, []).append(None)
        elif isinstance(n, ast.AugAssign) and isinstance(n.target, ast.Name):
            seen.setdefault(n.target.id, []).append(None)
            seen.setdefault(n.target.id, []).append(None)
        elif isinstance(n, ast.For):
            for x in ast.walk(n.target):
                if isinstance(x, ast.Name):
                    seen.setdefault(x.id, []).append(None)
                    seen.setdefault(x.id, []).append(None)
    return {k: v[0] for k, v in seen.items() if len(v) == 1 and v[0] is not None and isinstance(v[0], (ast.BinOp, ast.Name, ast.Constant))}


def run(ctx):
    p = ctx.program
    cg = ctx.callgraph()
    rt = ctx.ruletable
    r = Result("C18")
    r.load_table("c18.json")
    r.rule("C18.toi", "tokens.New(S, L, T): T is X[S:..] / [X[S]] of the token-list parameter with the same S; New/extract_tokens/update arithmetic")
    r.rule("C18.remap", "remap False => fix has no structural edit and constructs no token")
    r.rule("C18.index", "index-owned lists are never mutated in place")
    r.rule("C18.rebuild", "every writer of lAllObjects is followed by an index rebuild before the next rule")
    r.rule("C18.ids", "token class docstring unique_id = own module : own class, unique")
    r.explanation = (
        "Every construction site of a region of interest is put into linear normal form and compared with the slice it wraps; fixes of "
        "rules with remap False are abstracted to effect signatures with alias tracking of the violation's token list; index-owned lists "
        "are followed through assignments, returns and calls; rebuild ordering by post-dominance in rule_list.fix."
    )
    summ = Summaries(p, cg)
    _toi(r, p)
    _toi_arith(r, p)
    _remap(r, ctx, p, rt, summ)
    _index(r, p, cg, summ)
    _rebuild(r, p, cg)
    _ids(r, p)
    return r


def _toi(r, p):
    tnew = p.cls("vsg.vhdlFile.extract.tokens:New")
    n_sites = 0
    n_proven = 0
    for fi in p.functions.values():
        if fi.module.name == "vsg.vhdlFile.extract.tokens":
            continue
        subst = None
        for n in walk_function(fi.node):
            if not isinstance(n, ast.Call):
                continue
            ent = p.resolve_expr(fi.module, n.func) if isinstance(n.func, (ast.Name, ast.Attribute)) else None
            if not (ent and ent[0] == "class" and ent[1] is tnew):
                continue
            if len(n.args) < 3:
                continue
            n_sites += 1
            S, L, T = n.args[:3]
            kk = "%s:%s" % (fi.key, norm(n)[:110])
            if subst is None:
                subst = _single_assign_ints(fi.node)
            # definitions of T
            tdefs = [T]
            if isinstance(T, ast.Name):
                tdefs = [a.value for a in walk_function(fi.node) if isinstance(a, ast.Assign) and any(isinstance(t, ast.Name) and t.id == T.id for t in a.targets)]
                aug = [a for a in walk_function(fi.node) if isinstance(a, ast.AugAssign) and isinstance(a.target, ast.Name) and a.target.id == T.id]
                mut = [c for c in walk_function(fi.node) if isinstance(c, ast.Call) and isinstance(c.func, ast.Attribute) and isinstance(c.func.value, ast.Name) and c.func.value.id == T.id and c.func.attr in ("append", "extend", "insert", "pop", "remove")]
                if aug or mut or not tdefs:
                    r.unknown("C18.toi", kk, "token list built by accumulation")
                    continue
            if isinstance(S, ast.Constant) and S.value is None:
                r.ok("C18.toi", kk, "start None: a synthetic region that cannot be spliced back (end index None)", nontrivial=False, sample=False)
                continue
            sl = linear(S, subst)
            verdicts = []
            for td in tdefs:
                start = None
                base = None
                if isinstance(td, ast.Subscript) and isinstance(td.slice, ast.Slice):
                    start = td.slice.lower if td.slice.lower is not None else ast.Constant(value=0)
                    base = td.value
                elif isinstance(td, ast.List) and len(td.elts) == 1 and isinstance(td.elts[0], ast.Subscript) and not isinstance(td.elts[0].slice, ast.Slice):
                    start = td.elts[0].slice
                    base = td.elts[0].value
                elif isinstance(td, ast.Name) and td.id in fi.params and isinstance(S, ast.Constant) and S.value == 0:
                    verdicts.append(("proven", "whole list from 0"))
                    continue
                if start is None:
                    verdicts.append(("unknown", "slice form not recognised: %s" % norm(td)[:50]))
                    continue
                bt = norm(base)
                if isinstance(base, ast.Call) and isinstance(base.func, ast.Attribute) and base.func.attr == "get_tokens" and not base.args and isinstance(base.func.value, ast.Name):
                    # a sub-region of the region X: its tokens are X's tokens from `start` on, so it sits at X's start + start
                    start = ast.BinOp(left=ast.Call(func=ast.Attribute(value=base.func.value, attr="get_start_index", ctx=ast.Load()), args=[], keywords=[]), op=ast.Add(), right=start)
                elif not (bt in fi.params or bt.endswith("lAllObjects") or bt in ("lAllTokens", "lTokens")):
                    verdicts.append(("unknown", "slice of %s" % bt))
                    continue
                tl = linear(start, subst)
                if sl is None or tl is None:
                    verdicts.append(("unknown", "non-linear index"))
                    continue
                if sl == tl:
                    verdicts.append(("proven", "%s == start of %s" % (norm(S), norm(td)[:50])))
                elif sl[0] == tl[0]:
                    verdicts.append(("refuted", "recorded start %s but the tokens are %s: off by %d" % (norm(S), norm(td)[:60], sl[1] - tl[1])))
                else:
                    verdicts.append(("unknown", "start %s vs slice start %s" % (norm(S), norm(start))))
            if any(v[0] == "refuted" for v in verdicts):
                msg = [v[1] for v in verdicts if v[0] == "refuted"][0]
                r.fail("C18.toi", kk, "region of interest records a start index that is not where its tokens sit: %s (a fix would overwrite the wrong tokens)" % msg, fi.loc(n))
            elif verdicts and all(v[0] == "proven" for v in verdicts):
                n_proven += 1
                r.ok("C18.toi", kk, verdicts[0][1], sample=n_proven < 5)
            else:
                r.unknown("C18.toi", kk, "; ".join(v[1] for v in verdicts if v[0] != "proven"))
    r.extra["toi_sites"] = n_sites
    r.extra["toi_sites_proven"] = n_proven
    if n_sites < 55:
        raise AnalysisError("only %d tokens.New sites found (floor 55)" % n_sites)
    if n_proven < 40:
        raise AnalysisError("only %d tokens.New sites proven (floor 40): linear matcher broken" % n_proven)


def _toi_arith(r, p):
    # tokens.New.__init__: iEndIndex = calculate_end_index(iStartIndex, lTokens)
    init = p.function("vsg.vhdlFile.extract.tokens:New.__init__")
    a = [n for n in walk_function(init.node) if isinstance(n, ast.Assign) and norm(n.targets[0]) == "self.iEndIndex"]
    if len(a) == 1 and norm(a[0].value) == "calculate_end_index(iStartIndex, lTokens)":
        r.ok("C18.toi", init.key + ":end", "end index derived from this region's start and its own token list")
    else:
        r.fail("C18.toi", init.key + ":end", "end index is not derived from (iStartIndex, lTokens) of the same region", init.loc())
    s = [n for n in walk_function(init.node) if isinstance(n, ast.Assign) and norm(n.targets[0]) == "self.iStartIndex"]
    if not (len(s) == 1 and norm(s[0].value) == "iStartIndex"):
        r.fail("C18.toi", init.key + ":start", "start index is not stored as given", init.loc())
    ce = p.function("vsg.vhdlFile.extract.tokens:calculate_end_index")
    incs = [n for n in walk_function(ce.node) if isinstance(n, ast.AugAssign)]
    seed = [n for n in walk_function(ce.node) if isinstance(n, ast.Assign) and norm(n.targets[0]) == "iReturn"]
    okc = len(incs) == 1 and norm(incs[0].value) == "1" and isinstance(incs[0].op, ast.Add) and len(seed) == 1 and norm(seed[0].value) == "iStartIndex"
    if okc:
        f = Facts(ce.node)
        c = dict(f.conds_at(incs[0]))
        if any("beginning_of_file" in k for k in c) and f.in_loop(incs[0]):
            r.ok("C18.toi", ce.key, "end = start + number of tokens (synthetic beginning_of_file excluded, as update() drops it)")
        else:
            r.fail("C18.toi", ce.key, "end index no longer counts exactly the real tokens of the region", ce.loc())
    else:
        r.fail("C18.toi", ce.key, "end index arithmetic changed", ce.loc())
    ex = p.function("vsg.vhdlFile.extract.tokens:New.extract_tokens")
    st = [n for n in walk_function(ex.node) if isinstance(n, ast.Assign) and norm(n.targets[0]) == "iStartIndex"]
    sl = [n for n in walk_function(ex.node) if isinstance(n, ast.Assign) and norm(n.targets[0]) == "lTokens"]
    if len(st) == 1 and norm(st[0].value) in ("iStart + self.iStartIndex", "self.iStartIndex + iStart") and len(sl) == 1 and norm(sl[0].value).startswith("self.lTokens[iStart:"):
        r.ok("C18.toi", ex.key, "sub-region: start = parent start + iStart, tokens = parent tokens[iStart:..]")
    else:
        r.fail("C18.toi", ex.key, "sub-region start/tokens no longer use the same offset", ex.loc())
    # update(): descending order, same update's bounds
    up = p.function("vsg.vhdlFile.vhdlFile:vhdlFile.update")
    loops = [n for n in walk_function(up.node) if isinstance(n, ast.For)]
    okord = len(loops) == 1 and norm(loops[0].iter) == "%s[::-1]" % up.params[1]
    if okord:
        r.ok("C18.toi", up.key + ":order", "updates applied last-first so earlier indices stay valid")
    else:
        r.fail("C18.toi", up.key + ":order", "update() no longer walks the updates in reverse order: earlier splices shift later indices", up.loc())
    if loops:
        v = loops[0].target.id
        sp = [n for n in ast.walk(loops[0]) if isinstance(n, ast.Assign) and isinstance(n.targets[0], ast.Subscript) and norm(n.targets[0].value) == "self.lAllObjects"]
        subst = _single_assign_ints(up.node)
        good = False
        if len(sp) == 1 and isinstance(sp[0].targets[0].slice, ast.Slice):
            lo, hi = sp[0].targets[0].slice.lower, sp[0].targets[0].slice.upper

            anyassign = {}
            for a_ in walk_function(up.node):
                if isinstance(a_, ast.Assign) and len(a_.targets) == 1 and isinstance(a_.targets[0], ast.Name):
                    anyassign.setdefault(a_.targets[0].id, []).append(a_.value)
            anyassign = {k_: v_[0] for k_, v_ in anyassign.items() if len(v_) == 1}

            def res(e):
                hops = 0
                while isinstance(e, ast.Name) and e.id in anyassign and hops < 4:
                    e = anyassign[e.id]
                    hops += 1
                return norm(e) if e is not None else None

            good = res(lo) == "%s.oTokens.iStartIndex" % v and res(hi) == "%s.oTokens.iEndIndex" % v
        if good:
            r.ok("C18.toi", up.key + ":bounds", "lAllObjects[u.start:u.end] = u's own tokens")
        else:
            r.fail("C18.toi", up.key + ":bounds", "the splice bounds are not the start/end index of the same update", up.loc())


def _remap(r, ctx, p, rt, summ):
    fx = FixEffects(ctx, summ)
    groups = {}
    for e in rt.live():
        if e.remap is False:
            f = e.ci.find_method("_fix_violation")
            groups.setdefault(f.key, []).append(e)
        elif e.remap is UNKNOWN:
            r.unknown("C18.remap", str(e.unique_id), "remap flag not statically known")
    n_rules = sum(len(v) for v in groups.values())
    if n_rules < 250:
        raise AnalysisError("only %d rules with remap False found (expected ~300)" % n_rules)
    r.extra["rules_with_remap_false"] = n_rules
    for key, es in sorted(groups.items()):
        fixable = [e for e in es if e.fixable is not False]
        prov = p.functions[key]
        effs = [x for x in fx.effects_of(prov) if x.kind in ("STRUCT", "CONSTRUCT")]
        kk = "%s (%d rules, e.g. %s)" % (key, len(es), es[0].unique_id)
        if not effs:
            r.ok("C18.remap", key, "%d rule(s) opt out of re-indexing; fix effect signature has no structural edit" % len(es))
            continue
        if not fixable:
            r.note("dead structural fix inherited by unfixable rules with remap False: %s (%d rules)" % (key, len(es)))
            r.ok("C18.remap", key, "%d rule(s) with remap False inherit a structural fix but are fixable=False: the fix never runs" % len(es))
            continue
        x = effs[0]
        r.fail(
            "C18.remap",
            key + ":" + x.detail,
            "%d rule(s) with remap=False (e.g. %s) have a fix that can change the token list's length (%s at %s): the index is not rebuilt after them, "
            "so every later rule works with stale positions" % (len(fixable), fixable[0].unique_id, x.detail, x.fi.key),
            x.fi.loc(x.node),
            path=x.path[-5:],
        )
    # the flag reaches update()
    fix = p.function("vsg.rule:Rule.fix")
    ups = [n for n in walk_function(fix.node) if isinstance(n, ast.Call) and isinstance(n.func, ast.Attribute) and n.func.attr == "update"]
    if len(ups) == 1 and len(ups[0].args) == 2 and norm(ups[0].args[1]) == "self.remap":
        r.ok("C18.remap", fix.key + ":flag", "update(self.violations, self.remap)")
    else:
        r.fail("C18.remap", fix.key + ":flag", "Rule.fix does not hand the rule's remap flag to update()", fix.loc())
    up = p.function("vsg.vhdlFile.vhdlFile:vhdlFile.update")
    f = Facts(up.node)
    rb = [n for n in walk_function(up.node) if isinstance(n, ast.Assign) and norm(n.targets[0]) == "self.oTokenMap"]
    flag = up.params[2]
    lst = up.params[1]
    extra = []
    if len(rb) == 1:
        for ctext, pol in f.conds_at(rb[0]):
            if ctext == flag and pol:
                continue
            if lst in ctext and not (flag in ctext):
                continue  # the early return on an empty update list
            if ctext.startswith(flag + " and ") or ctext.startswith("(" + flag):
                # compound test: every conjunct other than the flag is an extra condition
                extra.append(ctext)
                continue
            extra.append(ctext)
    if len(rb) == 1 and norm(rb[0].value) == "process_tokens(self.lAllObjects)" and dict(f.conds_at(rb[0])).get(flag) is True and not f.in_loop(rb[0]) and extra:
        r.fail(
            "C18.remap",
            up.key + ":rebuild-extra-condition",
            "update() rebuilds the index only under the additional condition `%s`: a rule that asked for re-indexing (remap True) can leave a stale index behind for the rules after it" % extra[0],
            up.loc(rb[0]),
        )
    elif len(rb) == 1 and norm(rb[0].value) == "process_tokens(self.lAllObjects)" and dict(f.conds_at(rb[0])).get(flag) is True and not f.in_loop(rb[0]):
        r.ok("C18.remap", up.key + ":rebuild", "index rebuilt from the spliced list whenever the flag is set")
    else:
        r.fail("C18.remap", up.key + ":rebuild", "update() does not rebuild the index from the spliced list under its flag", up.loc())


def _index_source(fi, e):
    if isinstance(e, ast.Call) and isinstance(e.func, ast.Attribute) and e.func.attr == "get_token_indexes":
        copy = any(kw.arg == "bCopy" and isinstance(kw.value, ast.Constant) and kw.value.value is True for kw in e.keywords) or (len(e.args) > 1 and isinstance(e.args[1], ast.Constant) and e.args[1].value is True)
        return None if copy else "INDEX"
    if isinstance(e, ast.Subscript):
        b = e
        while isinstance(b, ast.Subscript):
            b = b.value
        if isinstance(b, ast.Attribute) and b.attr == "dMap":
            return "INDEX"
    return None


def _rebound_fresh_before(node, var, program, module):
    """True when, walking outwards from `node`, the closest preceding sibling statement that binds `var`
    binds it to a fresh list - the in-place edit then acts on that new list (straight-line re-binding in the
    same branch), whatever other branches bound the name to."""
    from ..mutation import is_fresh_expr

    cur = node
    while cur is not None and not isinstance(cur, (ast.FunctionDef, ast.AsyncFunctionDef)):
        par = getattr(cur, "_parent", None)
        if par is None:
            return False
        for field in ("body", "orelse", "finalbody"):
            seq = getattr(par, field, None)
            if isinstance(seq, list) and cur in seq:
                for st in reversed(seq[: seq.index(cur)]):
                    binds = [t for t in (st.targets if isinstance(st, ast.Assign) else []) if isinstance(t, ast.Name) and t.id == var]
                    if binds:
                        return is_fresh_expr(st.value, program, module)
                    if any(isinstance(x, ast.Name) and x.id == var and isinstance(x.ctx, ast.Store) for x in ast.walk(st)):
                        return False
        cur = par
    return False


def _index(r, p, cg, summ):
    from .c06 import _struct_mutation

    # functions that may hand an index-owned list back to their caller (fixpoint over returns)
    ret_index = {}

    def source(fi, e):
        d = _index_source(fi, e)
        if d is not None:
            return d
        if isinstance(e, ast.Call) and ret_index:
            s = summ.site(fi, e)
            if s is not None and s.kind == "resolved" and any(t.key in ret_index for t in s.targets):
                return "INDEX"
        return None

    direct = set()
    for fi in p.functions.values():
        if any(_index_source(fi, n) is not None for n in walk_function(fi.node)):
            direct.add(fi.key)
    cand = set(direct)
    for _round in range(6):
        grew = False
        names = {k.split(":")[-1].split(".")[-1] for k in ret_index}
        if names:
            for fi in p.functions.values():
                if fi.key in cand:
                    continue
                for n in walk_function(fi.node):
                    if isinstance(n, ast.Call) and ((isinstance(n.func, ast.Attribute) and n.func.attr in names) or (isinstance(n.func, ast.Name) and n.func.id in names)):
                        cand.add(fi.key)
                        break
        for k in sorted(cand):
            fi = p.functions[k]
            if k in ret_index or (fi.module.name == "vsg.token_map" and fi.cls is not None):
                continue  # the index's own accessors are the sources themselves
            org = summ.origins(fi, source)
            for n in walk_function(fi.node):
                if isinstance(n, ast.Return) and n.value is not None and "INDEX" in summ.expr_origins(fi, n.value, org, source):
                    ret_index[k] = fi.loc(n)
                    grew = True
                    break
        if not grew:
            break
    r.extra["functions_returning_index_owned_lists"] = sorted(ret_index)

    n_src = 0
    for fi in p.functions.values():
        has = False
        for n in walk_function(fi.node):
            if source(fi, n) is not None:
                has = True
                n_src += 1
        if not has:
            continue
        if fi.module.name == "vsg.token_map" and fi.name == "process_tokens":
            continue
        org = summ.origins(fi, source)
        for m in mutation_sites(fi):
            if m.kind == "attr-store" or m.root is None:
                continue
            if m.path and not (m.kind == "item-store"):
                direct_src = source(fi, m.recv)
                if not direct_src:
                    continue
            tags = set(org.get(m.root, set())) if not m.path else set()
            d = source(fi, m.recv)
            if d:
                tags.add(d)
            if "INDEX" in tags:
                if fi.module.name == "vsg.token_map" and fi.cls is not None and fi.name == "__init__":
                    continue
                if not m.path and _rebound_fresh_before(m.node, m.root, p, fi.module):
                    continue
                r.fail("C18.index", m.key, "a list owned by the token index is mutated in place (`%s`): the index no longer mirrors the token list" % norm(m.node)[:70], fi.loc(m.node))
        for s in cg.sites.get(fi.key, ()):
            if s.kind != "resolved":
                continue
            for t in s.targets:
                tm = summ.mutates_param.get(t.key, ())
                if not tm:
                    continue
                for i, a in enumerate(s.node.args):
                    j = summ.param_index_for_arg(fi, s.node, t, i)
                    if j in tm and "INDEX" in summ.expr_origins(fi, a, org, source) and _struct_mutation(p, summ, t, j):
                        r.fail("C18.index", "%s:%s" % (fi.key, norm(s.node)[:90]), "a list owned by the token index is passed to %s, which mutates that argument" % t.key, fi.loc(s.node))
    r.extra["index_source_sites"] = n_src
    if n_src < 40:
        raise AnalysisError("only %d index source sites (get_token_indexes / dMap[..]) found" % n_src)
    r.ok("C18.index", "all-sources", "%d sites obtaining index-owned lists followed through assignments, returns and calls" % n_src)


def _rebuild(r, p, cg):
    vf = p.cls("vsg.vhdlFile.vhdlFile:vhdlFile")
    # the rebuild entry point itself: unconditional.  The two normalisers it follows can change the list without changing
    # its length (whitespace-only line -> blank_line; +1 and -1 cancelling), so no cheap "nothing changed" test is sound.
    ut = p.functions.get("vsg.vhdlFile.vhdlFile:vhdlFile.update_token_map")
    if ut is None:
        raise AnalysisError("vhdlFile.update_token_map vanished")
    asg = [n for n in walk_function(ut.node) if isinstance(n, ast.Assign) and norm(n.targets[0]) == "self.oTokenMap" and norm(n.value) == "process_tokens(self.lAllObjects)"]
    if not asg:
        r.fail("C18.rebuild", ut.key + ":rebuild", "update_token_map no longer rebuilds the index from the current token list", ut.loc())
    else:
        conds = Facts(ut.node).conds_at(asg[0])
        if conds or Facts(ut.node).in_loop(asg[0]):
            r.fail("C18.rebuild", ut.key + ":conditional", "update_token_map rebuilds the index only under `%s`: the normalisers before it can move tokens without changing the length of the list, so the rules of the following phases would read a stale index" % (conds[0][0] if conds else "a loop"), ut.loc(asg[0]))
        else:
            r.ok("C18.rebuild", ut.key, "rebuilds the index unconditionally from the current token list")
    writers = []
    for fi in p.functions.values():
        for n in walk_function(fi.node):
            if isinstance(n, (ast.Assign, ast.AugAssign)):
                ts = n.targets if isinstance(n, ast.Assign) else [n.target]
                for t in ts:
                    b = t
                    if isinstance(b, ast.Subscript):
                        b = b.value
                    if isinstance(b, ast.Attribute) and b.attr == "lAllObjects":
                        writers.append((fi, n))
            elif isinstance(n, ast.Call) and isinstance(n.func, ast.Attribute) and n.func.attr in ("append", "extend", "insert", "pop", "remove", "reverse", "sort", "clear") and isinstance(n.func.value, ast.Attribute) and n.func.value.attr == "lAllObjects":
                writers.append((fi, n))
    allowed = {
        "vsg.vhdlFile.vhdlFile:vhdlFile.__init__": "construction",
        "vsg.vhdlFile.vhdlFile:vhdlFile._processFile": "parse: builds the list, index built at the end of the same function",
        "vsg.vhdlFile.vhdlFile:vhdlFile.update": "splice: rebuild under the flag (C18.remap)",
        "vsg.vhdlFile.vhdlFile:vhdlFile.fix_blank_lines": "phase-1 normaliser",
        "vsg.vhdlFile.vhdlFile:vhdlFile.fix_trailing_whitespace": "phase-1 normaliser",
    }
    if len(writers) < 5:
        raise AnalysisError("only %d writers of lAllObjects found" % len(writers))
    for fi, n in writers:
        kk = "%s:%s" % (fi.key, norm(n)[:70])
        if fi.key in allowed:
            r.ok("C18.rebuild", kk, allowed[fi.key], sample=False)
        elif fi.module.name.startswith("vsg.interfaces"):
            continue
        else:
            r.fail("C18.rebuild", kk, "the file's token list is written outside vhdlFile's own parse/update/normalise methods: nothing rebuilds the index afterwards", fi.loc(n))
    # _processFile ends with the index build
    pf = p.function("vsg.vhdlFile.vhdlFile:vhdlFile._processFile")
    last = pf.node.body[-1]
    if isinstance(last, ast.Assign) and norm(last.targets[0]) == "self.oTokenMap" and norm(last.value) == "process_tokens(self.lAllObjects)":
        r.ok("C18.rebuild", pf.key + ":final-index", "index built after all classification passes")
    else:
        r.fail("C18.rebuild", pf.key + ":final-index", "parsing does not end with building the index from the final list", pf.loc(last))
    # normalisers: only called from rule_list.fix, post-dominated by update_token_map in the same block
    rl_fix = p.function("vsg.rule_list:rule_list.fix")
    for name in ("fix_blank_lines", "fix_trailing_whitespace"):
        tgt = vf.methods[name]
        callers = [(k, s) for k, ss in cg.sites.items() for s in ss if tgt in s.targets and s.kind == "resolved" and isinstance(s.node.func, ast.Attribute) and s.node.func.attr == name]
        for k, s in callers:
            if k != rl_fix.key and not k.startswith("vsg.interfaces"):
                r.fail("C18.rebuild", "%s:calls:%s" % (k, name), "%s is called outside rule_list.fix (no index rebuild follows)" % name, p.functions[k].loc(s.node))
        mine = [s for k, s in callers if k == rl_fix.key]
        for s in mine:
            stmt = s.node
            while not isinstance(getattr(stmt, "_parent", None), (ast.If, ast.For, ast.FunctionDef, ast.While, ast.With, ast.Try)):
                stmt = stmt._parent
            blk = stmt._parent
            body = None
            for fld in ("body", "orelse"):
                if stmt in getattr(blk, fld, []):
                    body = getattr(blk, fld)
            after = body[body.index(stmt) + 1 :] if body else []
            ok = False
            for a in after:
                if isinstance(a, (ast.Return, ast.Break, ast.Continue, ast.Raise)):
                    break
                if isinstance(a, ast.Expr) and isinstance(a.value, ast.Call) and callee_text(a.value).endswith(".update_token_map"):
                    ok = True
                    break
                if any(isinstance(x, ast.Call) and callee_text(x).endswith((".fix", ".analyze")) for x in ast.walk(a)):
                    break
            if ok:
                r.ok("C18.rebuild", "%s:%s" % (rl_fix.key, name), "followed by update_token_map() before any rule runs")
            else:
                r.fail("C18.rebuild", "%s:%s" % (rl_fix.key, name), "%s is not followed by update_token_map() before the next rule runs" % name, rl_fix.loc(s.node))
        if not mine:
            r.fail("C18.rebuild", "%s:%s:missing" % (rl_fix.key, name), "rule_list.fix no longer calls %s" % name, rl_fix.loc())


def _ids(r, p):
    item = p.cls("vsg.parser:item")
    seen = {}
    n = 0
    bad = 0
    mism = []
    for ci in sorted(p.classes.values(), key=lambda c: c.key):
        if item not in (ci.mro or []):
            continue
        n += 1
        doc = ci.doc or ""
        parts = doc.split()
        uid = None
        for i, w in enumerate(parts):
            if w == "unique_id" and i + 4 < len(parts) + 0 and parts[i + 1] == "=" and parts[i + 3] == ":":
                uid = (parts[i + 2], parts[i + 4])
                break
        modbase = ci.module.name.split(".")[-1]
        kk = ci.key
        if uid is None:
            # inherits the docstring-less behaviour: update_token_types reads self.__doc__ (None -> (None, None)); such a token is invisible to the index
            r.fail("C18.ids", kk + ":missing", "token class has no `unique_id = <module> : <class>` docstring: its tokens never enter the index", ci.module.path)
            bad += 1
            continue
        if uid != (modbase, ci.name):
            # harmless on its own: the index writer (token.get_unique_id) and reader (token_map.extract_unique_id) both take
            # the key from this same docstring; only a *shared* key conflates two roles
            mism.append("%s -> %s:%s" % (ci.key, uid[0], uid[1]))
        if uid in seen and seen[uid] != ci.key:
            bad += 1
            r.fail(
                "C18.ids",
                "%s:%s=%s" % (kk, "duplicate", seen[uid]),
                "unique_id %s : %s is declared by both %s and %s: the index files the tokens of two different roles under one key, so a rule asking for one also gets the other"
                % (uid[0], uid[1], seen[uid], ci.key),
                ci.module.path,
            )
        seen.setdefault(uid, ci.key)
    if n < 700:
        raise AnalysisError("only %d token classes found" % n)
    r.extra["token_classes"] = n
    r.extra["ids_not_named_after_own_class"] = mism[:60]
    if not bad:
        r.ok("C18.ids", "all-token-classes", "%d token classes, ids well-formed and unique" % n)
    else:
        r.ok("C18.ids", "token-classes-checked", "%d token classes checked" % n, nontrivial=False)


_X = "vsg/vhdlFile/extract/"
VARIANTS = [
    Variant("C18", "protected-body region rebuilt by hand with the parent's start index", "fire",
            [(_X + "get_tokens_in_protected_type_body_declarative_part.py", "        lReturn.append(oToi.extract_tokens(iStart, iEnd))", "        lReturn.append(tokens.New(oToi.get_start_index(), oToi.get_line_number(), oToi.get_tokens()[1:]))"),
             (_X + "get_tokens_in_protected_type_body_declarative_part.py", "from vsg.vhdlFile.extract.get_tokens_bounded_by import get_tokens_bounded_by", "from vsg.vhdlFile.extract import tokens\nfrom vsg.vhdlFile.extract.get_tokens_bounded_by import get_tokens_bounded_by")],
            rule="C18.toi"),
    Variant("C18", "twin: protected-body region rebuilt by hand one position after the parent's start", "silent",
            [(_X + "get_tokens_in_protected_type_body_declarative_part.py", "        lReturn.append(oToi.extract_tokens(iStart, iEnd))", "        lReturn.append(tokens.New(oToi.get_start_index() + 1, oToi.get_line_number(), oToi.get_tokens()[1:]))"),
             (_X + "get_tokens_in_protected_type_body_declarative_part.py", "from vsg.vhdlFile.extract.get_tokens_bounded_by import get_tokens_bounded_by", "from vsg.vhdlFile.extract import tokens\nfrom vsg.vhdlFile.extract.get_tokens_bounded_by import get_tokens_bounded_by")]),
    Variant("C18", "start index off by one in an extractor", "fire",
            [(_X + "get_tokens_at_beginning_of_line_matching.py", "lReturn.append(tokens.New(iIndex - 1, iLine, lAllTokens[iIndex - 1", "lReturn.append(tokens.New(iIndex, iLine, lAllTokens[iIndex - 1")], rule="C18.toi"),
    Variant("C18", "case fix strips whitespace neighbour", "fire",
            [("vsg/rules/token_case.py", "            lTokens[0].set_value(dAction[\"value\"])\n            oViolation.set_tokens(lTokens)", "            lTokens[0].set_value(dAction[\"value\"])\n            oViolation.set_tokens(lTokens[0:1])")], rule="C18.remap"),
    Variant("C18", "case rule fix inserts a token", "fire",
            [("vsg/rules/consistent_token_case.py", "        lTokens[0].set_value(dActions[\"expected\"])\n", "        lTokens[0].set_value(dActions[\"expected\"])\n        lTokens.append(parser.whitespace(\" \"))\n")], rule="C18.remap"),
    Variant("C18", "a whitespace rule opts out of re-indexing", "fire",
            [("vsg/rules/whitespace_between_tokens.py", "        self.left_token = None\n", "        self.left_token = None\n        self.remap = False\n")], rule="C18.remap"),
    Variant("C18", "extractor filters the index list in place", "fire",
            [(_X + "get_tokens_matching.py", "    for oToken in lTokens:\n", "    for oToken in lTokens:\n        oTokenMap.get_token_indexes(oToken).sort()\n")], rule="C18.index"),
    Variant("C18", "helper returns the index's own list, a caller two calls up appends a sentinel", "fire",
            [("vsg/vhdlFile/extract/utils.py", "def get_indexes_of_token_list(lTokens, oTokenMap):\n", "def get_indexes_of_token_list(lTokens, oTokenMap):\n    if len(lTokens) == 1:\n        return oTokenMap.get_token_indexes(lTokens[0])\n")], rule="C18.index", key="lStartIndexes.append(iMax)"),
    Variant("C18", "twin: helper returns a copy of the index's list", "silent",
            [("vsg/vhdlFile/extract/utils.py", "def get_indexes_of_token_list(lTokens, oTokenMap):\n", "def get_indexes_of_token_list(lTokens, oTokenMap):\n    if len(lTokens) == 1:\n        return list(oTokenMap.get_token_indexes(lTokens[0]))\n")]),
    Variant("C18", "index rebuild after the normalisers skipped when the length is unchanged", "fire",
            [("vsg/vhdlFile/vhdlFile.py", "    def update_token_map(self):\n        self.oTokenMap = process_tokens(self.lAllObjects)", "    def update_token_map(self):\n        if self.oTokenMap.iMaxToken != len(self.lAllObjects):\n            self.oTokenMap = process_tokens(self.lAllObjects)")], rule="C18.rebuild", key="conditional"),
    Variant("C18", "index rebuild dropped after normalisers", "fire",
            [("vsg/rule_list.py", "                self.oVhdlFile.fix_trailing_whitespace()\n                self.oVhdlFile.update_token_map()", "                self.oVhdlFile.fix_trailing_whitespace()")], rule="C18.rebuild"),
    Variant("C18", "update applies updates first-to-last", "fire",
            [("vsg/vhdlFile/vhdlFile.py", "        for oUpdate in lUpdates[::-1]:", "        for oUpdate in lUpdates:")], rule="C18.toi", key="order"),
    Variant("C18", "token class with copied docstring id", "fire",
            [("vsg/token/architecture_body.py", "    unique_id = architecture_body : of_keyword", "    unique_id = architecture_body : is_keyword")], rule="C18.ids"),
    Variant("C18", "rebuild only when the token count changed", "fire",
            [("vsg/vhdlFile/vhdlFile.py", "        if len(lUpdates) == 0:\n            return\n        for oUpdate in lUpdates[::-1]:", "        if len(lUpdates) == 0:\n            return\n        iBefore = len(self.lAllObjects)\n        for oUpdate in lUpdates[::-1]:"),
             ("vsg/vhdlFile/vhdlFile.py", "        if bUpdateMap:\n            self.oTokenMap = process_tokens(self.lAllObjects)\n\n    def get_token_map", "        if bUpdateMap and len(self.lAllObjects) != iBefore:\n            self.oTokenMap = process_tokens(self.lAllObjects)\n\n    def get_token_map")],
            rule="C18.remap", key="rebuild-extra-condition"),
    Variant("C18", "twin: extractor names its start index", "silent",
            [(_X + "get_tokens_at_beginning_of_line_matching.py", "lReturn.append(tokens.New(iIndex - 1, iLine, lAllTokens[iIndex - 1", "iFirst = iIndex - 1\n            lReturn.append(tokens.New(iFirst, iLine, lAllTokens[iFirst")]),
]
