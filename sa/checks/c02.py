# -*- coding: utf-8 -*-
"""
C02 - comments, pragmas and preprocessor lines survive fixing (structural clauses).

  C02.drop     who may delete a comment.  Three kinds of site are enumerated in everything a _fix_violation can
               reach: (a) calls of a comment-dropping list primitive (derived by shape from the two utils
               modules: a function that returns a list and skips / slices off elements under a test that is
               true for comments), (b) direct drops conditioned on a comment test (continue / pop / del /
               slice under `isinstance(x, parser.comment)`; a pop whose value is re-inserted is a move),
               (c) wholesale replacement of the region (set_tokens of a list display that is not derived from
               the whole region).  Each site must lie in one of the two documented comment-removing fixes,
               or belong only to rule families whose own region selection / analysis consults a comment
               predicate, or be tabled with a reason; anything else is a violation.
  C02.join     must-guard before joining lines.  The carriage-return dropping primitives are derived by shape
               (same recogniser, class carriage_return).  Every live rule family (fix, analysis, region
               selection) whose fix can reach one of them must consult a comment predicate in its own rule-level
               code: a family that removes line breaks and never looks for a `--` comment cannot tell the case
               in which the comment would swallow the next line.
  C02.rewrite  who may write comment text.  Constructor calls of comment / pragma / preprocessor / delimited
               comment classes reachable from a fix, and set_value calls dominated by a positive comment test,
               are confined to the comment-formatting rules (comment_*, block_comment_*, whitespace_002).
  C02.trim     region extractors trim both ends with the same notion of "skippable": no extractor mixes a
               primitive that skips comments with one that stops at them (a region that swallows a trailing
               comment at one end makes the rule insert code after the comment, or drop it with the region).
Does not decide: index-computed deletions and rebuilt lists inside fixes (which element a pop(i) or a slice
removes is a run-time selection), relative order of comments after a move, nor that a family that does consult
a comment predicate consults it correctly.
"""

import ast
import re

from ..fixeffects import FixEffects, ws_locals
from ..flow import Facts
from ..model import AnalysisError, expand_text, norm, walk_function
from ..report import Result
from ..selftest import Variant
from ..summaries import Summaries

LEVEL = "other"
META = {
    "technique": "static analysis: shape-derived effect classification of list primitives (which token classes a filter/trim can drop, through predicate functions), closed-world who-may-call / who-may-construct over the fix-reachable may-call graph, per-family must-consult check (fix + analysis + region selection of every live rule from the static rule table), sibling agreement of trimming primitives inside region extractors; for tabled whole-region sites, dominance of every producer of the guarded action by a negative region-wide comment test",
    "level_text": "Decides, for every input and configuration, four structural necessary conditions: comments can be deleted only at the enumerated documented sites or in "
    "families that look for comments; every family that removes line breaks looks for comments; only the comment-formatting rules write comment text; region "
    "extractors treat comments alike at both ends. It does not decide comments(fix(x)) == comments(x): index-computed deletions inside fixes are run-time selections "
    "(listed as unproven per family).",
    "level_note": "Trusted base: CPython ast, static rule table, over-approximating call graph. 'Consults a comment predicate' is a necessary condition, not a proof that the "
    "guard is right: three of the defects found while building this check were in families that did consult one.",
}

_UTILS = ("vsg.vhdlFile.utils", "vsg.rules.utils")
_CLS = {"comment": ("comment",), "cr": ("carriage_return",)}

# the two fixes whose documented purpose is to remove comments (property text)
DOCUMENTED_REMOVERS = {
    "vsg.rules.remove_comments_from_end_of_lines_bounded_by_tokens:remove_comments_from_end_of_lines_bounded_by_tokens._fix_violation": "removes trailing comments inside component port/generic clauses and port maps (documented purpose)",
    "vsg.rules.multiline_structure:_fix_assign_on_single_line": "collapses an aggregate onto one line when the array-structure rule is configured to (documented purpose)",
}

# extractor trimming primitives: skip comments (OC) / stop at comments (WS); classification is re-derived by shape
_OC = [
    "get_index_of_next_non_whitespace_token_after_index_ignoring_comments",
    "get_index_of_previous_non_whitespace_token",
    "remove_leading_whitespace_and_comments",
    "remove_trailing_whitespace_and_comments",
    "find_next_non_whitespace_token",
    "find_previous_non_whitespace_token",
    "is_token_at_index_whitespace_or_comment",
    "token_is_whitespace_or_comment",
]
_WS = [
    "get_index_of_previous_non_whitespace_token_before_index",
    "remove_trailing_whitespace",
    "remove_leading_whitespace_tokens",
    "is_token_at_index_whitespace",
    "token_is_whitespace",
    "remove_all_trailing_whitespace",
]


def _ids(node):
    for n in ast.walk(node):
        if isinstance(n, ast.Attribute):
            yield n.attr
        elif isinstance(n, ast.Name):
            yield n.id


def _mentions(node, words):
    return any(any(w in i.lower() for w in words) for i in _ids(node))


def _callee_name(call):
    f = call.func
    if isinstance(f, ast.Attribute):
        return f.attr
    if isinstance(f, ast.Name):
        return f.id
    return None


class Shapes:
    """Shape-derived facts about the list primitives of the utils modules."""

    def __init__(self, p):
        self.p = p
        self.funcs = [fi for fi in p.functions.values() if fi.module.name in _UTILS or fi.module.name == "vsg.token_map"]
        self.pred = {"comment": set(), "cr": set()}  # predicate function names that are true for the class
        self._predicates()
        self.droppers = {"comment": {}, "cr": {}}
        self._droppers()

    def _predicates(self):
        # a predicate: every return is a bool constant or a boolean expression; true-for-class when a positive test of
        # the class (or of another predicate of the class) leads to `return True` / is returned
        changed = True
        while changed:
            changed = False
            for fi in self.funcs:
                rets = [n for n in walk_function(fi.node) if isinstance(n, ast.Return)]
                if not rets:
                    continue
                if not all(r.value is not None and (isinstance(r.value, (ast.Compare, ast.BoolOp, ast.UnaryOp)) or (isinstance(r.value, ast.Constant) and isinstance(r.value.value, bool)) or (isinstance(r.value, ast.Call) and (_callee_name(r.value) or "").startswith(("is", "token_is", "does")))) for r in rets):
                    continue
                f = None
                for kind in ("comment", "cr"):
                    if fi.name in self.pred[kind]:
                        continue
                    hit = False
                    for r in rets:
                        if isinstance(r.value, ast.Constant) and r.value.value is True:
                            if f is None:
                                f = Facts(fi.node)
                            for t, pol in f.conds_at(r):
                                if pol is True and self._test_true_for(t, kind):
                                    hit = True
                        elif not isinstance(r.value, ast.Constant) and self._test_true_for(norm(r.value), kind) and not norm(r.value).startswith("not "):
                            hit = True
                    if hit:
                        self.pred[kind].add(fi.name)
                        changed = True

    def _test_true_for(self, text, kind):
        """Does the (positive) test text hold for instances of the class? Syntactic: isinstance(.., parser.<cls>) or a predicate call."""
        for w in _CLS[kind]:
            if re.search(r"isinstance\([^()]*(\([^()]*\))?[^()]*,\s*[\w.]*\b%s\)" % w, text) or re.search(r"is_token_at_index\([\w.]*\b%s\b" % w, text):
                return True
        for pn in self.pred[kind]:
            if re.search(r"\b%s\(" % re.escape(pn), text):
                return True
        return False

    def _returns_list(self, fi):
        appended = set()
        sliced = set()
        for n in walk_function(fi.node):
            if isinstance(n, ast.Call) and isinstance(n.func, ast.Attribute) and n.func.attr in ("append", "extend") and isinstance(n.func.value, ast.Name):
                appended.add(n.func.value.id)
            if isinstance(n, ast.Assign) and len(n.targets) == 1 and isinstance(n.targets[0], ast.Name) and (isinstance(n.value, ast.List) or (isinstance(n.value, ast.Subscript) and isinstance(n.value.slice, ast.Slice))):
                sliced.add(n.targets[0].id)
        for n in walk_function(fi.node):
            if isinstance(n, ast.Return) and n.value is not None:
                vals = n.value.elts if isinstance(n.value, ast.Tuple) else [n.value]
                for v in vals:
                    if isinstance(v, ast.Subscript) and isinstance(v.slice, ast.Slice):
                        return True
                    if isinstance(v, ast.Name) and (v.id in appended or v.id in sliced):
                        return True
        return False

    def _elem_texts(self, fi, node):
        """Texts that denote 'the current element' at `node`: targets of enclosing for loops and L[i] for `for i in range(..)`."""
        out = set()
        q = getattr(node, "_parent", None)
        while q is not None and q is not fi.node:
            if isinstance(q, ast.For):
                tg = q.target
                if isinstance(tg, ast.Tuple) and isinstance(q.iter, ast.Call) and norm(q.iter.func) == "enumerate" and len(tg.elts) == 2:
                    out.add(norm(tg.elts[1]))
                    if q.iter.args:
                        out.add("%s[%s]" % (norm(q.iter.args[0]), norm(tg.elts[0])))
                elif isinstance(tg, ast.Name):
                    out.add(tg.id)
                    for x in walk_function(fi.node):
                        if isinstance(x, ast.Subscript) and isinstance(x.slice, ast.Name) and x.slice.id == tg.id:
                            out.add(norm(x))
            q = getattr(q, "_parent", None)
        return out

    def _test_on_element(self, text, kind, elems):
        for el in elems:
            e = re.escape(el)
            for w in _CLS[kind]:
                if re.search(r"isinstance\(%s,\s*[\w.]*\b%s\)" % (e, w), text):
                    return True
            for pn in self.pred[kind]:
                if re.search(r"\b%s\(%s\)" % (re.escape(pn), e), text):
                    return True
        return False

    @staticmethod
    def _appended_before(node, elems):
        par = getattr(node, "_parent", None)
        for field in ("body", "orelse"):
            seq = getattr(par, field, None)
            if isinstance(seq, list) and node in seq:
                for st in seq[: seq.index(node)]:
                    for x in ast.walk(st):
                        if isinstance(x, ast.Call) and isinstance(x.func, ast.Attribute) and x.func.attr == "append" and x.args and norm(x.args[0]) in elems:
                            return True
        return False

    def _droppers(self):
        self.generic = {}  # function name -> index of the predicate parameter (skips elements for which it is true)
        for fi in self.funcs:
            if fi.module.name == "vsg.token_map" or not self._returns_list(fi):
                continue
            f0 = None
            for n in walk_function(fi.node):
                if isinstance(n, ast.Continue):
                    elems = self._elem_texts(fi, n)
                    if f0 is None:
                        f0 = Facts(fi.node)
                    if self._appended_before(n, elems):
                        continue
                    for t, pol in f0.conds_at(n):
                        for pi, pn in enumerate(fi.params):
                            if pol is True and any(t.replace(" ", "") == "%s(%s)" % (pn, e.replace(" ", "")) for e in elems):
                                self.generic[fi.name] = pi
        for fi in self.funcs:
            if fi.module.name == "vsg.token_map":
                continue
            body = [st for st in fi.node.body if not (isinstance(st, ast.Expr) and isinstance(st.value, ast.Constant))]
            if len(body) == 1 and isinstance(body[0], ast.Return) and isinstance(body[0].value, ast.Call):
                c = body[0].value
                cn = _callee_name(c)
                if cn in self.generic and self.generic[cn] < len(c.args) and isinstance(c.args[self.generic[cn]], (ast.Name, ast.Attribute)):
                    pred = norm(c.args[self.generic[cn]]).split(".")[-1]
                    for kind in ("comment", "cr"):
                        if pred in self.pred[kind]:
                            self.droppers[kind].setdefault(fi.name, (fi, body[0], "%s(%s)" % (cn, pred)))
        for fi in self.funcs:
            if fi.module.name == "vsg.token_map" or not self._returns_list(fi):
                continue
            f = None
            for n in walk_function(fi.node):
                if isinstance(n, ast.Continue):
                    elems = self._elem_texts(fi, n)
                    if f is None:
                        f = Facts(fi.node)
                    if self._appended_before(n, elems):
                        continue
                    for t, pol in f.conds_at(n):
                        for kind in ("comment", "cr"):
                            if pol is True and self._test_on_element(t, kind, elems):
                                self.droppers[kind].setdefault(fi.name, (fi, n, t))
                elif isinstance(n, ast.Return) and isinstance(n.value, ast.Subscript) and isinstance(n.value.slice, ast.Slice):
                    # `if isinstance(L[-1], parser.comment): return L[:-1]`
                    if f is None:
                        f = Facts(fi.node)
                    for t, pol in f.conds_at(n):
                        for kind in ("comment", "cr"):
                            if pol is True and self._test_true_for(t, kind) and not self._elem_texts(fi, n):
                                self.droppers[kind].setdefault(fi.name, (fi, n, t))


def _families(ctx):
    p, rt = ctx.program, ctx.ruletable
    fams = {}
    for e in rt.live():
        f = e.ci.find_method("_fix_violation")
        if f is None or f.key == "vsg.rule:Rule._fix_violation":
            continue
        a = e.ci.find_method("_analyze")
        t = e.ci.find_method("_get_tokens_of_interest")
        fams.setdefault((f.key, a.key if a else None, t.key if t else None), []).append(e)
    return fams


def _rule_level(fi):
    m = fi.module.name
    if not m.startswith("vsg.rules"):
        return False
    if m == "vsg.rules.utils":
        return "comment" in fi.name.lower()
    return True


_CONSULT = ("comment",)


def _region_wide_consult(fi, comment_preds):
    """Does fi look for a comment over a whole token sequence (not at fixed offsets from an anchor)?
    token_type_exists(<comment>) / does_token_type_exist_in_list_of_tokens(<comment>, ..) / a loop over tokens whose body
    tests the loop element for a comment."""
    for n in walk_function(fi.node):
        if isinstance(n, ast.Call):
            cn = _callee_name(n)
            if cn in ("token_type_exists", "does_token_type_exist_in_list_of_tokens", "count_token_types_in_list_of_tokens") and any(_mentions(a, ("comment",)) for a in n.args):
                return True
        if isinstance(n, ast.For):
            tg = n.target
            elems = set()
            if isinstance(tg, ast.Name):
                elems.add(tg.id)
                for x in ast.walk(n):
                    if isinstance(x, ast.Subscript) and isinstance(x.slice, ast.Name) and x.slice.id == tg.id:
                        elems.add(norm(x))
            elif isinstance(tg, ast.Tuple) and len(tg.elts) == 2:
                elems.add(norm(tg.elts[1]))
                if isinstance(n.iter, ast.Call) and n.iter.args:
                    elems.add("%s[%s]" % (norm(n.iter.args[0]), norm(tg.elts[0])))
            for x in ast.walk(n):
                if isinstance(x, ast.Call):
                    cn = _callee_name(x)
                    if cn == "isinstance" and len(x.args) == 2 and norm(x.args[0]) in elems and _mentions(x.args[1], ("comment",)):
                        return True
                    if cn in comment_preds and x.args and norm(x.args[-1] if len(x.args) == 1 else x.args[0]) in elems:
                        return True
    return False


def _consults(p, keys, not_a_guard=()):
    """rule-level functions among `keys` that mention a comment class / predicate (calling a comment-dropping primitive is not looking for comments)."""
    out = []
    for k in keys:
        fi = p.functions[k]
        if _rule_level(fi) and any("comment" in i.lower() and i not in not_a_guard for i in _ids(fi.node)):
            out.append(fi.key)
    return sorted(out)


def _ws_const(e):
    return isinstance(e, ast.Constant) and isinstance(e.value, str) and e.value.strip(" \t") == ""


def _only_whitespace_edit(fx, fi, e):
    """Is the new comment text the old text with whitespace inserted / whitespace replaced by whitespace?
    Accepted: WSINS (text[:k] + ws + text[k:] of the token's own value) and chains of
    <own text>.replace(<whitespace literal>, <whitespace literal>)."""
    c = fx._classify_value(fi, e, ws_locals(fi))
    if c == "WS" or c.startswith("WSINS"):
        return True
    src = e
    hops = 0
    while isinstance(src, ast.Name) and hops < 4:
        vals = [n.value for n in walk_function(fi.node) if isinstance(n, ast.Assign) and len(n.targets) == 1 and isinstance(n.targets[0], ast.Name) and n.targets[0].id == src.id]
        if len(vals) == 1:
            src = vals[0]
        elif len(vals) == 2 and all(isinstance(v, ast.Call) for v in vals[1:]) and any(isinstance(v, ast.Call) and isinstance(v.func, ast.Attribute) and v.func.attr == "get_value" for v in vals):
            # s = tok.get_value(); s = s.replace(ws, ws)
            src = [v for v in vals if not (isinstance(v.func, ast.Attribute) and v.func.attr == "get_value")][0]
            if isinstance(src, ast.Call) and isinstance(src.func, ast.Attribute) and src.func.attr == "replace" and len(src.args) == 2 and all(_ws_const(a) for a in src.args):
                return True
            return False
        else:
            return False
        hops += 1
    while isinstance(src, ast.Call) and isinstance(src.func, ast.Attribute) and src.func.attr == "replace":
        if not (len(src.args) == 2 and all(_ws_const(a) for a in src.args)):
            return False
        src = src.func.value
    if isinstance(src, ast.Call) and isinstance(src.func, ast.Attribute) and src.func.attr == "get_value":
        return True
    if isinstance(src, ast.Name):
        return _only_whitespace_edit(fx, fi, src) if src is not e else False
    return False


def _wholesale(fi, call):
    """Is set_tokens(arg) a replacement by a list that is not derived from the whole region? Returns a label or None."""
    a = call.args[0]

    def display_small(e):
        if not isinstance(e, ast.List):
            return False
        for x in e.elts:
            if isinstance(x, ast.Starred):
                return False
            if isinstance(x, ast.Subscript) and not isinstance(x.slice, ast.Slice):
                continue
            if isinstance(x, ast.Call):
                continue
            return False
        return True

    if display_small(a):
        return norm(a)[:40]
    if isinstance(a, ast.Name):
        binds = [n for n in walk_function(fi.node) if isinstance(n, ast.Assign) and any(isinstance(t, ast.Name) and t.id == a.id for t in n.targets)]
        if not binds or not all(display_small(b.value) for b in binds):
            return None
        for n in walk_function(fi.node):
            if isinstance(n, ast.Call) and isinstance(n.func, ast.Attribute) and isinstance(n.func.value, ast.Name) and n.func.value.id == a.id:
                if n.func.attr == "append" and n.args and (isinstance(n.args[0], ast.Call) or (isinstance(n.args[0], ast.Subscript) and not isinstance(n.args[0].slice, ast.Slice))):
                    continue
                return None
            if isinstance(n, ast.AugAssign) and isinstance(n.target, ast.Name) and n.target.id == a.id:
                return None
        for x in walk_function(fi.node):
            if isinstance(x, ast.For) and any(isinstance(y, ast.Name) and y.id == a.id for y in ast.walk(x)):
                return None
        return "%s = %s ..." % (a.id, norm(binds[0].value)[:30])
    return None


def _canon_guards(facts, node, fi=None):
    """the conditions dominating node, polarity-normalised; with fi, hoisted locals are expanded (a guard over a
    hoisted local is the same guard)"""
    canon = set()
    for t, pol in facts.conds_at(node):
        t = t.strip()
        while t.startswith("not "):
            t = t[4:].strip()
            if t.startswith("(") and t.endswith(")"):
                t = t[1:-1].strip()
            pol = not pol
        if fi is not None:
            try:
                t = expand_text(fi, ast.parse(t, mode="eval").body)
            except SyntaxError:
                pass
        canon.add("%s is %s" % (t, pol))
    return canon


def moved_entry(r, rule, kk, current_keys, p=None):
    """A whole-region replacement that moved to another function of the same module (helper extracted / inlined): the same
    replacement, and the tabled site it matches is gone from the tree.  Its guards must be the tabled guards, or a subset of
    them when every call site of the new function is itself dominated by the guards that are missing (they stayed in the
    callers).  Returns that entry or None."""
    if ":set_tokens(" not in kk or " under [" not in kk:
        return None
    fkey, rest = kk.split(":set_tokens(", 1)
    label, gtxt = rest.rsplit(" under [", 1)
    guards = set(g for g in gtxt[:-1].split("; ") if g)
    module = fkey.split(":")[0]
    for (erule, ekey), ent in r._table.items():
        if erule != rule or ekey in current_keys or ":set_tokens(" not in ekey or " under [" not in ekey:
            continue
        efk, erest = ekey.split(":set_tokens(", 1)
        elabel, egtxt = erest.rsplit(" under [", 1)
        eguards = set(g for g in egtxt[:-1].split("; ") if g)
        if efk.split(":")[0] != module or elabel != label:
            continue
        if eguards == guards:
            r._table_hits.add((erule, ekey))
            return ent
        if p is not None:
            # the site moved into a helper: its guards, with the helper's parameters replaced by what each caller
            # passes, together with the guards that stayed in the caller, must cover the tabled guards
            fi = p.functions.get(fkey)
            if fi is None or fi.cls is not None:
                continue
            ok = True
            n_calls = 0
            for g in p.functions.values():
                if g.module is not fi.module:
                    continue
                f = None
                for c in walk_function(g.node):
                    if isinstance(c, ast.Call) and isinstance(c.func, ast.Name) and c.func.id == fi.name:
                        n_calls += 1
                        if f is None:
                            f = Facts(g.node)
                        amap = {}
                        for pn, a in zip(fi.params, c.args):
                            try:
                                amap[pn] = ast.parse(expand_text(g, a), mode="eval").body
                            except SyntaxError:
                                pass
                        eff = set(_canon_guards(f, c, g))
                        for gd in guards:
                            txt, _, pol = gd.rpartition(" is ")
                            try:
                                tree = ast.parse(txt, mode="eval").body
                            except SyntaxError:
                                eff.add(gd)
                                continue

                            class _S(ast.NodeTransformer):
                                def visit_Name(self, node):
                                    return amap.get(node.id, node)

                            eff.add("%s is %s" % (norm(_S().visit(tree)), pol))
                        if not eguards <= eff:
                            ok = False
            if ok and n_calls:
                r._table_hits.add((erule, ekey))
                return ent
    return None


def wholesale_sites(p, reach):
    """Every set_tokens(<list not derived from the whole region>) in rule code reachable from a fix.
    Yields (fi, call node, key); the key contains the function, the replacement and the conditions that dominate
    the call - the guard is what makes such a site safe, so a changed guard is a new site that needs triage."""
    out = []
    for k in sorted(reach):
        fi = p.functions[k]
        if not fi.module.name.startswith("vsg.rules"):
            continue
        facts = None
        for n in walk_function(fi.node):
            if isinstance(n, ast.Call) and _callee_name(n) == "set_tokens" and n.args:
                w = _wholesale(fi, n)
                if w is None:
                    continue
                if facts is None:
                    facts = Facts(fi.node)
                canon = _canon_guards(facts, n, fi)
                guards = sorted(canon)
                key = "%s:set_tokens(%s) under [%s]" % (fi.key, w, "; ".join(guards))
                out.append((fi, n, key, guards))
    return out


def run(ctx):
    p = ctx.program
    cg = ctx.callgraph()
    r = Result("C02")
    r.load_table("c02.json")
    r.rule("C02.drop", "comments are deleted only at documented sites, or in families that look for comments, or at tabled sites")
    r.rule("C02.join", "every family whose fix can drop line breaks consults a comment predicate")
    r.rule("C02.rewrite", "only the comment-formatting rules construct comment tokens or set comment text")
    r.rule("C02.trim", "region extractors trim both ends with the same skip set")
    r.explanation = (
        "List primitives are classified by shape (which classes a filter or trim can drop, through predicate functions); the sites that can delete a comment "
        "or a line break are enumerated in everything reachable from a _fix_violation and attributed to the live rule families of the static rule table."
    )
    sh = Shapes(p)
    fx = FixEffects(ctx, Summaries(p, cg))
    dropC = sh.droppers["comment"]
    dropR = sh.droppers["cr"]
    r.extra["comment_predicates"] = sorted(sh.pred["comment"])
    r.extra["carriage_return_predicates"] = sorted(sh.pred["cr"])
    r.extra["comment_droppers"] = sorted(dropC)
    r.extra["carriage_return_droppers"] = sorted(dropR)
    for need in ("remove_comments_from_token_list", "remove_trailing_whitespace_and_comments", "remove_leading_whitespace_and_comments"):
        if need not in dropC:
            raise AnalysisError("comment-dropping primitive %s no longer recognised by shape (found %s)" % (need, sorted(dropC)))
    for need in ("remove_carriage_returns_from_token_list", "remove_trailing_whitespace"):
        if need not in dropR:
            raise AnalysisError("line-break dropping primitive %s no longer recognised by shape (found %s)" % (need, sorted(dropR)))
    if "token_is_whitespace_or_comment" not in sh.pred["comment"]:
        raise AnalysisError("comment predicates mis-derived: %s" % sorted(sh.pred["comment"]))

    fams = _families(ctx)
    if len(fams) < 90:
        raise AnalysisError("only %d live rule families found" % len(fams))
    fam_reach = {}
    for (fk, ak, tk) in fams:
        fr = set(cg.reachable([p.functions[fk]]))
        ar = set()
        for k in (ak, tk):
            if k:
                ar |= set(cg.reachable([p.functions[k]]))
        fam_reach[(fk, ak, tk)] = (fr, ar)

    def families_of(func_key):
        return [fam for fam, (fr, ar) in fam_reach.items() if func_key in fr]

    def fam_label(fam):
        es = fams[fam]
        ids = sorted(e.unique_id for e in es)
        return "%s [%s%s]" % (fam[0].split(":")[-1].replace("._fix_violation", ""), ", ".join(ids[:4]), ", ..." if len(ids) > 4 else "")

    from ..ruletable import ClassRef, Instance, strip

    def class_refs(v, depth=0):
        v = strip(v)
        if isinstance(v, ClassRef):
            yield v.ci.key
        elif isinstance(v, Instance) and depth < 3:
            for a in v.args:
                yield from class_refs(a, depth + 1)
        elif isinstance(v, (list, tuple)) and depth < 4:
            for x in v:
                yield from class_refs(x, depth + 1)

    ccls = set()
    for ck in ("vsg.parser:comment", "vsg.parser:preprocessor", "vsg.token.delimited_comment:text"):
        ci = p.cls(ck)
        ccls.add(ci.key)
        for sc in ci.all_subclasses():
            ccls.add(sc.key)

    def fam_consult(fam):
        fr, ar = fam_reach[fam]
        out = _consults(p, fr | ar, set(dropC))
        # a family every rule of which is configured on comment classes is about comments by construction
        conf = [e.unique_id for e in fams[fam] if any(ck in ccls for v in e.attrs.values() for ck in class_refs(v))]
        if conf and len(conf) == len(fams[fam]):
            out = out + ["configured on comment classes: " + ", ".join(sorted(conf)[:3])]
        return out

    _RW = re.compile(r"(token_type_exists|does_token_type_exist_in_list_of_tokens|count_token_types_in_list_of_tokens)\(.*comment")

    def _is_region_test(text, mod, depth=0):
        if _RW.search(text):
            return True
        # a predicate helper that returns such a test (one or two levels)
        try:
            e = ast.parse(text, mode="eval").body
        except SyntaxError:
            return False
        if isinstance(e, ast.Call) and isinstance(e.func, (ast.Name, ast.Attribute)) and depth < 2 and mod is not None:
            ent = p.resolve_expr(mod, e.func)
            if ent and ent[0] == "func":
                rets = [x.value for x in walk_function(ent[1].node) if isinstance(x, ast.Return) and x.value is not None]
                consts = [x for x in rets if isinstance(x, ast.Constant)]
                tests = [x for x in rets if not isinstance(x, ast.Constant)]
                if tests and all(_is_region_test(norm(x), ent[1].module, depth + 1) for x in tests) and all(c.value is False for c in consts):
                    return True
                # `if <test>: return True ... return False`
                if not tests and consts:
                    f2 = Facts(ent[1].node)
                    trues = [x for x in walk_function(ent[1].node) if isinstance(x, ast.Return) and isinstance(x.value, ast.Constant) and x.value.value is True]
                    if trues and all(any(pol is True and _is_region_test(t, ent[1].module, depth + 1) for t, pol in f2.conds_at(x)) for x in trues):
                        return True
        return False

    def _neg_region_test(guards, mod=None):
        return any(g.endswith(" is False") and _is_region_test(g[: -len(" is False")], mod) for g in guards)

    def fam_unguarded(fam, literals):
        """For a whole-region replacement that is safe only because regions holding a comment never reach it: the places
        of the family where such a region could still get through.  Either region selection keeps only regions that
        failed a region-wide comment test, or every producer of the violation (of the action literal the fix site is
        guarded by, when it has one) is dominated by the negative outcome of such a test.  [] = guarded."""
        fk, ak, tk = fam
        if tk and tk in p.functions and _rule_level(p.functions[tk]):
            t = p.functions[tk]
            tf = Facts(t.node)
            keeps = []
            for n in walk_function(t.node):
                if isinstance(n, ast.Call) and isinstance(n.func, ast.Attribute) and n.func.attr == "append":
                    keeps.append(_neg_region_test(_canon_guards(tf, n, t), t.module))
                if isinstance(n, ast.Return) and isinstance(n.value, ast.ListComp):
                    conds = [c for g in n.value.generators for c in g.ifs]
                    keeps.append(any(isinstance(c, ast.UnaryOp) and isinstance(c.op, ast.Not) and _RW.search(norm(c.operand)) for c in conds))
            if keeps and all(keeps):
                return []
        fr, ar = fam_reach[fam]
        out = []
        n_sinks = 0
        for k in sorted(ar | fr):
            g = p.functions[k]
            if not _rule_level(g) or k == fk:
                continue
            gf = None
            for n in walk_function(g.node):
                sink = False
                if literals:
                    if isinstance(n, ast.Call) and any(isinstance(a, ast.Constant) and a.value in literals for a in list(n.args) + [kw.value for kw in n.keywords]) and _callee_name(n) not in ("isinstance",):
                        sink = True
                    if isinstance(n, ast.Assign) and isinstance(n.value, ast.Constant) and n.value.value in literals and isinstance(n.targets[0], ast.Subscript):
                        sink = True
                elif isinstance(n, ast.Call) and _callee_name(n) == "add_violation":
                    sink = True
                if not sink:
                    continue
                n_sinks += 1
                if gf is None:
                    gf = Facts(g.node)
                if not _neg_region_test(_canon_guards(gf, n, g), g.module):
                    out.append((g, n))
        if not n_sinks:
            return [(p.functions[fk], p.functions[fk].node)]
        return out

    fix_roots = [m for ci in p.classes.values() for name, m in ci.methods.items() if name == "_fix_violation" and ci.key != "vsg.rule:Rule"]
    reach = cg.reachable(fix_roots)

    # ------------------------------------------------------------------ drop
    sites = []  # (kind, fi, node, label)
    n_fixfuncs = 0
    for k in sorted(reach):
        fi = p.functions[k]
        if not fi.module.name.startswith("vsg.rules") or fi.module.name == "vsg.rules.utils" and fi.name in dropC:
            continue
        n_fixfuncs += 1
        facts = None
        for n in walk_function(fi.node):
            if isinstance(n, ast.Call):
                cn = _callee_name(n)
                if cn in dropC and not (isinstance(n.func, ast.Attribute) and isinstance(n.func.value, ast.Name) and n.func.value.id == "self"):
                    sites.append(("call", fi, n, "%s()" % cn))
            kind = None
            if isinstance(n, ast.Continue):
                kind = "continue"
            elif isinstance(n, ast.Delete):
                kind = "del"
            elif isinstance(n, ast.Call) and isinstance(n.func, ast.Attribute) and n.func.attr in ("pop", "remove"):
                par = getattr(n, "_parent", None)
                if isinstance(par, ast.Call) or isinstance(par, ast.Assign):
                    kind = None  # value re-used: a move
                else:
                    kind = n.func.attr
            elif isinstance(n, (ast.Assign, ast.Return)) and isinstance(n.value, ast.Subscript) and isinstance(n.value.slice, ast.Slice):
                kind = "slice"
            if kind is None:
                continue
            if facts is None:
                facts = Facts(fi.node)
            for t, pol in facts.conds_at(n):
                if pol is True and sh._test_true_for(t, "comment") and not sh._test_true_for(t, "cr"):
                    sites.append(("direct", fi, n, "%s under `%s`" % (kind, t[:50])))
                    break
    r.extra["fix_reachable_rule_functions"] = n_fixfuncs
    if n_fixfuncs < 100:
        raise AnalysisError("only %d fix-reachable rule functions" % n_fixfuncs)
    seen = set()
    for kind, fi, n, label in sites:
        kk = "%s:%s" % (fi.key, label)
        if kk in seen:
            continue
        seen.add(kk)
        if fi.key in DOCUMENTED_REMOVERS:
            r.ok("C02.drop", kk, "documented comment remover: " + DOCUMENTED_REMOVERS[fi.key])
            continue
        fs = families_of(fi.key)
        if not fs:
            r.ok("C02.drop", kk, "not reachable from the fix of any live rule", sample=False, nontrivial=False)
            continue
        bad = [fam for fam in fs if not fam_consult(fam)] if kind == "wholesale" else fs
        if not bad:
            r.ok("C02.drop", kk, "every family that reaches it consults a comment predicate (%s)" % "; ".join(fam_label(f) for f in fs[:3]))
            continue
        if r.tabled("C02.drop", kk):
            r.ok("C02.drop", kk, "tabled", sample=False)
            continue
        what = {"call": "calls a comment-dropping primitive", "direct": "drops elements under a comment test", "wholesale": "replaces its whole region by a list not derived from it"}[kind]
        if kind == "wholesale":
            msg = "%s %s, and the rule famil%s %s never look%s for a comment in region selection, analysis or fix: a comment inside the region is deleted by a rule whose purpose is not comment removal" % (
                fi.key, what, "y" if len(bad) == 1 else "ies", "; ".join(fam_label(f) for f in bad[:3]), "s" if len(bad) == 1 else "")
        else:
            msg = "%s %s (%s) and is reachable from the fix of %s: comments may be deleted only by the two documented comment-removing fixes" % (fi.key, what, label, "; ".join(fam_label(f) for f in bad[:3]))
        r.fail("C02.drop", kk, msg, fi.loc(n))
    n_whole = 0
    wsites = wholesale_sites(p, reach)
    wkeys = {k for _, _, k, _ in wsites}
    for fi, n, kk, guards in wsites:
        n_whole += 1
        seen.add(kk)
        if fi.key in DOCUMENTED_REMOVERS:
            r.ok("C02.drop", kk, "documented comment remover: " + DOCUMENTED_REMOVERS[fi.key])
            continue
        fs = families_of(fi.key)
        if not fs:
            r.ok("C02.drop", kk, "not reachable from the fix of any live rule", sample=False, nontrivial=False)
            continue
        if any(g.endswith(" is False") and "comment" in g.lower() and ("lTokens" in g or "get_tokens" in g) for g in guards):
            r.ok("C02.drop", kk, "the replacement runs only when the region holds no comment (`%s`)" % [g for g in guards if "comment" in g.lower()][0][:70])
            continue
        ent = r.tabled("C02.drop", kk) or moved_entry(r, "C02.drop", kk, wkeys, p)
        if ent:
            if ent.get("requires_family_guard"):
                lits = set(re.findall(r"== '(\w+)' is True", kk))
                bad = [fam for fam in fs if not fam_consult(fam)]
                ung = [(fam, x) for fam in fs for x in fam_unguarded(fam, lits)]
                if ung and not bad:
                    fam0, (g0, n0) = ung[0]
                    r.fail("C02.drop", kk + ":family-guard", "%s replaces its whole region; that is safe only while no region holding a comment reaches it, but %s can still report such a region (`%s` is not dominated by the negative outcome of a region-wide comment test, and region selection does not filter): the comment is deleted by the fix" % (fi.key, g0.key, norm(n0)[:60] if not isinstance(n0, ast.FunctionDef) else "no producer found"), g0.loc(n0) if not isinstance(n0, ast.FunctionDef) else g0.loc())
                    continue
                if bad:
                    r.fail("C02.drop", kk + ":family-guard", "%s replaces its whole region; that is safe only because region selection / analysis skips regions holding a comment, and the famil%s %s no longer look%s for one" % (fi.key, "y" if len(bad) == 1 else "ies", "; ".join(fam_label(f) for f in bad[:3]), "s" if len(bad) == 1 else ""), fi.loc(n))
                    continue
            r.ok("C02.drop", kk, "tabled: " + ent.get("reason", "")[:90], sample=False)
            continue
        r.fail("C02.drop", kk, "%s replaces its whole region by a list that is not derived from it, and this site (with these guards) has not been shown to be free of comments: a comment inside the region is deleted by a rule whose purpose is not comment removal" % fi.key, fi.loc(n))
    r.extra["wholesale_replacement_sites"] = n_whole
    if n_whole < 15:
        raise AnalysisError("only %d wholesale replacement sites found" % n_whole)
    r.extra["comment_loss_sites"] = len(seen)
    # what this clause does not decide: index-computed deletions and rebuilt lists (listed, never alarmed)
    n_unk = 0
    done = set()
    for fam in sorted(fams):
        prov = p.functions[fam[0]]
        if prov.key in done:
            continue
        done.add(prov.key)
        for x in fx.effects_of(prov):
            if x.kind == "STRUCT" and re.search(r"pop|del |remove|rebuilt|\[a:b\]|clear", x.detail):
                par = getattr(x.node, "_parent", None)
                if ".pop()" in x.detail and isinstance(par, (ast.Call, ast.Assign)):
                    continue  # the popped token is re-used (moved), not deleted
                uk = "%s:%s" % (x.fi.key, x.detail)
                if uk in seen or any(uk.startswith(k.split(":set_tokens")[0]) and "set_tokens" in k and "set_tokens" in uk for k in seen):
                    continue
                n_unk += 1
                r.unknown("C02.drop", uk, "index-computed deletion / rebuilt list: which tokens it removes is a run-time selection")
    r.extra["undecided_structural_edits"] = n_unk
    if len(seen) < 12:
        raise AnalysisError("only %d comment-loss candidate sites enumerated" % len(seen))

    # ------------------------------------------------------------------ join
    n_join = 0
    for fam in sorted(fams):
        fr, ar = fam_reach[fam]
        js = []
        for k in fr:
            fi = p.functions[k]
            if not (fi.module.name.startswith("vsg.rules") or fi.module.name in _UTILS):
                continue
            if fi.name in dropR and fi.module.name in _UTILS:
                continue
            for n in walk_function(fi.node):
                if isinstance(n, ast.Call) and _callee_name(n) in dropR:
                    js.append((fi, n))
        if not js:
            continue
        n_join += 1
        kk = "%s|%s|%s" % tuple((x or "-").split(":")[-1] for x in fam)
        cons = fam_consult(fam)
        fr_all = fr | ar
        wide = sorted(k for k in fr_all if _rule_level(p.functions[k]) and _region_wide_consult(p.functions[k], sh.pred["comment"]))
        conf_only = [c for c in cons if c.startswith("configured on comment classes")]
        if cons and (wide or conf_only or any(fk in DOCUMENTED_REMOVERS for fk, _ in [(f_.key, 0) for f_, _n in js])):
            r.ok("C02.join", kk, "drops line breaks via %s; looks for comments over the whole region in %s" % (sorted({_callee_name(n) for _, n in js})[0], ", ".join(c.split(":")[-1] for c in (wide or cons)[:3])))
        elif cons and r.tabled("C02.join", kk):
            r.ok("C02.join", kk, "tabled", sample=False)
        elif cons:
            fi, n = js[0]
            r.fail(
                "C02.join",
                kk + ":fixed-offset-guard",
                "the fix of %s removes carriage returns (%s in %s); the family mentions comments (%s) but only at fixed offsets from an anchor token - nothing scans the region whose line breaks are removed, so a comment anywhere else in it (e.g. on a line of its own) swallows the code that follows" % (fam_label(fam), _callee_name(n), fi.key, ", ".join(c.split(":")[-1] for c in cons[:3])),
                fi.loc(n),
            )
        elif r.tabled("C02.join", kk):
            r.ok("C02.join", kk, "tabled", sample=False)
        else:
            fi, n = js[0]
            r.fail(
                "C02.join",
                kk,
                "the fix of %s removes carriage returns (%s in %s) but no rule-level code of the family (region selection, analysis, fix) looks for a comment: a `--` comment in front of a removed line break swallows the code that followed it"
                % (fam_label(fam), _callee_name(n), fi.key),
                fi.loc(n),
            )
    r.extra["line_joining_families"] = n_join
    if n_join < 6:
        raise AnalysisError("only %d line-joining families found" % n_join)

    # ------------------------------------------------------------------ rewrite
    allowed_mod = re.compile(r"^vsg\.rules\.(comment|block_comment)\.|^vsg\.rules\.whitespace\.rule_002$|^vsg\.block_rule$")
    n_rw = 0
    for k in sorted(reach):
        fi = p.functions[k]
        if fi.module.name.startswith(("vsg.vhdlFile.classify", "vsg.vhdlFile.vhdlFile", "vsg.tokens", "vsg.vhdlFile.code_tags")):
            continue
        facts = None
        for n in walk_function(fi.node):
            if not isinstance(n, ast.Call):
                continue
            what = None
            if isinstance(n.func, (ast.Name, ast.Attribute)):
                ent = p.resolve_expr(fi.module, n.func)
                if ent and ent[0] == "class" and ent[1].key in ccls:
                    what = "constructs %s" % ent[1].key
            if what is None and isinstance(n.func, ast.Attribute) and n.func.attr == "set_value":
                if facts is None:
                    facts = Facts(fi.node)
                recv = norm(n.func.value)
                for t, pol in facts.conds_at(n):
                    if pol is True and sh._test_true_for(t, "comment") and recv in t:
                        what = "set_value on `%s` under `%s`" % (recv, t[:40])
                        break
            if what is None:
                continue
            n_rw += 1
            kk = "%s:%s" % (fi.key, what)
            if allowed_mod.search(fi.module.name):
                if n.args and not _only_whitespace_edit(fx, fi, n.args[0]) and not r.tabled("C02.rewrite", kk):
                    r.fail("C02.rewrite", kk, "%s %s with a text (`%s`) that is not the old text with whitespace inserted or replaced: the documented normalisations of comments are a space after `--` and tab replacement" % (fi.key, what, norm(n.args[0])[:60]), fi.loc(n))
                else:
                    r.ok("C02.rewrite", kk, "comment-formatting rule; the new text is the old text with whitespace inserted / replaced")
            elif not families_of(fi.key):
                r.ok("C02.rewrite", kk, "not reachable from the fix of any live rule", sample=False, nontrivial=False)
            elif r.tabled("C02.rewrite", kk):
                r.ok("C02.rewrite", kk, "tabled", sample=False)
            else:
                r.fail("C02.rewrite", kk, "%s %s in code reachable from a fix outside the comment-formatting rules: comment text must survive verbatim" % (fi.key, what), fi.loc(n))
    # families whose configured token classes are comment classes and whose fix writes token text
    for fam in sorted(fams):
        fr, ar = fam_reach[fam]
        targets = sorted({e.unique_id for e in fams[fam] if any(ck in ccls for v in e.attrs.values() for ck in class_refs(v))})
        if not targets:
            continue
        for k in sorted(fr):
            fi = p.functions[k]
            if not fi.module.name.startswith("vsg.rules") or fi.module.name == "vsg.rules.utils":
                continue
            for n in walk_function(fi.node):
                if isinstance(n, ast.Call) and isinstance(n.func, ast.Attribute) and n.func.attr == "set_value" and n.args:
                    if fx._classify_value(fi, n.args[0], ws_locals(fi)) == "WS":
                        continue  # writes a whitespace token's text (indent / alignment), not the comment
                    n_rw += 1
                    kk = "%s:set_value(%s) in a family configured on comment tokens" % (fi.key, norm(n.args[0])[:30])
                    if allowed_mod.search(fi.module.name):
                        if not _only_whitespace_edit(fx, fi, n.args[0]) and not r.tabled("C02.rewrite", kk):
                            r.fail("C02.rewrite", kk, "comment rule %s sets a comment's text to `%s`, which is not the old text with whitespace inserted or replaced (documented normalisations: a space after `--`, tab replacement)" % (", ".join(targets[:3]), norm(n.args[0])[:60]), fi.loc(n))
                        else:
                            r.ok("C02.rewrite", kk, "comment-formatting rule %s; the new text is the old text with whitespace inserted / replaced" % ", ".join(targets[:3]))
                    elif r.tabled("C02.rewrite", kk):
                        r.ok("C02.rewrite", kk, "tabled", sample=False)
                    else:
                        r.fail("C02.rewrite", kk, "rule(s) %s select comment tokens and their fix writes token text in %s, outside the comment-formatting rules" % (", ".join(targets[:4]), fi.key), fi.loc(n))
    r.extra["comment_write_sites"] = n_rw
    if n_rw < 2:
        raise AnalysisError("only %d comment write sites found (whitespace_002 / block comment rules expected)" % n_rw)

    # ------------------------------------------------------------------ trim
    names = {}
    for fi in p.functions.values():
        names.setdefault(fi.name, []).append(fi)
    for nm in _OC + _WS:
        if nm not in names:
            raise AnalysisError("trimming primitive %s vanished" % nm)
    # re-derive the classification: OC primitives (transitively) use a comment predicate, WS ones do not
    def uses_comment(fi, depth=0, seen=None):
        seen = seen or set()
        if fi.key in seen or depth > 3:
            return False
        seen.add(fi.key)
        for n in walk_function(fi.node):
            if isinstance(n, ast.Attribute) and n.attr == "comment":
                return True
            if isinstance(n, ast.Call):
                cn = _callee_name(n)
                if cn in sh.pred["comment"] or cn == "is_token_at_index_whitespace_or_comment":
                    return True
                # a predicate handed to a generic trimming helper
                for a in n.args:
                    if isinstance(a, (ast.Name, ast.Attribute)) and norm(a).split(".")[-1] in sh.pred["comment"]:
                        return True
        return False

    for nm in _OC:
        if not any(uses_comment(fi) for fi in names[nm]):
            r.fail("C02.trim", "classification:%s" % nm, "%s is used as a comment-skipping primitive but no longer tests for comments" % nm, names[nm][0].loc())
    for nm in _WS:
        if any(uses_comment(fi) for fi in names[nm]):
            r.fail("C02.trim", "classification:%s" % nm, "%s is used as a whitespace-only primitive but now also skips comments" % nm, names[nm][0].loc())
    n_ex = 0
    n_mixed_ok = 0
    for fi in sorted(p.functions.values(), key=lambda f: f.key):
        if not fi.module.name.startswith("vsg.vhdlFile.extract"):
            continue
        oc = []
        ws = []
        for n in walk_function(fi.node):
            if isinstance(n, ast.Call):
                cn = _callee_name(n)
                if cn in _OC:
                    oc.append((cn, n))
                elif cn in _WS:
                    ws.append((cn, n))
        if not oc and not ws:
            continue
        n_ex += 1
        if oc and ws:
            kk = "%s:%s+%s" % (fi.key, oc[0][0], ws[0][0])
            if r.tabled("C02.trim", kk):
                r.ok("C02.trim", kk, "tabled", sample=False)
                n_mixed_ok += 1
            else:
                r.fail(
                    "C02.trim",
                    kk,
                    "%s bounds its region with %s (skips comments) at one end and %s (stops at comments) at the other: a comment next to one boundary is inside the region and next to the other it is outside, so the rule that rewrites the region puts code behind it or drops it"
                    % (fi.key, oc[0][0], ws[0][0]),
                    fi.loc(ws[0][1]),
                )
        else:
            r.ok("C02.trim", fi.key, "%s only" % ("comment-skipping" if oc else "whitespace-only"), sample=False)
    r.extra["extractors_with_trimming"] = n_ex
    if n_ex < 8:
        raise AnalysisError("only %d extractors using trimming primitives found" % n_ex)
    r.ok("C02.trim", "extractors", "%d region extractors use one trimming family each" % (n_ex - n_mixed_ok))
    return r


_R = "vsg/rules/"
VARIANTS = [
    Variant("C02", "comment guard of the 'remove' violation replaced by a next-token test that skips comments", "fire",
            [("vsg/rules/multiline_simple_structure.py", "            if utils.does_token_type_exist_in_list_of_tokens(parser.comment, lTokens[:iNextToken]):\n                return\n", "            if utils.are_next_consecutive_token_types_ignoring_whitespace([parser.comment], 1, lTokens):\n                return\n")],
            rule="C02.drop", key="family-guard"),
    Variant("C02", "twin: comment guard of the 'remove' violation written as a nested if", "silent",
            [("vsg/rules/multiline_simple_structure.py", "            if utils.does_token_type_exist_in_list_of_tokens(parser.comment, lTokens[:iNextToken]):\n                return\n            sSolution = \"Move code after assignment to the same line as assignment.\"\n            oViolation = _create_violation(oToi, iLine, 0, iNextToken, \"new_line_after_assign\", \"remove\", sSolution)\n            self.add_violation(oViolation)", "            if not utils.does_token_type_exist_in_list_of_tokens(parser.comment, lTokens[:iNextToken]):\n                sSolution = \"Move code after assignment to the same line as assignment.\"\n                oViolation = _create_violation(oToi, iLine, 0, iNextToken, \"new_line_after_assign\", \"remove\", sSolution)\n                self.add_violation(oViolation)")]),
    Variant("C02", "label-removal rules keep regions that hold a comment", "fire",
            [("vsg/rules/remove_tokens_bounded_by_tokens_and_remove_trailing_whitespace.py", "        return [oToi for oToi in lToi if not oToi.token_type_exists(parser.comment)]", "        return [oToi for oToi in lToi if not oToi.token_type_exists(parser.comment) or len(oToi.get_tokens()) < 4]")],
            rule="C02.drop", key="family-guard"),
    Variant("C02", "line-joining rule loses its comment guard", "fire",
            [(_R + "remove_carriage_return_after_token.py", "                    if isinstance(oToken, parser.comment):\n                        break\n", "")], rule="C02.join"),
    Variant("C02", "label removal without comment guard", "fire",
            [(_R + "remove_tokens_bounded_by_tokens_and_remove_trailing_whitespace.py", "        return [oToi for oToi in lToi if not oToi.token_type_exists(parser.comment)]", "        return lToi")], rule="C02.drop"),
    Variant("C02", "signal split without comment guard", "fire",
            [(_R + "separate_multiple_signal_identifiers_into_individual_statements.py", "        return [oToi for oToi in lToi if not oToi.token_type_exists(parser.comment)]", "        return lToi")], rule="C02.join"),
    Variant("C02", "move rule strips comments with the trailing whitespace", "fire",
            [(_R + "move_token_right_to_next_non_whitespace_token.py", "        lNewTokens = utils.remove_all_trailing_whitespace(lNewTokens)", "        lNewTokens = utils.remove_trailing_whitespace_and_comments(lNewTokens)")], rule="C02.drop"),
    Variant("C02", "case rule rewrites comment text", "fire",
            [(_R + "token_case.py", "    def _fix_violation(self, oViolation):\n", "    def _fix_violation(self, oViolation):\n        for oToken in oViolation.get_tokens():\n            if isinstance(oToken, parser.comment):\n                oToken.set_value(oToken.get_value().lower())\n")], rule="C02.rewrite"),
    Variant("C02", "extractor trims its end at comments but its start over them", "fire",
            [("vsg/vhdlFile/extract/get_tokens_starting_with_token_and_ending_with_one_of_possible_tokens.py", "                    lNewTemp = vhdl_utils.remove_trailing_whitespace_and_comments(lTemp)", "                    lNewTemp = vhdl_utils.remove_trailing_whitespace(lTemp)")], rule="C02.trim"),
    Variant("C02", "whitespace predicate starts skipping comments", "fire",
            [("vsg/vhdlFile/utils.py", "def token_is_whitespace(oToken):\n    if (\n        isinstance(oToken, parser.whitespace)\n", "def token_is_whitespace(oToken):\n    if (\n        isinstance(oToken, parser.whitespace)\n        or isinstance(oToken, parser.comment)\n")]),
    Variant("C02", "after_003 replaces its region although it holds a comment", "fire",
            [(_R + "after/rule_003.py", "                        if not oNewToi.token_type_exists(parser.comment):\n                            self.add_violation(oViolation)", "                        self.add_violation(oViolation)")], rule="C02.drop"),
    Variant("C02", "remove_new_line analysis loses its comment test", "fire",
            [(_R + "check.py", "        if comment_between(lTokens, iToken, utils.find_next_non_whitespace_token(iToken + 1, lTokens)):\n            return\n", ""),
             (_R + "check.py", "        if comment_between(lTokens, utils.find_previous_non_whitespace_token(iToken - 1, lTokens), iToken):\n            return\n", ""),
             (_R + "check.py", "def comment_between(lTokens, iStart, iEnd):\n    for oToken in lTokens[iStart:iEnd]:\n        if isinstance(oToken, parser.comment):\n            return True\n    return False\n", ""),
             (_R + "utils.py", "    if token_is_comment(lTokens[iToken + 1]):\n        return True\n    if token_is_whitespace(lTokens[iToken + 1]) and token_is_comment(lTokens[iToken + 2]):\n        return True\n    return False\n\n\ndef left_most", "    return False\n\n\ndef left_most")], rule="C02.join"),
    Variant("C02", "twin: comment guard moved from region selection into analysis", "silent",
            [(_R + "remove_tokens_bounded_by_tokens_and_remove_trailing_whitespace.py", "        return [oToi for oToi in lToi if not oToi.token_type_exists(parser.comment)]", "        return lToi"),
             (_R + "remove_tokens_bounded_by_tokens_and_remove_trailing_whitespace.py", "        for oToi in lToi:\n            self.add_violation", "        for oToi in lToi:\n            if oToi.token_type_exists(parser.comment):\n                continue\n            self.add_violation")]),
    Variant("C02", "comment_100 inserts its space with str.replace on the whole comment", "fire",
            [(_R + "comment/rule_100.py", "        sNewToken = sToken[0 : dAction[\"index\"]] + \" \" + sToken[dAction[\"index\"] :]\n        lTokens[0].set_value(sNewToken)", "        lTokens[0].set_value(sToken.replace(sToken[0 : dAction[\"index\"]], sToken[0 : dAction[\"index\"]] + \" \"))")], rule="C02.rewrite"),
    Variant("C02", "tab replacement in comments also collapses text", "fire",
            [(_R + "whitespace/rule_002.py", "    sValue = sValue.replace(\"\\t\", \"  \")\n    lTokens.append(parser.comment(sValue))", "    sValue = sValue.replace(\"\\t\", \"  \").replace(\"--\", \"-- \")\n    lTokens.append(parser.comment(sValue))")], rule="C02.rewrite"),
    Variant("C02", "remove_new_line guard looks only right behind the anchor token", "fire",
            [(_R + "check.py", "        if comment_between(lTokens, iToken, utils.find_next_non_whitespace_token(iToken + 1, lTokens)):\n            return\n", "        if rules_utils.token_is_comment(lTokens[iToken + 1]):\n            return\n"),
             (_R + "check.py", "        if comment_between(lTokens, utils.find_previous_non_whitespace_token(iToken - 1, lTokens), iToken):\n            return\n", "        if rules_utils.token_is_comment(lTokens[iToken - 1]):\n            return\n"),
             (_R + "check.py", "def comment_between(lTokens, iStart, iEnd):\n    for oToken in lTokens[iStart:iEnd]:\n        if isinstance(oToken, parser.comment):\n            return True\n    return False\n", "")], rule="C02.join", key="fixed-offset-guard"),
    Variant("C02", "twin: guard written with the utils predicate", "silent",
            [(_R + "remove_carriage_return_after_token.py", "                    if isinstance(oToken, parser.comment):\n                        break\n", "                    if rules_utils.token_is_comment(oToken):\n                        break\n")]),
    Variant("C02", "twin: fix drops only whitespace from the rebuilt list", "silent",
            [(_R + "move_token_right_to_next_non_whitespace_token.py", "        lNewTokens = utils.remove_all_trailing_whitespace(lNewTokens)", "        lNewTokens = utils.remove_all_trailing_whitespace(lNewTokens)\n        lNewTokens = utils.remove_consecutive_whitespace_tokens(lNewTokens)")]),
]
