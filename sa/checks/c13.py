# -*- coding: utf-8 -*-
"""
C13 - phase gating, --all_phases, --fix_phase and skip_phase mean what they say.

  C13.loops       check_rules and fix are siblings: same sub-phase range, same per-iteration
                  pipeline (in-phase -> in-subphase -> not-disabled), skip test first; fix bounds
                  the phase by int(iFixPhase) inclusive; no rule is analysed/fixed outside the loops.
  C13.selectors   the three selector functions keep exactly phase ==, subphase ==, not disable.
  C13.gate        bAllPhases only guards one break at phase-loop level, after the sub-phase loop,
                  conditional on self.violations, which is set only from counts of error-type rules.
                  (With C06 - analysis has no effects - the gated run is a prefix of the all-phases run.)
  C13.table       every live rule's default phase/subphase lies inside the loop ranges.
  C13.forwarding  apply_rules forwards fix_phase / skip_phase / all_phases from the same
                  commandLineArguments; config.update_command_line_arguments is the only writer of skip_phase.
Does not decide: user re-assignment of a rule's phase; the lastPhaseRan text.
"""

import ast

from ..flow import Facts, callee_text
from ..model import AnalysisError, norm, walk_function
from ..report import Result
from ..ruletable import UNKNOWN
from ..selftest import Variant

LEVEL = "other"
META = {
    "technique": "static analysis: loop-shape extraction and sibling cross-check of rule_list.check_rules / rule_list.fix, def-use of the gating flag, selector-function shape, static rule table range check, argument forwarding, verbatim-forwarding (identity through copies/defaults/helpers) of the configured skip list",
    "level_text": "Decides by code shape, for all inputs and configurations, that the phase/sub-phase loops of check and fix agree, that the skip test "
    "precedes any rule activity, that --fix_phase bounds the loop inclusively, that the gating break is per phase and depends only on error-type "
    "violation counts, and that every live rule falls inside the loop ranges. Combined with C06 this yields the prefix property by construction.",
    "level_note": "Trusted base: CPython ast, the analyser, range() semantics. Not decided: behaviour when the user re-assigns `phase` to a value outside 1..7.",
}


def _range_loops(fnode):
    out = []
    for n in walk_function(fnode):
        if isinstance(n, ast.For) and isinstance(n.iter, ast.Call) and isinstance(n.iter.func, ast.Name) and n.iter.func.id == "range" and isinstance(n.target, ast.Name):
            out.append(n)
    return out


def _const(e):
    if isinstance(e, ast.Constant) and isinstance(e.value, int):
        return e.value
    return None


def _parents(n, stop):
    out = []
    p = getattr(n, "_parent", None)
    while p is not None and p is not stop:
        out.append(p)
        p = getattr(p, "_parent", None)
    return out


def _normalised_phase_loop(fi, loop):
    """A phase loop over `[p for p in range(a, b) if p not in skip]` (possibly through a local) is the range loop with the
    skip test first; returns the equivalent `for p in range(a, b): if p in skip: continue; <body>` or None."""
    import copy

    from ..model import expand_text

    try:
        it = ast.parse(expand_text(fi, loop.iter), mode="eval").body
    except SyntaxError:
        return None
    if not (isinstance(it, (ast.ListComp, ast.GeneratorExp)) and len(it.generators) == 1):
        return None
    g = it.generators[0]
    if not (isinstance(it.elt, ast.Name) and isinstance(g.target, ast.Name) and it.elt.id == g.target.id):
        return None
    if not (isinstance(g.iter, ast.Call) and isinstance(g.iter.func, ast.Name) and g.iter.func.id == "range"):
        return None
    skips = [q for q in fi.params if "skip" in q.lower()]
    tests = []
    for c in g.ifs:
        if isinstance(c, ast.Compare) and len(c.ops) == 1 and isinstance(c.ops[0], ast.NotIn) and norm(c.left) == g.target.id and skips and norm(c.comparators[0]) == skips[0]:
            tests.append(c)
        else:
            return None
    new = copy.copy(loop)
    new.iter = g.iter
    body = list(loop.body)
    if tests:
        t = ast.Compare(left=ast.Name(id=loop.target.id, ctx=ast.Load()), ops=[ast.In()], comparators=[ast.Name(id=skips[0], ctx=ast.Load())])
        body = [ast.If(test=t, body=[ast.Continue()], orelse=[])] + body
    new.body = body
    ast.copy_location(new, loop)
    for n in ast.walk(new):
        for ch in ast.iter_child_nodes(n):
            if not hasattr(ch, "_parent") or n is new or isinstance(n, ast.If) and n is body[0]:
                ch._parent = n
        if not hasattr(n, "lineno"):
            n.lineno = loop.lineno
            n.col_offset = 0
    new._parent = getattr(loop, "_parent", None)
    return new


def _loop_info(r, fi, what):
    loops = _range_loops(fi.node)
    phase = [l for l in loops if l.target.id.lower().startswith("phase") or l.target.id == "iPhase"]
    sub = [l for l in loops if "sub" in l.target.id.lower()]
    if len(phase) == 0 and len(sub) == 1:
        # the phase loop does not iterate a range directly
        cand = [l for l in walk_function(fi.node) if isinstance(l, ast.For) and isinstance(l.target, ast.Name) and (l.target.id.lower().startswith("phase") or l.target.id == "iPhase") and l in _parents(sub[0], fi.node)]
        if len(cand) == 1:
            nl = _normalised_phase_loop(fi, cand[0])
            if nl is not None:
                return nl, sub[0]
            from ..model import expand_text

            r.fail("C13.loops", fi.key + ":phase-domain", "the phase loop of %s iterates `%s`, which is not the phases 1..bound with the skipped ones left out: a bound applied by position to an already filtered list (or any other selection) runs phases above the bound when a lower phase is skipped" % (fi.name, expand_text(fi, cand[0].iter)[:90]), fi.loc(cand[0]))
            return None, sub[0]
    if len(phase) != 1 or len(sub) != 1:
        raise AnalysisError("%s: expected one phase loop and one subphase loop, found %d/%d" % (fi.key, len(phase), len(sub)))
    ph, sb = phase[0], sub[0]
    if ph not in _parents(sb, fi.node):
        r.fail("C13.loops", fi.key + ":nesting", "the sub-phase loop is not nested in the phase loop", fi.loc(sb))
    return ph, sb


def run(ctx):
    p = ctx.program
    cg = ctx.callgraph()
    rt = ctx.ruletable
    r = Result("C13")
    r.load_table("c13.json")
    r.rule("C13.loops", "phase/sub-phase loops of check_rules and fix agree; skip first; fix bounded by int(iFixPhase) inclusive")
    r.rule("C13.selectors", "selector functions keep exactly phase ==, subphase ==, not disable")
    r.rule("C13.gate", "bAllPhases guards one phase-level break conditional on error-type violation counts")
    r.rule("C13.table", "every live rule's phase/subphase is inside the loop ranges")
    r.rule("C13.forwarding", "fix_phase/skip_phase/all_phases forwarded from the same commandLineArguments")
    r.explanation = (
        "Loop headers, nesting and per-iteration pipelines of rule_list.check_rules and rule_list.fix are extracted from the AST and "
        "cross-checked as siblings; def-use of bAllPhases/self.violations/iFailures; selector functions checked by shape; the statically "
        "derived rule table (abstract interpretation of every rule constructor chain) is checked against the loop ranges."
    )
    check = p.function("vsg.rule_list:rule_list.check_rules")
    fix_orig = p.function("vsg.rule_list:rule_list.fix")
    from ..model import inline_helpers

    # the per-rule body of the loops may live in a helper method (extract-method refactoring): loop shape and
    # pipeline are decided on the view with such helpers inlined
    fix = inline_helpers(p, fix_orig, toward={"fix", "analyze"})
    cph, csb = _loop_info(r, check, "check")
    fph, fsb = _loop_info(r, fix, "fix")
    if cph is None or fph is None:
        return r  # the phase domain itself is wrong (reported); the remaining clauses are stated relative to it

    # ----- sub-phase ranges equal and constant
    ca = [_const(a) for a in csb.iter.args]
    fa = [_const(a) for a in fsb.iter.args]
    if None in ca or None in fa:
        r.unknown("C13.loops", "subphase-range", "non-constant sub-phase range")
    elif ca != fa:
        r.fail("C13.loops", "subphase-range-agreement", "check_rules iterates sub-phases range%s but fix iterates range%s" % (tuple(ca), tuple(fa)), fix.loc(fsb))
    else:
        r.ok("C13.loops", "subphase-range-agreement", "both range%s" % (tuple(ca),))
    # ----- check phase range constant
    cp = [_const(a) for a in cph.iter.args]
    if None in cp or len(cp) != 2:
        r.unknown("C13.loops", check.key + ":phase-range", norm(cph.iter))
        cp = None
    # ----- fix phase range: range(1, int(iFixPhase) + 1)
    fp_param = fix.params[1] if len(fix.params) > 1 else None
    fargs = fph.iter.args
    ok_fix = False
    if len(fargs) == 2 and _const(fargs[0]) is not None:
        hi = fargs[1]
        if isinstance(hi, ast.BinOp) and isinstance(hi.op, ast.Add) and _const(hi.right) == 1 and fp_param and fp_param in norm(hi.left):
            ok_fix = True
        elif fp_param and fp_param in norm(hi):
            r.fail("C13.loops", fix.key + ":phase-upper-bound", "fix iterates %s: --fix_phase N must include phase N and nothing above (expected int(%s) + 1)" % (norm(fph.iter), fp_param), fix.loc(fph))
            ok_fix = None
    if ok_fix:
        r.ok("C13.loops", fix.key + ":phase-upper-bound", norm(fph.iter))
        if cp and _const(fargs[0]) != cp[0]:
            r.fail("C13.loops", "phase-lower-bound-agreement", "fix starts at phase %s, check_rules at %s" % (_const(fargs[0]), cp[0]), fix.loc(fph))
    elif ok_fix is False:
        r.fail("C13.loops", fix.key + ":phase-upper-bound", "fix's phase loop %s is not bounded by the fix-phase parameter" % norm(fph.iter), fix.loc(fph))

    # ----- skip test first
    for fi, ph in ((check, cph), (fix, fph)):
        sk_param = [q for q in fi.params if "skip" in q.lower()]
        if not sk_param:
            r.fail("C13.loops", fi.key + ":skip-param", "no skip-phase parameter", fi.loc())
            continue
        sk = sk_param[0]
        first = ph.body[0]
        want = "%s in %s" % (ph.target.id, sk)
        if isinstance(first, ast.If) and norm(first.test) == want and isinstance(first.body[-1], ast.Continue) and not first.orelse:
            bad = [c for s in first.body for c in ast.walk(s) if isinstance(c, ast.Call) and ("oRule" in norm(c) or "get_rules" in norm(c))]
            if bad:
                r.fail("C13.loops", fi.key + ":skip-branch-touches-rules", "the skipped-phase branch still runs rules: %s" % norm(bad[0]), fi.loc(bad[0]))
            else:
                r.ok("C13.loops", fi.key + ":skip-first", "`if %s: ... continue` is the first statement of the phase loop" % want)
        else:
            r.fail("C13.loops", fi.key + ":skip-first", "the phase loop does not start with `if %s: continue`: a skipped phase could be analysed or fixed" % want, fi.loc(first))

    # ----- pipeline + rule calls only inside the loops
    for fi, ph, sb in ((check, cph, csb), (fix, fph, fsb)):
        facts = Facts(fi.node)
        rule_calls = []
        for n in walk_function(fi.node):
            if isinstance(n, ast.Call) and isinstance(n.func, ast.Attribute) and n.func.attr in ("fix", "analyze") and isinstance(n.func.value, ast.Name) and n.func.value.id.startswith("oRule"):
                rule_calls.append(n)
        if not rule_calls:
            raise AnalysisError("%s: no oRule.fix/analyze call found" % fi.key)
        for c in rule_calls:
            kk = "%s:%s" % (fi.key, norm(c))
            pars = _parents(c, fi.node)
            if sb not in pars or ph not in pars:
                r.fail("C13.loops", kk + ":outside-loops", "%s is called outside the phase/sub-phase loops" % norm(c), fi.loc(c))
                continue
            f = facts.facts_at(c)
            missing = [x for x in ("self.get_rules_in_phase", "self.get_rules_in_subphase", "filter_out_disabled_rules") if ("call", x) not in f]
            if missing:
                r.fail("C13.loops", kk + ":pipeline", "%s is not dominated by %s" % (norm(c), ", ".join(missing)), fi.loc(c))
            else:
                r.ok("C13.loops", kk + ":pipeline", "in-phase -> in-subphase -> not-disabled dominate the call")
        # selector arguments use the loop variables; chain through one variable
        for n in walk_function(fi.node):
            if isinstance(n, ast.Call) and callee_text(n) == "self.get_rules_in_phase":
                if not n.args or norm(n.args[0]) != ph.target.id:
                    r.fail("C13.loops", fi.key + ":in-phase-arg", "get_rules_in_phase(%s) does not use the phase loop variable" % (norm(n.args[0]) if n.args else ""), fi.loc(n))
            if isinstance(n, ast.Call) and callee_text(n) == "self.get_rules_in_subphase":
                if len(n.args) < 2 or norm(n.args[1]) != sb.target.id:
                    r.fail("C13.loops", fi.key + ":in-subphase-arg", "get_rules_in_subphase(..., %s) does not use the sub-phase loop variable" % (norm(n.args[1]) if len(n.args) > 1 else ""), fi.loc(n))
        # the for loop over rules iterates the variable produced by the pipeline
        for n in walk_function(fi.node):
            if isinstance(n, ast.For) and isinstance(n.target, ast.Name) and n.target.id.startswith("oRule") and sb in _parents(n, fi.node):
                itv = norm(n.iter)
                # last assignment to itv before the loop in the same block must be one of the pipeline stages
                blk = getattr(n, "_parent").body if hasattr(getattr(n, "_parent"), "body") else []
                stages = []
                for s in blk:
                    if s is n:
                        break
                    if isinstance(s, ast.Assign) and norm(s.targets[0]) == itv and isinstance(s.value, ast.Call):
                        stages.append(callee_text(s.value))
                        # each stage after the first must take the variable itself
                        if len(stages) > 1 and not any(norm(a) == itv for a in s.value.args):
                            r.fail("C13.loops", fi.key + ":pipeline-chain", "pipeline stage %s does not consume the previous stage's list" % norm(s.value), fi.loc(s))
                need = ["self.get_rules_in_phase", "self.get_rules_in_subphase", "filter_out_disabled_rules"]
                if [s for s in stages if s in need] != need:
                    r.fail("C13.loops", fi.key + ":pipeline-chain", "the rule loop iterates %s built by %s (expected in-phase, in-subphase, not-disabled in that order)" % (itv, stages), fi.loc(n))
                else:
                    r.ok("C13.loops", fi.key + ":pipeline-chain", " -> ".join(stages))

    _selectors(r, p)
    _snapshots(r, p, cg)
    _gate(r, p, check, cph, csb)
    _table(r, rt, cp, ca)
    _forwarding(r, p, cg, check, fix_orig)
    # a phase assigned by configuration is the phase the selectors see: the configuration readers store it as given
    from . import c12 as _c12

    scratch12 = Result("C12")
    scratch12.load_table("c12.json")
    _c12._siblings(scratch12, p)
    hit = [f for f in scratch12.findings if f.key.endswith(":stores-value")]
    for f in hit:
        r.fail("C13.table", "configured-phase:" + f.key, "a configured `phase` may not reach get_rules_in_phase: " + f.message, f.loc)
    if not hit:
        r.ok("C13.table", "configured-phase", "configuration readers store every configured attribute (phase included) as given, so the phase loops select by the configured phase")
    return r


def _selectors(r, p):
    specs = [
        ("vsg.rule_list:rule_list.get_rules_in_phase", "phase", "eq"),
        ("vsg.rule_list:rule_list.get_rules_in_subphase", "subphase", "eq"),
        ("vsg.rule_list:filter_out_disabled_rules", "disable", "not"),
    ]
    for key, attr, kind in specs:
        fi = p.function(key)
        appends = [n for n in walk_function(fi.node) if isinstance(n, ast.Call) and isinstance(n.func, ast.Attribute) and n.func.attr == "append"]
        rets = [n for n in walk_function(fi.node) if isinstance(n, ast.Return)]
        if len(appends) != 1 or len(rets) != 1:
            # unrecognised shape: the one thing a selector cannot do without is look at the rule's CURRENT attribute
            reads = _reads_attr_transitively(p, fi, attr)
            if not reads:
                r.fail(
                    "C13.selectors",
                    key + ":no-current-" + attr,
                    "the selector never reads a rule's `%s` when it is called: it selects from state computed earlier "
                    "(before configuration can re-assign %s), so configured values are ignored by scheduling" % (attr, attr),
                    fi.loc(),
                )
            else:
                r.unknown("C13.selectors", key, "unrecognised selector shape")
            continue
        a = appends[0]
        ifs = [x for x in _parents(a, fi.node) if isinstance(x, ast.If)]
        fors = [x for x in _parents(a, fi.node) if isinstance(x, ast.For)]
        if len(ifs) != 1 or len(fors) != 1 or not isinstance(fors[0].target, ast.Name) or norm(a.args[0]) != fors[0].target.id:
            r.unknown("C13.selectors", key, "unrecognised selector shape")
            continue
        t = ifs[0].test
        v = fors[0].target.id
        param = fi.params[-1]
        in_body = any(a is x for s in ifs[0].body for x in ast.walk(s))
        good = False
        if kind == "eq" and isinstance(t, ast.Compare) and len(t.ops) == 1 and isinstance(t.ops[0], ast.Eq) and in_body:
            sides = {norm(t.left), norm(t.comparators[0])}
            good = sides == {"%s.%s" % (v, attr), param}
        if kind == "not" and in_body:
            good = norm(t) == "not %s.%s" % (v, attr)
        if good:
            r.ok("C13.selectors", key, "keeps rules with `%s`" % norm(t))
        else:
            r.fail("C13.selectors", key, "selector keeps rules under `%s` (expected exact %s test on %s.%s)" % (norm(t), "equality" if kind == "eq" else "negation", v, attr), fi.loc(ifs[0]))


def _reads_attr_transitively(p, fi, attr, depth=3, seen=None):
    """Does fi (or a function it calls, resolved by name in the same module/class) read `<x>.attr`?"""
    seen = seen if seen is not None else set()
    if fi.key in seen or depth < 0:
        return False
    seen.add(fi.key)
    for n in walk_function(fi.node):
        if isinstance(n, ast.Attribute) and n.attr == attr and isinstance(n.ctx, ast.Load) and not (isinstance(n.value, ast.Name) and n.value.id == "self"):
            return True
    for n in walk_function(fi.node):
        if isinstance(n, ast.Call):
            tgt = None
            if isinstance(n.func, ast.Name):
                ent = p.resolve_name(fi.module, n.func.id)
                if ent and ent[0] == "func":
                    tgt = ent[1]
            elif isinstance(n.func, ast.Attribute) and isinstance(n.func.value, ast.Name) and n.func.value.id == "self" and fi.cls is not None:
                tgt = fi.cls.find_method(n.func.attr)
            if tgt is not None and _reads_attr_transitively(p, tgt, attr, depth - 1, seen):
                return True
    return False


def _snapshots(r, p, cg):
    """Configurable rule attributes read while the rule list is being constructed are snapshots taken
    before configure() runs."""
    init = p.function("vsg.rule_list:rule_list.__init__")
    reach = cg.reachable([init], skip_indirect=True)
    attrs = ("phase", "subphase", "disable", "fixable", "severity")
    for k in sorted(reach):
        fi = p.functions[k]
        if not fi.module.name.startswith("vsg.rule_list"):
            continue
        for n in walk_function(fi.node):
            if isinstance(n, ast.Attribute) and n.attr in attrs and isinstance(n.ctx, ast.Load) and isinstance(n.value, ast.Name) and n.value.id.startswith("oRule"):
                kk = "%s:reads:%s.%s" % (fi.key, n.value.id, n.attr)
                r.fail(
                    "C13.selectors",
                    kk,
                    "`%s.%s` is read while the rule list is constructed, i.e. before configuration is applied: anything derived from it is stale "
                    "once the user re-assigns %s" % (n.value.id, n.attr, n.attr),
                    fi.loc(n),
                    path=[x[0] for x in cg.path(reach, k)],
                )


def _gate(r, p, check, ph, sb):
    K = check.key
    fn = check.node
    facts = Facts(fn)
    ap = [q for q in check.params if "all" in q.lower()]
    if not ap:
        r.fail("C13.gate", K + ":param", "check_rules lost its all-phases parameter", check.loc())
        return
    ap = ap[0]
    uses = [n for n in walk_function(fn) if isinstance(n, ast.Name) and n.id == ap and isinstance(n.ctx, ast.Load)]
    breaks = [n for n in walk_function(fn) if isinstance(n, ast.Break)]
    if len(breaks) != 1:
        r.fail("C13.gate", K + ":break-count", "expected exactly one gating break in check_rules, found %d" % len(breaks), check.loc())
        return
    b = breaks[0]
    pars = _parents(b, fn)
    loops = [x for x in pars if isinstance(x, (ast.For, ast.While))]
    if not loops or loops[0] is not ph:
        r.fail("C13.gate", K + ":break-level", "the gating break leaves the %s loop, not the phase loop: phases would be cut mid-way or never" % (norm(loops[0].target) if loops else "?"), check.loc(b))
    else:
        r.ok("C13.gate", K + ":break-level", "break belongs to the phase loop")
    # after the subphase loop: the statement containing the break comes after sb in ph.body
    top = b
    while getattr(top, "_parent", None) is not ph:
        top = top._parent
    if sb in ph.body and top in ph.body and ph.body.index(top) > ph.body.index(sb):
        r.ok("C13.gate", K + ":break-after-subphases", "the whole phase is analysed before gating")
    else:
        r.fail("C13.gate", K + ":break-after-subphases", "the gating break is not placed after the sub-phase loop of the phase", check.loc(b))
    conds = dict(facts.conds_at(b))
    if conds.get("self.violations") is True:
        r.ok("C13.gate", K + ":break-needs-violations")
    else:
        r.fail("C13.gate", K + ":break-needs-violations", "the gating break is not conditional on self.violations", check.loc(b))
    if conds.get("not " + ap) is True or conds.get(ap) is False:
        r.ok("C13.gate", K + ":break-needs-not-all-phases")
    else:
        r.fail("C13.gate", K + ":break-needs-not-all-phases", "the gating break is not conditional on `not %s`" % ap, check.loc(b))
    for u in uses:
        inside = [x for x in _parents(u, fn) if isinstance(x, ast.If)]
        if not inside or not any(b in list(ast.walk(i)) for i in inside):
            r.fail("C13.gate", K + ":all-phases-other-use", "%s influences something other than the gating break" % ap, check.loc(u))
    # self.violations writers in check_rules
    for n in walk_function(fn):
        if isinstance(n, ast.Assign) and any(norm(t) == "self.violations" for t in n.targets):
            if isinstance(n.value, ast.Constant) and n.value.value is False:
                if facts.in_loop(n):
                    r.fail("C13.gate", K + ":violations-reset-in-loop", "self.violations is reset inside the loops", check.loc(n))
                else:
                    r.ok("C13.gate", K + ":violations-reset", "reset before the loops", nontrivial=False)
            elif isinstance(n.value, ast.Constant) and n.value.value is True:
                c = dict(facts.conds_at(n))
                pos = [k for k, v in c.items() if v and k.replace(" ", "") in ("iFailures>0", "iFailures!=0", "iFailures")]
                if pos:
                    r.ok("C13.gate", K + ":violations-from-failures", "set under `%s`" % pos[0])
                else:
                    r.fail("C13.gate", K + ":violations-from-failures", "self.violations set True without a positive error-type failure count", check.loc(n))
            else:
                # a computed value: fine only if it cannot clear the flag after an earlier failing phase
                vt = norm(n.value).replace(" ", "")
                counters = [x.id for x in ast.walk(n.value) if isinstance(x, ast.Name)]
                resets = [
                    a
                    for a in walk_function(fn)
                    if isinstance(a, ast.Assign) and any(isinstance(t, ast.Name) and t.id in counters for t in a.targets) and facts.in_loop(a)
                ]
                sticky = vt.startswith("self.violationsor") or vt.endswith("orself.violations")
                if facts.in_loop(n) and not sticky and (resets or not counters):
                    r.fail(
                        "C13.gate",
                        K + ":violations-not-sticky",
                        "inside the phase loop self.violations is assigned `%s`%s: a later clean phase clears the flag set by an earlier failing phase "
                        "(with --all_phases the exit status then reflects only the last phase analysed)"
                        % (norm(n.value), " and %s is reset per iteration" % resets[0].targets[0].id if resets else ""),
                        check.loc(n),
                    )
                elif vt in ("iFailures>0", "iFailures!=0", "bool(iFailures)") and not resets:
                    r.ok("C13.gate", K + ":violations-from-failures", "flag = cumulative error-type failure count > 0")
                else:
                    r.unknown("C13.gate", K + ":violations-writer:" + norm(n))
    # the counter itself must be cumulative over the phases when it feeds a sticky test
    for a in walk_function(fn):
        if isinstance(a, ast.Assign) and any(isinstance(t, ast.Name) and t.id == "iFailures" for t in a.targets) and facts.in_loop(a):
            r.note("iFailures is reset inside the loops (per-phase count); stickiness of self.violations is what matters")
    # iFailures increments under error-type
    incs = [n for n in walk_function(fn) if isinstance(n, ast.AugAssign) and norm(n.target) == "iFailures"]
    if not incs:
        r.unknown("C13.gate", K + ":failure-count", "no iFailures counter")
    for n in incs:
        c = dict(facts.conds_at(n))
        if any(v and "severity.type" in k and "error_type" in k and "==" in k for k, v in c.items()):
            if "len(" in norm(n.value) and ".violations" in norm(n.value):
                r.ok("C13.gate", K + ":failure-count", "counts len(oRule.violations) of error-type rules only")
            else:
                r.unknown("C13.gate", K + ":failure-count", norm(n))
        else:
            r.fail("C13.gate", K + ":failure-count", "failures counted for rules that are not error-type: warnings would stop the phase gate", check.loc(n))


def _table(r, rt, cp, ca):
    if cp is None or None in ca:
        return
    lo, hi = cp
    slo, shi = (0, ca[0]) if len(ca) == 1 else (ca[0], ca[1])
    bad = 0
    n = 0
    for e in rt.live():
        n += 1
        if e.phase is UNKNOWN or e.subphase is UNKNOWN:
            r.unknown("C13.table", str(e.unique_id), "phase/subphase not statically known")
            continue
        if not (isinstance(e.phase, int) and lo <= e.phase < hi):
            bad += 1
            r.fail("C13.table", "%s:phase" % e.unique_id, "live rule has phase %r outside range(%d, %d): it never runs" % (e.phase, lo, hi), e.ci.module.path)
        if not (isinstance(e.subphase, int) and slo <= e.subphase < shi):
            bad += 1
            r.fail("C13.table", "%s:subphase" % e.unique_id, "live rule has subphase %r outside range(%d, %d): it never runs" % (e.subphase, slo, shi), e.ci.module.path)
    if not bad:
        r.ok("C13.table", "all-live-rules", "%d live rules, phases within range(%d,%d), subphases within range(%d,%d)" % (n, lo, hi, slo, shi))
    r.extra["live_rules"] = n


def _forwarding(r, p, cg, check, fix):
    ar = p.function("vsg.apply_rules:apply_rules")
    cla = ar.params[0]
    # the report is made from what the final, gated check left on the rule objects: whatever the fix pass left there
    # (it analyses warning rules of every phase up to fix_phase without fixing them) must be discarded first, or rules
    # beyond the gate contribute violations and the gated report is no longer a prefix of the all-phases report
    from ..flow import Facts as _Facts

    fa = _Facts(ar.node)
    chk_calls = [n for n in walk_function(ar.node) if isinstance(n, ast.Call) and isinstance(n.func, ast.Attribute) and n.func.attr == "check_rules"]
    fix_calls = [n for n in walk_function(ar.node) if isinstance(n, ast.Call) and isinstance(n.func, ast.Attribute) and n.func.attr == "fix"]
    for c in chk_calls:
        recv = norm(c.func.value)
        kk = "%s:clear-before-check" % ar.key
        if fix_calls and ("call", "%s.clear_violations" % recv) not in fa.facts_at(c):
            r.fail("C13.forwarding", kk, "%s.check_rules is not preceded on every path by %s.clear_violations(): violations left by the fix pass on rules of later phases survive the gate and appear in the report" % (recv, recv), ar.loc(c))
        else:
            r.ok("C13.forwarding", kk, "violations left by the fix pass are discarded before the gated check")
    for s in cg.sites[ar.key]:
        if s.kind != "resolved":
            continue
        if fix in s.targets and isinstance(s.node.func, ast.Attribute) and s.node.func.attr == "fix":
            bound = _bind_args(fix, s.node)
            for param, attr in ((fix.params[1], "fix_phase"), (fix.params[2], "skip_phase")):
                got = bound.get(param)
                kk = "%s:fix:%s" % (ar.key, param)
                if got is not None and norm(got) == "%s.%s" % (cla, attr):
                    r.ok("C13.forwarding", kk, norm(got))
                else:
                    r.fail("C13.forwarding", kk, "rule_list.fix receives %s for %s (expected %s.%s)" % (norm(got) if got is not None else "nothing", param, cla, attr), ar.loc(s.node))
        if check in s.targets and isinstance(s.node.func, ast.Attribute) and s.node.func.attr == "check_rules":
            bound = _bind_args(check, s.node)
            for param, attr in ((check.params[1], "all_phases"), (check.params[2], "skip_phase")):
                got = bound.get(param)
                kk = "%s:check_rules:%s" % (ar.key, param)
                if got is not None and norm(got) == "%s.%s" % (cla, attr):
                    r.ok("C13.forwarding", kk, norm(got))
                else:
                    r.fail("C13.forwarding", kk, "check_rules receives %s for %s (expected %s.%s)" % (norm(got) if got is not None else "nothing", param, cla, attr), ar.loc(s.node))
    # writers of .skip_phase / .fix_phase / .all_phases
    for fi in p.functions.values():
        for n in walk_function(fi.node):
            if isinstance(n, (ast.Assign, ast.AugAssign)):
                ts = n.targets if isinstance(n, ast.Assign) else [n.target]
                for t in ts:
                    if isinstance(t, ast.Attribute) and t.attr in ("skip_phase", "fix_phase", "all_phases"):
                        kk = "%s:writes:%s" % (fi.key, t.attr)
                        if fi.name == "__init__" and isinstance(t.value, ast.Name) and t.value.id == "self":
                            continue  # construction of an arguments object, not a write onto the shared one
                        if fi.key == "vsg.config:update_command_line_arguments" and t.attr == "skip_phase":
                            why = _not_verbatim(p, fi, n.value, "skip_phase")
                            if why is None:
                                r.ok("C13.forwarding", kk + ":" + norm(n.value), "configuration skip_phase -> command line object, verbatim (or the empty default)")
                            else:
                                r.fail("C13.forwarding", kk + ":verbatim", "the configured skip_phase list does not reach the phase loops as written: %s - a configured phase can be dropped or added, so phases the user skipped still run (or the reverse)" % why, fi.loc(n))
                        else:
                            r.fail("C13.forwarding", kk, "unexpected writer of %s" % t.attr, fi.loc(n))


def _not_verbatim(p, fi, e, key, depth=0, env=None):
    """None when e is the configuration's `key` entry itself (through a copy, .get with an empty default, `or []`), or an
    empty list / None default; otherwise a description of what is done to it."""
    env = env or {}
    if isinstance(e, ast.Constant) and e.value is None:
        return None
    if isinstance(e, (ast.List, ast.Tuple)) and not e.elts:
        return None
    if isinstance(e, ast.Subscript) and isinstance(e.slice, ast.Constant) and e.slice.value == key:
        return None
    if isinstance(e, ast.Call) and isinstance(e.func, ast.Attribute) and e.func.attr == "get" and e.args and isinstance(e.args[0], ast.Constant) and e.args[0].value == key:
        if len(e.args) == 1 or _not_verbatim(p, fi, e.args[1], key, depth, env) is None:
            return None
    if isinstance(e, ast.BoolOp) and isinstance(e.op, ast.Or):
        bad = [_not_verbatim(p, fi, v, key, depth, env) for v in e.values]
        return next((b for b in bad if b), None)
    if isinstance(e, ast.IfExp):
        return _not_verbatim(p, fi, e.body, key, depth, env) or _not_verbatim(p, fi, e.orelse, key, depth, env)
    if isinstance(e, ast.Call) and isinstance(e.func, ast.Name) and e.func.id in ("list", "tuple") and len(e.args) == 1:
        return _not_verbatim(p, fi, e.args[0], key, depth, env)
    if isinstance(e, ast.Name):
        vals = [a.value for a in walk_function(fi.node) if isinstance(a, ast.Assign) and len(a.targets) == 1 and norm(a.targets[0]) == e.id]
        muts = [c for c in walk_function(fi.node) if isinstance(c, ast.Call) and isinstance(c.func, ast.Attribute) and norm(c.func.value) == e.id and c.func.attr in ("append", "remove", "pop", "extend", "insert", "clear", "sort")]
        if vals and not muts and depth < 4:
            bad = [_not_verbatim(p, fi, v, key, depth + 1, env) for v in vals]
            return next((b for b in bad if b), None)
        if muts:
            return "`%s` is built element by element in %s (`%s`)" % (e.id, fi.name, norm(muts[0])[:40])
    if isinstance(e, ast.Call) and isinstance(e.func, (ast.Name, ast.Attribute)) and depth < 3:
        ent = p.resolve_expr(fi.module, e.func)
        if ent and ent[0] == "func":
            g = ent[1]
            rets = [x.value for x in walk_function(g.node) if isinstance(x, ast.Return)]
            if rets:
                bad = [_not_verbatim(p, g, v, key, depth + 1, env) for v in rets]
                return next((b for b in bad if b), None)
    return "`%s` is not the configuration's %s entry" % (norm(e)[:50], key)


def _bind_args(fi, call):
    params = fi.params[1:] if fi.params and fi.params[0] == "self" else fi.params
    out = {}
    for i, a in enumerate(call.args):
        if i < len(params):
            out[params[i]] = a
    for k in call.keywords:
        if k.arg:
            out[k.arg] = k.value
    return out


_RL = "vsg/rule_list.py"
VARIANTS = [
    Variant("C13", "twin: check_rules iterates the non-skipped phases through a comprehension", "silent",
            [("vsg/rule_list.py", "        for phase in range(1, 8):\n            if phase in lSkipPhase:\n                continue\n\n            for subphase in range(0, 6):\n                lRules = self.get_rules_in_phase(phase)", "        for phase in [iPhase for iPhase in range(1, 8) if iPhase not in lSkipPhase]:\n            for subphase in range(0, 6):\n                lRules = self.get_rules_in_phase(phase)")]),
    Variant("C13", "fix-phase bound applied by position to the list of non-skipped phases", "fire",
            [("vsg/rule_list.py", "        for phase in range(1, int(iFixPhase) + 1):\n            if phase in lSkipPhase:\n                if phase == 1:\n                    self.oVhdlFile.set_token_indent()\n                continue\n", "        lPhases = [phase for phase in range(1, 8) if phase not in lSkipPhase]\n        if 1 in lSkipPhase:\n            self.oVhdlFile.set_token_indent()\n        for phase in lPhases[: int(iFixPhase)]:\n")],
            rule="C13.loops", key="phase-domain"),
    Variant("C13", "configured skip_phase filtered to phases 1..6 on its way to the phase loops", "fire",
            [("vsg/config.py", "        commandLineArguments.skip_phase = configuration[\"skip_phase\"]", "        commandLineArguments.skip_phase = [iPhase for iPhase in configuration[\"skip_phase\"] if iPhase in range(1, 7)]")],
            rule="C13.forwarding", key="verbatim"),
    Variant("C13", "twin: configured skip_phase read with .get and an empty default", "silent",
            [("vsg/config.py", "    if \"skip_phase\" in configuration:\n        commandLineArguments.skip_phase = configuration[\"skip_phase\"]\n    else:\n        commandLineArguments.skip_phase = []", "    commandLineArguments.skip_phase = configuration.get(\"skip_phase\", [])")]),
    Variant("C13", "violations of the fix pass are not discarded before the gated check", "fire",
            [("vsg/apply_rules.py", "    oRules.clear_violations()\n    oRules.check_rules(", "    oRules.check_rules("),
             ("vsg/rule.py", "        lToi = self._get_tokens_of_interest(oFile)\n        self._analyze(lToi)", "        self.clear_violations()\n        lToi = self._get_tokens_of_interest(oFile)\n        self._analyze(lToi)")], rule="C13.forwarding", key="clear-before-check"),
    Variant("C13", "fix_phase upper bound off by one", "fire",
            [(_RL, "for phase in range(1, int(iFixPhase) + 1):", "for phase in range(1, int(iFixPhase)):")], rule="C13.loops", key="phase-upper-bound"),
    Variant("C13", "check sub-phase range shrinks", "fire",
            [(_RL, "                continue\n\n            for subphase in range(0, 6):\n                lRules = self.get_rules_in_phase(phase)\n                lRules = self.get_rules_in_subphase(lRules, subphase)\n                lRules = filter_out_disabled_rules(lRules)\n\n",
              "                continue\n\n            for subphase in range(0, 5):\n                lRules = self.get_rules_in_phase(phase)\n                lRules = self.get_rules_in_subphase(lRules, subphase)\n                lRules = filter_out_disabled_rules(lRules)\n\n")],
            rule="C13.loops", key="subphase-range-agreement"),
    Variant("C13", "gating break moved into sub-phase loop", "fire",
            [(_RL, "                if iFailures > 0:\n                    self.violations = True\n            if self.violations:\n                if not bAllPhases:\n                    break",
              "                if iFailures > 0:\n                    self.violations = True\n                if self.violations:\n                    if not bAllPhases:\n                        break")],
            rule="C13.gate", key="break-level"),
    Variant("C13", "warnings counted as failures", "fire",
            [(_RL, "                    if oRule.severity.type == severity.error_type:\n                        iFailures += len(oRule.violations)", "                    iFailures += len(oRule.violations)")],
            rule="C13.gate", key="failure-count"),
    Variant("C13", "skip test after selection in fix", "fire",
            [(_RL, "            if phase in lSkipPhase:\n                if phase == 1:\n                    self.oVhdlFile.set_token_indent()\n                continue\n\n            # Update indents",
              "            # Update indents")], rule="C13.loops", key="skip-first"),
    Variant("C13", "disabled filter dropped in fix", "fire",
            [(_RL, "                lRules = filter_out_disabled_rules(lRules)\n                lRules = enforce_prerequisites(lRules)", "                lRules = enforce_prerequisites(lRules)")],
            rule="C13.loops", key="pipeline"),
    Variant("C13", "phase selector uses <=", "fire",
            [(_RL, "            if oRule.phase == iPhaseNumber:", "            if oRule.phase <= iPhaseNumber:")], rule="C13.selectors"),
    Variant("C13", "check ignores skip_phase from CLI", "fire",
            [("vsg/apply_rules.py", "        lSkipPhase=commandLineArguments.skip_phase,\n", "        lSkipPhase=None,\n")], rule="C13.forwarding"),
    Variant("C13", "a rule gets subphase 6", "fire",
            [("vsg/rules/whitespace/rule_001.py", "        self.subphase = 0\n", "        self.subphase = 6\n")], rule="C13.table"),
    Variant("C13", "twin: rename loop-local list", "silent",
            [(_RL, "            for subphase in range(0, 6):\n                lRules = self.get_rules_in_phase(phase)\n                lRules = self.get_rules_in_subphase(lRules, subphase)\n                lRules = filter_out_disabled_rules(lRules)\n\n                for oRule in lRules:\n                    oRule.analyze(self.oVhdlFile)",
              "            for subphase in range(0, 6):\n                lSel = self.get_rules_in_phase(phase)\n                lSel = self.get_rules_in_subphase(lSel, subphase)\n                lSel = filter_out_disabled_rules(lSel)\n\n                for oRule in lSel:\n                    oRule.analyze(self.oVhdlFile)")]),
]
