# -*- coding: utf-8 -*-
"""
C01 - fixing never changes what the VHDL means (structural clauses).

  C01.construct      who may create a code token.  Every construction of a non-layout token class that
                     can reach the file through a fix - direct constructor calls reachable from a
                     _fix_violation, token instances built by rule constructors, and classes held in
                     rule attributes that a fix calls (self.insert_token(value)) - is attributed to the
                     rules that can reach it.  It must belong to a rule of class `structure` (or be
                     unfixable/disabled by default) AND be one of the documented redundant elements,
                     recognised structurally: a keyword class whose single classifier literal is `is`,
                     an `end_*`/`component` keyword, with exactly that literal as text; an `end ...`
                     name/label class whose text is copied from a token of the same region
                     (get_token_value()); the balanced parenthesis pair of if_002.  Token duplication
                     (copy.deepcopy) is allowed only in the two declaration-splitting fixes.
                     Everything else is tabled with a reason or is a violation.
  C01.wholesale      who may replace a whole region.  Every set_tokens(<list that is not derived from the whole
                     region>) reachable from a fix - set_tokens([]), [lTokens[0]], [first, ws, last] - deletes
                     whatever the region holds except the re-listed elements.  Each such site, *together with the
                     conditions that dominate it*, must be tabled with the reason why the deleted elements are
                     layout or the item the rule is documented to remove; a new site, or a tabled site whose
                     guard changed, is a violation until it has been looked at.
  C01.literal-guard  case rules never reach a checker for a string/character literal or an extended
                     identifier.
  C01.splice         only vhdlFile's own methods write the token list; update() applies updates last
                     first, with the same update's start/end, dropping only synthetic beginning-of-file
                     tokens; tokens.New derives its end from its start and its own list.
  C01.late-phases    fixes of capitalisation rules perform no structural edit and construct nothing;
                     naming/length rules are report-only.
Does not decide: that a phase-1 move/remove rule keeps every code token of the region it rewrites (a
run-time selection), nor that deletions in phases 2-5 hit only whitespace.
"""

import ast
import re

from ..classifier import ClassifierTable
from ..fixeffects import FixEffects
from ..model import AnalysisError, norm, walk_function
from ..report import Result
from ..ruletable import UNKNOWN, ClassRef, Instance, strip
from ..selftest import Variant
from ..summaries import Summaries

LEVEL = "other"
META = {
    "technique": "static analysis: closed-world who-may-construct over token classes (constructor calls reachable from fixes in the may-call graph, token instances and class references in the abstractly interpreted rule constructors), recognition of the documented redundant elements through the classifier's literal table, splice-discipline shape checks, literal-guard predicate evaluation; receiver-class dominance for every write of a blank value (must-guard on the same token expression)",
    "level_text": "Decides for all inputs which code tokens a fix can ever create, and that each is one of the documented redundant elements with exactly the text the parser "
    "would accept for that class; that literals are never re-cased; that only the splice primitive writes the token list and does so with consistent "
    "bounds; that late phases are structurally inert. Whether a structural rule's rewrite of its region keeps every existing code token is a run-time "
    "selection and is not decided.",
    "level_note": "Trusted base: CPython ast, static rule table, classifier literal table, over-approximating call graph. Rules loaded with --local_rules are outside the analysed program.",
}

LAYOUT = {"vsg.parser:whitespace", "vsg.parser:carriage_return", "vsg.parser:blank_line"}
REDUNDANT_KEYWORD = re.compile(r"^(is_keyword|component_keyword|end_keyword|end_\w+_keyword)$")
END_NAME = re.compile(r"(simple_name|_label|end_\w*label|designator|_name)$")


def _token_instances(v):
    v = strip(v)
    if isinstance(v, Instance):
        yield v
    elif isinstance(v, (list, tuple)):
        for x in v:
            yield from _token_instances(x)


def run(ctx):
    p = ctx.program
    cg = ctx.callgraph()
    rt = ctx.ruletable
    r = Result("C01")
    r.load_table("c01.json")
    r.rule("C01.construct", "code tokens are created only by structure rules, and only as documented redundant elements with the parser's own literal")
    r.rule("C01.wholesale", "whole-region replacements are enumerated with their guards and each is shown to delete only layout or the documented item")
    r.rule("C01.wsvalue", "a whitespace value is written only into a token shown to be whitespace (class test on the same token, a freshly created whitespace token, or a tabled position whose analysis side was read)")
    r.rule("C01.literal-guard", "case rules skip string/character literals and extended identifiers")
    r.rule("C01.splice", "single writer of the token list; consistent splice bounds and order")
    r.rule("C01.late-phases", "capitalisation fixes are structurally inert; naming/length report-only")
    r.explanation = (
        "All sites that can put a new code token into the file are enumerated from three sources (constructor calls reachable from fixes, token "
        "instances created by rule constructors, token classes stored in rule attributes and called by a fix) and each is attributed to the rules that "
        "can reach it through the static rule table; the classifier's literal table says which text the parser accepts for each keyword class."
    )
    item = p.cls("vsg.parser:item")
    summ = Summaries(p, cg)
    fx = FixEffects(ctx, summ)
    ct = ClassifierTable(p)

    # ---- whole-region replacements
    from .c02 import moved_entry, wholesale_sites

    fix_roots = [m for ci in p.classes.values() for name, m in ci.methods.items() if name == "_fix_violation" and ci.key != "vsg.rule:Rule"]
    n_whole = 0
    wsites = wholesale_sites(p, cg.reachable(fix_roots))
    wkeys = {k for _, _, k, _ in wsites}
    for fi, n, kk, guards in wsites:
        n_whole += 1
        ent = r.tabled("C01.wholesale", kk) or moved_entry(r, "C01.wholesale", kk, wkeys, p)
        if ent:
            r.ok("C01.wholesale", kk, ent.get("reason", "")[:110])
        else:
            r.fail("C01.wholesale", kk, "%s replaces its whole region by `%s`: everything else in the region is deleted, and this site with these guards has not been shown to delete only layout or the item the rule is documented to remove" % (fi.key, norm(n.args[0])[:40]), fi.loc(n))
    r.extra["wholesale_replacement_sites"] = n_whole
    from .c03 import _layout_predicate

    _layout_predicate(r, p, "C01.wholesale")  # several table reasons above rest on it
    _bound_extensions(r, p)
    _wsvalue(r, p, fx, cg.reachable(fix_roots))
    if n_whole < 15:
        raise AnalysisError("only %d whole-region replacement sites found" % n_whole)

    n_sites = 0
    # ---- per rule
    by_provider = {}
    for e in rt.live():
        f = e.ci.find_method("_fix_violation")
        by_provider.setdefault(f.key, []).append(e)
    for key, es in sorted(by_provider.items()):
        if key == "vsg.rule:Rule._fix_violation":
            continue
        prov = p.functions[key]
        effs = fx.effects_of(prov)
        code = [x for x in effs if x.kind == "CONSTRUCT" and x.detail not in LAYOUT]
        attrc = [x for x in effs if x.kind == "CONSTRUCT-ATTR"]
        copies = [x for x in effs if x.kind == "COPY"]
        for e in es:
            tg = [g for g in (e.groups or []) if "::" not in g]
            active = e.fixable is not False
            default_off = e.disable is True or e.fixable is False
            # (1) direct constructions
            for x in code:
                n_sites += 1
                kk = "%s:%s@%s" % (e.unique_id, x.detail, x.fi.key)
                if not active:
                    continue
                if "structure" not in tg and not (tg and tg[0] in ("whitespace",) and x.detail == "vsg.parser:comment"):
                    r.fail("C01.construct", kk, "rule %s (class %s, phase %s) can create the code token %s in its fix: only structural rules may invent code" % (e.unique_id, tg, e.phase, x.detail), x.fi.loc(x.node), path=x.path[-5:])
                    continue
                if _paren_pair(code, x):
                    r.ok("C01.construct", kk, "one balanced pair of parentheses (open and close constructed together)")
                    continue
                if default_off:
                    r.ok("C01.construct", kk, "rule is disabled/unfixable by default (opt-in rewrite)", sample=False)
                    continue
                if r.tabled("C01.construct", kk):
                    r.ok("C01.construct", kk, "tabled", sample=False)
                    continue
                r.fail("C01.construct", kk, "fix of %s can create code token %s, which is not one of the documented redundant elements" % (e.unique_id, x.detail), x.fi.loc(x.node), path=x.path[-5:])
            # (2) classes held in attributes and called by the fix
            for x in attrc:
                v = strip(e.attrs.get(x.detail, UNKNOWN))
                if not isinstance(v, ClassRef) or item not in v.ci.mro:
                    continue
                n_sites += 1
                kk = "%s:self.%s=%s" % (e.unique_id, x.detail, v.ci.key)
                if v.ci.key in LAYOUT or not active:
                    continue
                argt = norm(x.extra) if x.extra is not None else ""
                if "structure" not in tg:
                    r.fail("C01.construct", kk, "non-structural rule %s inserts a %s token" % (e.unique_id, v.ci.key), x.fi.loc(x.node))
                elif argt.endswith(".get_token_value()") and _value_token_compatible(e, v.ci, ct):
                    r.ok("C01.construct", kk, "optional name/label/keyword after `end`: text copied from the region's own %s token (get_token_value())" % _vt_name(e), sample=n_sites % 7 == 0)
                elif r.tabled("C01.construct", kk):
                    r.ok("C01.construct", kk, "tabled", sample=False)
                else:
                    r.fail("C01.construct", kk, "fix of %s builds a %s token from `%s`: not recognisably the text of a token of the same region" % (e.unique_id, v.ci.key, argt), x.fi.loc(x.node))
            # (3) duplication
            for x in copies:
                n_sites += 1
                kk = "%s:copy@%s" % (e.unique_id, x.fi.key)
                src = x.node.args[0] if getattr(x.node, "args", None) else None
                if isinstance(src, ast.Attribute) and isinstance(src.value, ast.Name) and src.value.id == "self" and src.attr in e.attrs and list(_token_instances(e.attrs[src.attr])):
                    # a copy of the token instance(s) the rule's constructor built: those instances are vetted below
                    # (class, literal, structure group); inserting a copy per violation is what keeps positions distinct
                    r.ok("C01.construct", kk, "copy of the rule's own constructor-built token `self.%s` (the instance itself is checked as a constructor token)" % src.attr, sample=False)
                elif r.tabled("C01.construct", "copy@" + x.fi.key):
                    r.ok("C01.construct", kk, "declaration-splitting fix duplicates the shared part of the declaration (documented)", sample=False)
                elif active:
                    r.fail("C01.construct", kk, "fix of %s duplicates existing tokens (copy) - only the declaration-splitting fixes may do that" % e.unique_id, x.fi.loc(x.node))
    # ---- token instances created by rule constructors
    for e in rt.live():
        for a, v in e.attrs.items():
            for ins in _token_instances(v):
                if item not in ins.ci.mro or ins.ci.key in LAYOUT:
                    continue
                n_sites += 1
                kk = "%s:%s=%s(%s)" % (e.unique_id, a, ins.ci.key, ", ".join(repr(x) for x in ins.args))
                tg = [g for g in (e.groups or []) if "::" not in g]
                lits = ct.literal_of.get(ins.ci.key)
                text = ins.args[0] if ins.args and isinstance(ins.args[0], str) else None
                if "structure" not in tg:
                    r.fail("C01.construct", kk, "non-structural rule %s holds a code token to insert" % e.unique_id, e.ci.module.path)
                elif not REDUNDANT_KEYWORD.match(ins.ci.name):
                    r.fail("C01.construct", kk, "rule %s inserts %s, which is not an optional `is` / `end <unit>` / `component` keyword" % (e.unique_id, ins.ci.key), e.ci.module.path)
                elif not lits or len(lits) != 1:
                    r.fail("C01.construct", kk, "the classifier assigns %s under %s literal(s) %s: not a single-spelling keyword class" % (ins.ci.key, "no" if not lits else "several", sorted(lits or [])), e.ci.module.path)
                elif text is None or text.lower() != next(iter(lits)):
                    r.fail("C01.construct", kk, "rule %s would insert the text %r as %s, but the parser only ever classifies %r as that class: the inserted code is not what the role means" % (e.unique_id, text, ins.ci.key, next(iter(lits))), e.ci.module.path)
                else:
                    r.ok("C01.construct", kk, "optional keyword %r, the only spelling the classifier accepts for this class" % text)
    r.extra["construction_sites_attributed"] = n_sites
    if n_sites < 40:
        raise AnalysisError("only %d code-token construction sites attributed" % n_sites)

    # ---- literal guard
    from .c03 import literal_guard, _effects as c03_effects

    literal_guard(r, p, "C01.literal-guard")
    # ---- splice discipline (shared with C18)
    from . import c18 as _c18

    scratch = Result("C18")
    scratch.load_table("c18.json")
    _c18._toi_arith(scratch, p)
    _c18._rebuild(scratch, p, cg)
    for f in scratch.findings:
        if f.rule in ("C18.toi", "C18.rebuild"):
            r.fail("C01.splice", f.key, f.message, f.loc)
    if not scratch.findings:
        r.ok("C01.splice", "vhdlFile.update+writers", "token list written only by vhdlFile's parse/update/normalise; update splices [start:end] of the same update, last first; New.end = start + len(tokens)")
    up = p.function("vsg.vhdlFile.vhdlFile:vhdlFile.update")
    rb = p.function("vsg.vhdlFile.vhdlFile:remove_beginning_of_file_tokens")
    conds = []
    for n in ast.walk(rb.node):
        if isinstance(n, ast.For) and isinstance(n.target, ast.Name):
            for x in ast.walk(n):
                if isinstance(x, ast.If):
                    conds.append(norm(x.test).replace(n.target.id, "oToken"))
        elif isinstance(n, ast.comprehension) and isinstance(n.target, ast.Name):
            for c in n.ifs:
                conds.append(norm(c).replace(n.target.id, "oToken"))
    if conds == ["not isinstance(oToken, parser.beginning_of_file)"] and any(isinstance(n, ast.Call) and norm(n.func) == "remove_beginning_of_file_tokens" for n in walk_function(up.node)):
        r.ok("C01.splice", rb.key, "update() drops only synthetic beginning_of_file tokens from what a fix hands back")
    else:
        r.fail("C01.splice", rb.key, "update() filters the fixed tokens by %s (expected: only parser.beginning_of_file)" % conds, rb.loc())
    # ---- the model a fix works on is the text that was read: every code token of the file is in the list with its text
    # (shared with C04.classify: classifier writes are text preserving, split builders re-emit every part)
    from . import c04 as _c04
    from ..classifier import ClassifierTable as _CT

    scratch4 = Result("C04")
    scratch4.load_table("c04.json")
    _ct = _CT(p)
    _c04._direct_writes(scratch4, p, _ct)
    _c04._split_builders(scratch4, p, _ct)
    for f in scratch4.findings:
        r.fail("C01.splice", "read-side:" + f.key, "the token list a fix is spliced into does not carry the text that was read: " + f.message, f.loc)
    if not scratch4.findings:
        r.ok("C01.splice", "read-side", "classifier writes keep every token's text (C04.classify), so what --fix writes back is the input plus the fixes")
    # ---- late phases: reuse the effect policy of C03 for case/naming
    scratch3 = Result("C03")
    scratch3.load_table("c03.json")
    c03_effects(scratch3, p, rt, fx)
    late = [f for f in scratch3.findings if "[case]" in f.key or ":naming:" in f.key or ":length:" in f.key]
    for f in late:
        r.fail("C01.late-phases", f.key, f.message, f.loc)
    if not late:
        r.ok("C01.late-phases", "case+naming", "capitalisation fixes only set_value an analysis-computed spelling; naming/length rules are report-only")
    return r


def _end_relative(text):
    """x[len(x) - k] written as x[-k]"""
    try:
        tree = ast.parse(text, mode="eval")
    except SyntaxError:
        return text

    class T(ast.NodeTransformer):
        def visit_Subscript(self, node):
            self.generic_visit(node)
            sl = node.slice
            if isinstance(sl, ast.BinOp) and isinstance(sl.op, ast.Sub) and isinstance(sl.right, ast.Constant) and isinstance(sl.right.value, int) and sl.right.value > 0:
                if isinstance(sl.left, ast.Call) and norm(sl.left.func) == "len" and len(sl.left.args) == 1 and norm(sl.left.args[0]) == norm(node.value):
                    node.slice = ast.UnaryOp(op=ast.USub(), operand=ast.Constant(value=sl.right.value))
            return node

    return norm(T().visit(tree).body)


def _wsvalue_at_callers(r, p, fi, c, recv):
    """the blank write sits in a module-level helper and its receiver is (rooted at) a parameter: decide it where the
    helper is called - the argument, expanded in the caller, must be class-tested there or be a tabled position of the
    caller (the site moved into a helper; the key it had before still identifies it)"""
    from ..flow import Facts
    from ..model import expand_text

    if fi.cls is not None:
        return False
    root = c.func.value
    while isinstance(root, (ast.Subscript, ast.Attribute)):
        root = root.value
    if not (isinstance(root, ast.Name) and root.id in fi.params):
        return False
    pi = fi.params.index(root.id)
    n_calls = 0
    for g in p.functions.values():
        if g.module is not fi.module:
            continue
        gf = None
        for call in walk_function(g.node):
            if not (isinstance(call, ast.Call) and isinstance(call.func, ast.Name) and call.func.id == fi.name):
                continue
            n_calls += 1
            if pi >= len(call.args):
                return False
            arg = expand_text(g, call.args[pi])
            here = _end_relative(recv.replace(root.id, arg, 1)) if recv.startswith(root.id) else None
            if here is None:
                return False
            if gf is None:
                gf = Facts(g.node)
            ok = False
            for t, pol in gf.conds_at(call):
                if pol is True and t.startswith("isinstance("):
                    try:
                        tc = ast.parse(t, mode="eval").body
                    except SyntaxError:
                        continue
                    if isinstance(tc, ast.Call) and len(tc.args) == 2 and norm(tc.args[1]).endswith("whitespace") and _end_relative(expand_text(g, tc.args[0])) == here:
                        ok = True
            if not ok and r.tabled("C01.wsvalue", "%s:set_value-blank:%s" % (g.key, here)):
                ok = True
            if not ok:
                return False
    return n_calls > 0


def _wsvalue(r, p, fx, reach):
    """`tok.set_value(<blanks>)` deletes `tok` from the written file unless tok is a whitespace token.  Every such call in
    rule code reachable from a fix is listed with its receiver; the receiver must be class-tested in the same function
    (the test dominates the call), be a whitespace token created in the function, or be a tabled position."""
    from ..fixeffects import is_ws_expr, ws_locals
    from ..flow import Facts
    from ..model import expand_text

    n_sites = n_proved = 0
    for k in sorted(reach):
        fi = p.functions[k]
        if not fi.module.name.startswith("vsg.rules"):
            continue
        calls = [c for c in walk_function(fi.node) if isinstance(c, ast.Call) and isinstance(c.func, ast.Attribute) and c.func.attr == "set_value" and len(c.args) == 1]
        if not calls:
            continue
        ws = ws_locals(fi)
        facts = None
        for c in calls:
            kind = fx._classify_value(fi, c.args[0], ws)
            if kind.startswith("ACTION:"):
                okw, _ = fx.action_key_is_ws(fi.module, kind.split(":", 1)[1])
                if not okw:
                    continue
            elif kind != "WS":
                continue
            n_sites += 1
            recv = _end_relative(expand_text(fi, c.func.value))
            kk = "%s:set_value-blank:%s" % (fi.key, recv)
            if facts is None:
                facts = Facts(fi.node)
            tested = False
            for t, pol in facts.conds_at(c):
                if pol is True and t.startswith("isinstance("):
                    try:
                        tc = ast.parse(t, mode="eval").body
                    except SyntaxError:
                        continue
                    if isinstance(tc, ast.Call) and len(tc.args) == 2 and norm(tc.args[1]).endswith("whitespace") and _end_relative(expand_text(fi, tc.args[0])) == recv:
                        tested = True
            fresh = False
            if isinstance(c.func.value, ast.Name):
                vals = [a.value for a in walk_function(fi.node) if isinstance(a, ast.Assign) and len(a.targets) == 1 and norm(a.targets[0]) == c.func.value.id]
                fresh = bool(vals) and all(isinstance(v, ast.Call) and norm(v.func).endswith("parser.whitespace") for v in vals)
            if tested or fresh:
                n_proved += 1
                r.ok("C01.wsvalue", kk, "the receiver is class-tested whitespace on every path to the call" if tested else "the receiver is a whitespace token created in this function", sample=False)
            elif r.tabled("C01.wsvalue", kk):
                r.ok("C01.wsvalue", kk, "tabled: " + r.tabled("C01.wsvalue", kk).get("reason", "")[:120], sample=False)
            elif _wsvalue_at_callers(r, p, fi, c, recv):
                r.ok("C01.wsvalue", kk, "the receiver is a parameter of a helper; every caller passes a class-tested or tabled position", sample=False)
            else:
                r.fail("C01.wsvalue", kk, "`%s` writes blanks into `%s`, which nothing shows to be a whitespace token at this point: if it is a code token it disappears from the written file" % (norm(c)[:60], recv), fi.loc(c))
    r.extra["blank_value_writes"] = n_sites
    r.extra["blank_value_writes_class_tested"] = n_proved
    if n_sites < 10:
        raise AnalysisError("only %d writes of a whitespace value found in fix code" % n_sites)


def _bound_extensions(r, p):
    """Region extractors that widen a bound by a constant (`lEnd[i] += 1` while iterating lEnd) add one more position to a
    region that a fix may then delete wholesale (label removal uses include_trailing_whitespace).  The added position must
    be the one that was tested, and tested to hold a layout class: `v + 1 in <index of a layout class>` or
    is_token_at_index(<layout class>, v + 1) - otherwise the region swallows the code token behind it."""
    from ..flow import Facts as _Facts

    layout = ("parser.whitespace", "parser.carriage_return", "parser.blank_line")
    n_sites = 0
    for fi in sorted(p.functions.values(), key=lambda f: f.key):
        if not fi.module.name.startswith("vsg.vhdlFile.extract"):
            continue
        facts = None
        single = {}
        for n in walk_function(fi.node):
            if isinstance(n, ast.Assign) and len(n.targets) == 1 and isinstance(n.targets[0], ast.Name):
                single.setdefault(n.targets[0].id, []).append(n.value)
        for n in walk_function(fi.node):
            if not (isinstance(n, ast.AugAssign) and isinstance(n.op, ast.Add) and isinstance(n.target, ast.Subscript) and isinstance(n.value, ast.Constant) and isinstance(n.value.value, int) and n.value.value > 0):
                continue
            lst = norm(n.target.value)
            loops = [q for q in _parents_of(n, fi.node) if isinstance(q, ast.For) and isinstance(q.iter, ast.Call) and norm(q.iter.func) == "enumerate" and q.iter.args and norm(q.iter.args[0]) == lst and isinstance(q.target, ast.Tuple) and norm(q.target.elts[0]) == norm(n.target.slice)]
            if not loops:
                continue
            n_sites += 1
            v = norm(loops[0].target.elts[1])
            k = n.value.value
            want = "%s + %d" % (v, k)
            if facts is None:
                facts = _Facts(fi.node)
            ok = False
            for t, pol in facts.conds_at(n):
                if not pol:
                    continue
                tt = t.replace(" ", "")
                m1 = tt.startswith(want.replace(" ", "") + "in")
                if m1:
                    name = tt[len(want.replace(" ", "") + "in") :]
                    src = single.get(name, [])
                    if len(src) == 1 and isinstance(src[0], ast.Call) and norm(src[0].func).endswith("get_token_indexes") and src[0].args and norm(src[0].args[0]) in layout:
                        ok = True
                for lc in layout:
                    if tt == ("oTokenMap.is_token_at_index(%s,%s)" % (lc, want)).replace(" ", ""):
                        ok = True
            kk = "%s:%s" % (fi.key, norm(n))
            if ok:
                r.ok("C01.wholesale", kk, "the bound grows by %d only when position %s was found in the index of a layout class" % (k, want))
            else:
                r.fail("C01.wholesale", kk, "%s widens a region bound by %d without a test that position `%s` holds a layout token: the region then covers the code token behind it, and the label-removal rules delete their whole region" % (fi.key, k, want), fi.loc(n))
    if n_sites < 1:
        raise AnalysisError("no bound extension found in the extractors (get_tokens_bounded_by include_trailing_whitespace expected)")


def _parents_of(n, stop):
    out = []
    q = getattr(n, "_parent", None)
    while q is not None and q is not stop:
        out.append(q)
        q = getattr(q, "_parent", None)
    return out


def _vt_name(e):
    v = strip(e.attrs.get("value_token", UNKNOWN))
    return v.ci.key if isinstance(v, ClassRef) else "?"


def _value_token_compatible(e, ins_ci, ct):
    """The class built from the stored token value accepts that text: an open (name) class accepts any name;
    a keyword class only the literals the classifier uses for it, so the value token must be a keyword class with
    the same literal(s)."""
    v = strip(e.attrs.get("value_token", UNKNOWN))
    if not isinstance(v, ClassRef):
        return False
    li = ct.literal_of.get(ins_ci.key)
    if ins_ci.key in ct.open_classes and not li:
        return True
    lv = ct.literal_of.get(v.ci.key)
    if li and lv and lv <= li and v.ci.key not in ct.open_classes:
        return True
    if li is None and ins_ci.key not in ct.open_classes:
        return False
    return bool(ins_ci.key in ct.open_classes)


def _paren_pair(code, x):
    names = {y.detail for y in code if y.fi.key == x.fi.key}
    return x.detail in ("vsg.parser:open_parenthesis", "vsg.parser:close_parenthesis") and {"vsg.parser:open_parenthesis", "vsg.parser:close_parenthesis"} <= names and names <= {"vsg.parser:open_parenthesis", "vsg.parser:close_parenthesis"}


VARIANTS = [
    Variant("C01", "right-hand blank adjustment addressed by a fixed front index", "fire",
            [("vsg/rules/n_spaces_before_and_after_tokens.py", "                    lTokens[-1].set_value(\" \" * self.iSpaces)", "                    lTokens[2].set_value(\" \" * self.iSpaces)")],
            rule="C01.wsvalue", key="oViolation.get_tokens()[2]"),
    Variant("C01", "twin: right-hand neighbour addressed as len - 1", "silent",
            [("vsg/rules/n_spaces_before_and_after_tokens.py", "                    lTokens[-1].set_value(\" \" * self.iSpaces)", "                    lTokens[len(lTokens) - 1].set_value(\" \" * self.iSpaces)")]),
    Variant("C01", "blanks written in front of when/else without the whitespace test (0db7d48 reverted)", "fire",
            [("vsg/rules/multiline_conditional_alignment.py", "    if isinstance(lTokens[0], parser.whitespace):\n        iSpace = len(lTokens[0].get_value())", "    if True:\n        iSpace = len(lTokens[0].get_value())")],
            rule="C01.wsvalue", key="_adjust_whitespace_before_keyword"),
    Variant("C01", "twin: class-tested receiver held in a local", "silent",
            [("vsg/rules/multiline_conditional_alignment.py", "    if isinstance(lTokens[0], parser.whitespace):\n        iSpace = len(lTokens[0].get_value())\n        iNewSpace = iSpace + iAdjust\n        lTokens[0].set_value(\" \" * iNewSpace)", "    oLeft = lTokens[0]\n    if isinstance(oLeft, parser.whitespace):\n        iSpace = len(oLeft.get_value())\n        iNewSpace = iSpace + iAdjust\n        oLeft.set_value(\" \" * iNewSpace)")]),
    Variant("C01", "trailing-whitespace extension tests `any later whitespace` instead of the next position", "fire",
            [("vsg/vhdlFile/extract/get_tokens_bounded_by.py", "            if iIndex + 1 in lWhiteSpace:", "            if oTokenMap.get_index_of_token_after_index(parser.whitespace, iIndex) is not None:")], rule="C01.wholesale"),
    Variant("C01", "twin: trailing-whitespace extension asks the token map about the next position", "silent",
            [("vsg/vhdlFile/extract/get_tokens_bounded_by.py", "            if iIndex + 1 in lWhiteSpace:", "            if oTokenMap.is_token_at_index(parser.whitespace, iIndex + 1):")]),
    Variant("C01", "optional-item removal keeps the previous token only if it is a carriage return", "fire",
            [("vsg/rules/utils.py", "    if isinstance(lTokens[0], parser.whitespace):\n        oViolation.set_tokens([])\n    else:\n        oViolation.set_tokens([lTokens[0]])", "    if isinstance(lTokens[0], parser.carriage_return):\n        oViolation.set_tokens([lTokens[0]])\n    else:\n        oViolation.set_tokens([])")], rule="C01.wholesale"),
    Variant("C01", "a new fix empties its region", "fire",
            [("vsg/rules/split_line_at_token.py", "    def _fix_violation(self, oViolation):\n", "    def _fix_violation(self, oViolation):\n        if len(oViolation.get_tokens()) > 40:\n            oViolation.set_tokens([])\n            return\n")], rule="C01.wholesale"),
    Variant("C01", "twin: optional-item removal with the branches swapped", "silent",
            [("vsg/rules/utils.py", "    if isinstance(lTokens[0], parser.whitespace):\n        oViolation.set_tokens([])\n    else:\n        oViolation.set_tokens([lTokens[0]])", "    if not isinstance(lTokens[0], parser.whitespace):\n        oViolation.set_tokens([lTokens[0]])\n    else:\n        oViolation.set_tokens([])")]),
    Variant("C01", "optional keyword inserted with a wrong spelling", "fire",
            [("vsg/rules/architecture/rule_010.py", 'token.end_architecture_keyword("architecture")', 'token.end_architecture_keyword("entity")')], rule="C01.construct", key="architecture_010"),
    Variant("C01", "optional-item rule inserts a non-optional keyword", "fire",
            [("vsg/rules/architecture/rule_010.py", 'token.end_architecture_keyword("architecture")', 'token.begin_keyword("begin")')], rule="C01.construct", key="architecture_010"),
    Variant("C01", "indent fix inserts a semicolon", "fire",
            [("vsg/rules/token_indent.py", "    def _fix_violation(self, oViolation):\n        lTokens = oViolation.get_tokens()", "    def _fix_violation(self, oViolation):\n        lTokens = oViolation.get_tokens()\n        if not lTokens:\n            lTokens.append(parser.semicolon())")],
            rule="C01.construct", key="semicolon"),
    Variant("C01", "structure rule invents an identifier", "fire",
            [("vsg/rules/insert_carriage_return_after_token_if_it_is_not_followed_by_a_comment.py", "        lTokens = oViolation.get_tokens()\n        rules_utils.insert_carriage_return(lTokens, 1)", "        lTokens = oViolation.get_tokens()\n        lTokens.append(parser.identifier(\"tmp\"))\n        rules_utils.insert_carriage_return(lTokens, 1)")],
            rule="C01.construct", key="identifier"),
    Variant("C01", "end-name built from a constant", "fire",
            [("vsg/rules/insert_token_next_to_token_if_it_does_not_exist_between_tokens_using_value_from_token.py", "rules_utils.insert_token(lTokens, iIndex + 1, self.insert_token(oViolation.get_token_value()))", "rules_utils.insert_token(lTokens, iIndex + 1, self.insert_token(self.solution))")],
            rule="C01.construct"),
    Variant("C01", "another fix duplicates tokens", "fire",
            [("vsg/rules/move_token.py", "from vsg import parser", "import copy\n\nfrom vsg import parser"),
             ("vsg/rules/move_token.py", "    def _fix_violation(self, oViolation):\n", "    def _fix_violation(self, oViolation):\n        oViolation.get_tokens().append(copy.deepcopy(oViolation.get_tokens()[0]))\n")],
            rule="C01.construct", key="copy"),
    Variant("C01", "update drops comments handed back by a fix", "fire",
            [("vsg/vhdlFile/vhdlFile.py", "        if not isinstance(oToken, parser.beginning_of_file):\n            lReturn.append(oToken)\n    return lReturn", "        if not isinstance(oToken, (parser.beginning_of_file, parser.comment)):\n            lReturn.append(oToken)\n    return lReturn")],
            rule="C01.splice"),
    Variant("C01", "twin: optional keyword spelled in upper case", "silent",
            [("vsg/rules/architecture/rule_010.py", 'token.end_architecture_keyword("architecture")', 'token.end_architecture_keyword("ARCHITECTURE")')]),
]
