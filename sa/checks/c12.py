# -*- coding: utf-8 -*-
"""
C12 - configuration is obeyed with the documented precedence.

  C12.order      Rule.configure applies global -> group -> rule (most specific last) on every
                 non-deprecated path; apply_rules.configure_rules applies rule section -> file_list ->
                 file_rules (per-file last); configuration files are folded in command-line order and a
                 later file overwrites key by key / rule by rule.
  C12.validate   naming an unknown rule or configuring a deprecated rule raises ConfigurationError:
                 validation dominates the per-rule configuration loop (also for per-file sections, which
                 re-enter rule_list.configure); the deprecated branch returns messages that are raised.
  C12.typestate  every configuration object that can reach Rule.configure has `dConfig` and
                 `severity_list` assigned on all paths between its creation and its first escape.
  C12.siblings   the three configure_* readers agree on the severity branch and on writing through
                 __dict__; differences are tabled with a reason.
  C12.effective  the value a rule acts on is the configured attribute: no method other than a
                 constructor re-assigns a configurable attribute, and no constructor copies a configurable
                 attribute into another attribute (a copy taken before configure() would be stale).
Does not decide: behavioural equivalence with a single-level configuration; severity -> exit status is C14.
"""

import ast

from ..flow import Facts, callee_text
from ..model import AnalysisError, norm, walk_function, expand_text
from ..report import Result
from ..ruletable import UNKNOWN, strip
from ..selftest import Variant

LEVEL = "other"
META = {
    "technique": "static analysis: must-precede ordering by structured-flow dominance, typestate of configuration objects (attributes assigned before escape), sibling cross-check of the three configure_* loops, def-use lint of configurable attributes over the static rule table; position-preservation shape proof of the flattening used for positional per-file look-up",
    "level_text": "Decides the structural facts behind precedence for every rule x attribute x level: the order in which the three levels and the per-file "
    "sections are applied, the direction and granularity of the multi-file merge, that validation dominates use, that configuration objects are "
    "fully initialised before use, and that rules act on the configured attribute itself rather than on a stale copy.",
    "level_note": "Trusted base: CPython ast, the analyser, the static rule table. Not decided: that an option value changes a rule's verdict as documented (per-rule behaviour).",
}


NORMALISERS = ("convert_yes_no_option_to_boolean", "convert_boolean_to_yes_no")


def _calls(fnode):
    return [n for n in walk_function(fnode) if isinstance(n, ast.Call)]


def _order_check(r, rule, fi, seq, what):
    """Calls named in seq must each occur once and each later one must be dominated by the earlier ones."""
    facts = Facts(fi.node)
    found = {}
    for c in _calls(fi.node):
        ct = callee_text(c)
        if ct in seq:
            found.setdefault(ct, []).append(c)
    for name in seq:
        if len(found.get(name, [])) != 1:
            r.fail(rule, "%s:%s:count" % (fi.key, name), "%s: expected exactly one call of %s, found %d" % (what, name, len(found.get(name, []))), fi.loc())
            return False
    ok = True
    for i, name in enumerate(seq):
        f = facts.facts_at(found[name][0])
        for prev in seq[:i]:
            if ("call", prev) not in f:
                ok = False
                r.fail(rule, "%s:%s-after-%s" % (fi.key, name, prev), "%s: %s is not preceded by %s on every path (a less specific level would override a more specific one)" % (what, name, prev), fi.loc(found[name][0]))
        for later in seq[i + 1 :]:
            if ("call", later) in f:
                ok = False
    if ok:
        r.ok(rule, "%s:%s" % (fi.key, "->".join(seq)), what)
    return ok


def run(ctx):
    p = ctx.program
    cg = ctx.callgraph()
    rt = ctx.ruletable
    r = Result("C12")
    r.load_table("c12.json")
    r.rule("C12.order", "global -> group -> rule; rule section -> file_list -> file_rules; files folded in order, later wins")
    r.rule("C12.validate", "unknown / deprecated rule names raise ConfigurationError before any rule is configured")
    r.rule("C12.typestate", "configuration objects have dConfig and severity_list before they escape")
    r.rule("C12.siblings", "the three configure_* readers agree")
    r.rule("C12.filelevel", "a position found in the flattened list of file names indexes the configuration list it was flattened from: the flattening keeps one name per entry, in order")
    r.rule("C12.effective", "rules act on the configured attribute (no overwrite outside constructors, no stale copies)")
    r.explanation = (
        "Ordering facts by structured-flow dominance in Rule.configure, apply_rules.configure_rules, config.read_configuration_files and "
        "rule_list.configure; typestate of every config.config() creation site; the configure_global/group/rule readers compared as "
        "siblings; def-use of every configurable attribute name (from the static rule table) across all rule methods."
    )
    # ------------------------------------------------------------------ order
    conf = p.function("vsg.rule:Rule.configure")
    _order_check(r, "C12.order", conf, ["configure_global_rule_attributes", "configure_group_rule_attributes", "configure_rule_attributes"], "global, then group, then rule-specific")
    # the three are reached on every path that is not the deprecated early return
    facts = Facts(conf.node)
    for kind, node, f in facts.exits:
        if kind == "return" and ("call", "configure_rule_attributes") not in f:
            conds = {c: pol for c, pol in ((x[1], x[2]) for x in f if x[0] == "cond")}
            if not any("deprecated" in c and pol for c, pol in conds.items()):
                r.fail("C12.order", conf.key + ":early-return", "Rule.configure can return without applying the configuration on a non-deprecated path", conf.loc(node))
    cr = p.function("vsg.apply_rules:configure_rules")

    def step_of(fi_, call, depth=0):
        """'rule' | 'file_list' | 'file_rules' | None - looking through one-statement forwarders of the same module."""
        ct = callee_text(call)
        if ct.endswith(".configure") and ct.split(".")[0] in ("oRules",):
            return "rule"
        if ct == "configure_rules_per_option" and call.args and isinstance(call.args[-1], ast.Constant):
            return call.args[-1].value
        if isinstance(call.func, ast.Name) and depth < 2:
            ent = p.resolve_expr(fi_.module, call.func)
            if ent and ent[0] == "func" and ent[1].module is fi_.module:
                body = [st for st in ent[1].node.body if not (isinstance(st, ast.Expr) and isinstance(st.value, ast.Constant))]
                if len(body) == 1 and isinstance(body[0], ast.Expr) and isinstance(body[0].value, ast.Call):
                    return step_of(ent[1], body[0].value, depth + 1)
        return None

    steps = {}
    for c in _calls(cr.node):
        k = step_of(cr, c)
        if k in ("rule", "file_list", "file_rules"):
            steps.setdefault(k, []).append(c)
    seq = ["rule", "file_list", "file_rules"]
    fcr = Facts(cr.node)
    okc = True
    for k in seq:
        if len(steps.get(k, [])) != 1:
            okc = False
            r.fail("C12.order", "%s:%s:count" % (cr.key, k), "configure_rules applies the %s level %d time(s) (expected once)" % (k, len(steps.get(k, []))), cr.loc())
    if okc:
        for i, k in enumerate(seq):
            fa = fcr.facts_at(steps[k][0])
            for prev in seq[:i]:
                if ("call", callee_text(steps[prev][0])) not in fa or steps[prev][0].lineno > steps[k][0].lineno:
                    okc = False
                    r.fail("C12.order", "%s:%s-after-%s" % (cr.key, k, prev), "rule section, then file_list entry, then file_rules entry: the %s level is not preceded by the %s level on every path (a less specific level would override a more specific one)" % (k, prev), cr.loc(steps[k][0]))
        if okc:
            r.ok("C12.order", cr.key + ":rule->file_list->file_rules", "rule section, then file_list entry, then file_rules entry (each once, in this order on every path)")
    # per-file configuration re-enters rule_list.configure (so validation applies)
    per = p.function("vsg.apply_rules:configure_rules_per_option")
    if any(callee_text(c) == "oRules.configure" for c in _calls(per.node)):
        r.ok("C12.validate", per.key + ":re-enters-configure", "per-file sections go through rule_list.configure (validated)")
    else:
        r.fail("C12.validate", per.key + ":re-enters-configure", "per-file sections bypass rule_list.configure", per.loc())
    # multi-file merge
    rd = p.function("vsg.config:read_configuration_files")
    loops = [n for n in walk_function(rd.node) if isinstance(n, ast.For)]
    if len(loops) == 1 and norm(loops[0].iter) == "commandLineArguments.configuration":
        body_calls = [callee_text(c) for c in ast.walk(loops[0]) if isinstance(c, ast.Call)]
        fold = [s for s in loops[0].body if isinstance(s, ast.Assign) and isinstance(s.value, ast.Call) and callee_text(s.value) == "process_config_file"]
        if fold and norm(fold[0].targets[0]) == norm(fold[0].value.args[0]):
            r.ok("C12.order", rd.key + ":fold", "for file in -c order: acc = process_config_file(acc, file)")
        else:
            r.fail("C12.order", rd.key + ":fold", "configuration files are not folded into one accumulator in command-line order", rd.loc(loops[0]))
    else:
        r.fail("C12.order", rd.key + ":fold", "configuration files are not iterated in command-line order", rd.loc())
    pc = p.function("vsg.config:process_config_file")
    acc, new = pc.params[0], pc.params[1]
    stores = [n for n in walk_function(pc.node) if isinstance(n, ast.Assign) and isinstance(n.targets[0], ast.Subscript)]
    n_ok = 0
    for s in stores:
        t = s.targets[0]
        root = t
        while isinstance(root, ast.Subscript):
            root = root.value
        vroot = s.value
        while isinstance(vroot, ast.Subscript):
            vroot = vroot.value
        if isinstance(s.value, ast.Dict):
            continue
        rootn = norm(root)
        # dReturn is an alias of the accumulator
        if rootn in (acc, "dReturn") and isinstance(vroot, ast.Name) and vroot.id == new:
            # same key path on both sides
            if norm(t).split("[", 1)[1] == norm(s.value).split("[", 1)[1]:
                # the overwrite must be unconditional: a guard that looks at the accumulator ("only if absent")
                # makes the earlier file win
                guards = []
                q = getattr(s, "_parent", None)
                while q is not None and q is not pc.node:
                    if isinstance(q, ast.If) and any(isinstance(x, ast.Name) and x.id in (acc, "dReturn") for x in ast.walk(q.test)):
                        guards.append(q)
                    q = getattr(q, "_parent", None)
                if guards:
                    r.fail("C12.order", pc.key + ":merge-conditional", "the later file's value is stored only under `%s`: an earlier file's setting survives" % norm(guards[0].test), pc.loc(guards[0]))
                n_ok += 1
                continue
        if isinstance(vroot, ast.Name) and vroot.id in (acc, "dReturn") and rootn == new:
            r.fail("C12.order", pc.key + ":merge-direction", "merge writes the earlier configuration over the later file: `%s`" % norm(s), pc.loc(s))
        elif rootn in (acc, "dReturn"):
            r.fail("C12.order", pc.key + ":merge-shape:" + norm(s), "merge stores `%s`: not the later file's value under the same key" % norm(s), pc.loc(s))
    if n_ok >= 2:
        r.ok("C12.order", pc.key + ":merge", "later file overwrites: top-level keys wholesale, `rule` entries rule by rule (%d stores)" % n_ok)
    else:
        r.fail("C12.order", pc.key + ":merge", "the key-by-key / rule-by-rule overwrite of process_config_file is gone", pc.loc())
    # rule granularity: loop over tempConfiguration['rule']
    rl = [n for n in walk_function(pc.node) if isinstance(n, ast.For) and norm(n.iter) in ("%s[sKey]" % new, "%s['rule']" % new)]
    if not rl:
        r.fail("C12.order", pc.key + ":rule-granularity", "rules of a later file are no longer merged one by one (a later file naming one rule would drop all others)", pc.loc())

    # --------------------------------------------------------------- validate
    rc = p.function("vsg.rule_list:rule_list.configure")
    f = Facts(rc.node)
    cfg_calls = [c for c in _calls(rc.node) if isinstance(c.func, ast.Attribute) and c.func.attr == "configure" and isinstance(c.func.value, ast.Name) and c.func.value.id.startswith("oRule")]
    if not cfg_calls:
        raise AnalysisError("rule_list.configure no longer calls oRule.configure")
    for c in cfg_calls:
        if ("call", "self._validate_configuration_rule_exists") in f.facts_at(c):
            r.ok("C12.validate", rc.key + ":validate-dominates", "unknown rule names are rejected before any rule is configured")
        else:
            r.fail("C12.validate", rc.key + ":validate-dominates", "rules are configured without validating that every named rule exists", rc.loc(c))
        # return value collected
        par = getattr(c, "_parent", None)
        if not (isinstance(par, ast.Call) and callee_text(par).endswith(".extend")):
            r.fail("C12.validate", rc.key + ":deprecated-messages-collected", "the messages returned by Rule.configure (deprecated rule configured) are dropped", rc.loc(c))
    raises = [n for n in walk_function(rc.node) if isinstance(n, ast.Raise)]
    if raises and any("ConfigurationError" in norm(x.exc) for x in raises):
        rr = [x for x in raises if "ConfigurationError" in norm(x.exc)][0]
        c = dict(f.conds_at(rr))
        if any(v and "lDeprecatedMessages" in k for k, v in c.items()):
            r.ok("C12.validate", rc.key + ":deprecated-raises", "a configured deprecated rule raises ConfigurationError")
        else:
            r.fail("C12.validate", rc.key + ":deprecated-raises", "ConfigurationError is not raised under the deprecated-messages test", rc.loc(rr))
    else:
        r.fail("C12.validate", rc.key + ":deprecated-raises", "configuring a deprecated rule no longer raises ConfigurationError", rc.loc())
    va = p.function("vsg.rule_list:rule_list._validate_configuration_rule_exists")
    _validate_exists(r, p, va)
    _file_level_index(r, p)
    _single_key_entries(r, p)
    _lookup_name(r, p)
    # deprecated branch of Rule.configure
    dep = [n for n in walk_function(conf.node) if isinstance(n, ast.If) and "self.deprecated" in norm(n.test)]
    if dep and dep[0].body and isinstance(dep[0].body[0], ast.Return) and "print_output" in norm(dep[0].body[0].value) and "self.unique_id in" in norm(dep[0].test):
        r.ok("C12.validate", conf.key + ":deprecated-branch", "deprecated and configured -> messages returned")
    else:
        r.fail("C12.validate", conf.key + ":deprecated-branch", "a configured deprecated rule no longer reports itself", conf.loc())

    reach = cg.reachable([p.function("vsg.__main__:main"), p.function("vsg.apply_rules:apply_rules")])
    _typestate(r, p, reach)
    _siblings(r, p)
    _effective(r, p, rt)
    return r


def _file_level_index(r, p):
    """apply_rules finds a file's per-file configuration by position: it flattens configuration[section] into a list of
    names, takes names.index(file) and reads configuration[section][that index].  That is only right when the
    flattening is position preserving - exactly one name appended per entry, on every path, in order."""
    mod = "vsg.apply_rules"
    flat = {}
    for fi in p.functions.values():
        if fi.module.name != mod:
            continue
        single = {}
        for n in walk_function(fi.node):
            if isinstance(n, ast.Assign) and len(n.targets) == 1 and isinstance(n.targets[0], ast.Name) and isinstance(n.value, ast.Call):
                single.setdefault(n.targets[0].id, []).append(n.value)
        for n in walk_function(fi.node):
            if isinstance(n, ast.Call) and isinstance(n.func, ast.Attribute) and n.func.attr == "index" and isinstance(n.func.value, ast.Name):
                src = single.get(n.func.value.id, [])
                if len(src) == 1 and src[0].args and isinstance(src[0].args[0], ast.Subscript):
                    ent = p.resolve_expr(fi.module, src[0].func)
                    if ent and ent[0] == "func":
                        flat[ent[1].key] = (ent[1], fi, n)
    if not flat:
        raise AnalysisError("no position look-up in a flattened file list found in vsg.apply_rules")
    for key, (f, user, site) in sorted(flat.items()):
        problems = []
        body = [st for st in f.node.body if not (isinstance(st, ast.Expr) and isinstance(st.value, ast.Constant))]
        loops = [st for st in body if isinstance(st, ast.For)]
        rets = [st for st in body if isinstance(st, ast.Return)]
        out = norm(rets[0].value) if len(rets) == 1 and isinstance(rets[0].value, ast.Name) else None
        comp = rets[0].value if len(rets) == 1 and len(body) == 1 and isinstance(rets[0].value, ast.ListComp) else None
        if comp is not None:
            # a comprehension without a filter keeps one contribution per entry, in order
            if any(g.ifs for g in comp.generators) or norm(comp.generators[0].iter) not in f.params:
                problems.append("filters entries in a comprehension (a dropped entry shifts every later position)")
        elif len(loops) != 1 or out is None or norm(loops[0].iter) not in f.params:
            problems.append("is not one loop over its parameter that builds and returns one list")
        else:
            def count(stmts, acc):
                """(numbers of names added on the paths that fall through stmts, numbers on paths that `continue`);
                None when a statement cannot be accounted for.  acc: numbers added so far on the paths arriving."""
                done = set()
                for st in stmts:
                    if not acc:
                        break
                    if isinstance(st, ast.If):
                        if any(isinstance(x, ast.Name) and x.id == out for x in ast.walk(st.test)):
                            return None
                        ra, rb = count(st.body, set(acc)), count(st.orelse, set(acc))
                        if ra is None or rb is None:
                            return None
                        acc = ra[0] | rb[0]
                        done |= ra[1] | rb[1]
                    elif isinstance(st, ast.Continue):
                        done |= acc
                        acc = set()
                    elif isinstance(st, ast.Expr) and isinstance(st.value, ast.Call) and norm(st.value.func) in (out + ".append", out + ".extend"):
                        acc = {x + 1 for x in acc}
                    elif isinstance(st, ast.AugAssign) and isinstance(st.op, ast.Add) and norm(st.target) == out:
                        acc = {x + 1 for x in acc}
                    elif isinstance(st, (ast.Assign, ast.Expr)) and not any(isinstance(x, ast.Name) and x.id == out for x in ast.walk(st)):
                        pass
                    else:
                        return None
                return acc, done

            c = count(loops[0].body, {0})
            if c is None or (c[0] | c[1]) != {1}:
                problems.append("does not add exactly one name per entry on every path (a skipped, filtered or de-duplicated entry shifts every later position)")
            pre = [st for st in body if st is not loops[0] and st is not rets[0]]
            if not (len(pre) == 1 and isinstance(pre[0], ast.Assign) and norm(pre[0].targets[0]) == out and isinstance(pre[0].value, ast.List) and not pre[0].value.elts):
                problems.append("result does not start as the empty list")
            if body and body[-1] is not rets[0]:
                problems.append("result is changed after the loop")
        kk = "%s:position-preserving" % f.key
        if problems:
            r.fail("C12.filelevel", kk, "%s (whose result is searched with .index() in %s to index the configuration list) %s: the per-file configuration of a later entry is looked up at the wrong position and silently ignored" % (f.name, user.name, "; ".join(problems)), f.loc())
        else:
            r.ok("C12.filelevel", kk, "one name appended per entry of the configuration list, in order, on every path (dict entries contribute their keys: one key per entry as written by the configuration reader)")


def _lookup_name(r, p):
    """The per-file level is found by comparing the name of the file being analysed with the names stored in the
    configuration as strings.  The reader stores glob results with back-slashes turned into '/', nothing else; the
    look-up side may therefore do exactly one thing to the file name: replace the separator by '/'.  Any other
    normalisation (pathlib, normpath, abspath, case folding) makes names that differ only in form (`./src/x.vhd`)
    miss their entry silently - the file is then analysed and fixed as if it had no per-file configuration."""
    cr = p.function("vsg.apply_rules:configure_rules")
    name = cr.params[-1]

    def sep_only(e, var):
        # var.replace(<sep>, "/") (possibly chained), or var itself
        while isinstance(e, ast.Call) and isinstance(e.func, ast.Attribute) and e.func.attr == "replace" and len(e.args) == 2:
            a, b = e.args
            if not (isinstance(b, ast.Constant) and b.value == "/" and (norm(a) == "os.sep" or (isinstance(a, ast.Constant) and a.value == "\\"))):
                return False
            e = e.func.value
        return isinstance(e, ast.Name) and e.id == var

    stores = [n for n in walk_function(cr.node) if isinstance(n, ast.Assign) and any(norm(t) == name for t in n.targets)]
    bad = [n for n in stores if not sep_only(n.value, name)]
    # the name handed on to the per-section look-ups is that variable
    handed = [c for c in walk_function(cr.node) if isinstance(c, ast.Call) and c.args and any("file" in norm(c.func).lower() for _ in [0])]
    other = [c for c in handed if not any(norm(a) == name for a in c.args) and "per_file" in norm(c.func)]
    kk = cr.key + ":lookup-name"
    if bad:
        r.fail("C12.filelevel", kk, "the name used to find a file's per-file configuration is `%s`: more than a separator replacement, while the configuration reader stores names as globbed with only '\\' turned into '/' - an entry written as `./src/x.vhd` is no longer found, and its `disable` / `fixable` / severity settings are silently dropped" % norm(bad[0].value)[:60], cr.loc(bad[0]))
    elif other:
        r.fail("C12.filelevel", kk, "a per-file look-up is not given the normalised file name (`%s`)" % norm(other[0])[:60], cr.loc(other[0]))
    else:
        r.ok("C12.filelevel", kk, "the look-up name is the file name with separators replaced by '/' (%d assignment(s)), the same and only normalisation the reader applies to stored names" % len(stores))
    rb = p.function("vsg.config:replace_backslash_with_forward_slash")
    comps = [n for n in walk_function(rb.node) if isinstance(n, ast.ListComp)]
    okw = len(comps) == 1 and len(comps[0].generators) == 1 and not comps[0].generators[0].ifs and isinstance(comps[0].generators[0].target, ast.Name) and sep_only(comps[0].elt, comps[0].generators[0].target.id)
    if okw:
        r.ok("C12.filelevel", rb.key + ":stored-name", "stored names: glob result with back-slashes replaced, nothing else")
    else:
        r.fail("C12.filelevel", rb.key + ":stored-name", "the configuration reader no longer stores globbed names with only the separator replaced: stored and looked-up names can differ in form", rb.loc())


def _single_key_entries(r, p):
    """the flattening contributes one name per entry only if a dict entry has one key: the configuration reader builds
    every file_list dict entry afresh with exactly one key (file_rules entries are the user's own and are not decided)"""
    f = p.function("vsg.config:process_file_list_key")
    apps = [n for n in walk_function(f.node) if isinstance(n, ast.Call) and isinstance(n.func, ast.Attribute) and n.func.attr == "append" and "file_list" in norm(n.func.value)]
    if not apps:
        raise AnalysisError("process_file_list_key no longer appends to the file_list")
    bad = []
    n_dict = 0
    for a in apps:
        if not (a.args and isinstance(a.args[0], ast.Name)):
            bad.append("appends `%s`" % norm(a.args[0])[:40] if a.args else "append()")
            continue
        v = a.args[0].id
        fresh = [n for n in walk_function(f.node) if isinstance(n, ast.Assign) and len(n.targets) == 1 and norm(n.targets[0]) == v]
        if not fresh:
            continue  # a loop variable holding a plain name
        n_dict += 1
        keys = {norm(n.targets[0].slice) for n in walk_function(f.node) if isinstance(n, ast.Assign) and isinstance(n.targets[0], ast.Subscript) and norm(n.targets[0].value) == v}
        encl = None
        for lp in walk_function(f.node):
            if isinstance(lp, ast.For) and any(y is a for y in ast.walk(lp)) and (encl is None or any(y is lp for y in ast.walk(encl))):
                encl = lp
        in_loop = encl is not None and all(any(y is x for y in ast.walk(encl)) for x in fresh)
        if not in_loop:
            bad.append("dict entry `%s` is not created inside the loop that appends it (entries share one dictionary)" % v)
        elif not all(isinstance(x.value, ast.Dict) and not x.value.keys for x in fresh) or len(keys) != 1:
            bad.append("dict entry `%s` is not built afresh with exactly one key (keys stored: %s)" % (v, sorted(keys)))
    kk = f.key + ":single-key-entries"
    if bad or not n_dict:
        r.fail("C12.filelevel", kk, "file_list entries written by the configuration reader: %s - positions in the flattened name list no longer match positions in file_list" % ("; ".join(bad) or "no dict entry found"), f.loc())
    else:
        r.ok("C12.filelevel", kk, "every dict entry appended to file_list is a fresh dict with exactly one key (%d append sites)" % len(apps))


def _validate_exists(r, p, va):
    """Every name under `rule` other than the pseudo names global/group must exist, or ConfigurationError is raised.
    Shape: a loop over the rule section that is never left early, a raise inside it, and - looking through the
    module-level predicate helpers it calls - exemption tests whose only string constants are 'global' and 'group'
    plus one membership test against the rule names."""
    loops = [n for n in walk_function(va.node) if isinstance(n, ast.For) and "['rule']" in norm(n.iter).replace('"', "'")]
    if not loops:
        r.fail("C12.validate", va.key + ":loop", "the validator no longer iterates over the `rule` section of the configuration", va.loc())
        return
    loop = loops[0]
    ok = True
    for n in ast.walk(loop):
        if isinstance(n, (ast.Return, ast.Break)):
            ok = False
            r.fail("C12.validate", va.key + ":early-exit", "validation of rule names stops early (`%s` inside the loop over the rule section): names listed after that point are never checked, so a misspelt rule is silently accepted" % norm(n), va.loc(n))
    raises = [n for n in ast.walk(loop) if isinstance(n, ast.Raise) and n.exc is not None and "ConfigurationError" in norm(n.exc)]
    if not raises:
        ok = False
        r.fail("C12.validate", va.key, "unknown rule names are ignored (no ConfigurationError raised inside the loop)", va.loc())
    # gather the tests that decide, looking through module-level helpers (depth 3)
    consts = set()
    member = []
    seen = set()

    def gather(fi, node, depth):
        for n in ast.walk(node):
            if isinstance(n, ast.Compare):
                for c in [n.left] + list(n.comparators):
                    if isinstance(c, ast.Constant) and isinstance(c.value, str):
                        consts.add(c.value)
                if any(isinstance(op, (ast.In, ast.NotIn)) for op in n.ops):
                    member.append(norm(n))
            if isinstance(n, ast.Call) and isinstance(n.func, ast.Name) and depth < 3:
                ent = p.resolve_expr(fi.module, n.func)
                if ent and ent[0] == "func" and ent[1].key not in seen and ent[1].module is fi.module:
                    seen.add(ent[1].key)
                    gather(ent[1], ent[1].node, depth + 1)

    for n in ast.walk(loop):
        if isinstance(n, ast.If):
            gather(va, n.test, 0)
    extra = consts - {"global", "group"}
    if extra:
        ok = False
        r.fail("C12.validate", va.key + ":exemptions", "names exempt from the existence test are no longer only `global` and `group`: %s" % sorted(consts), va.loc())
    if not any("not in" in m or " in " in m for m in member):
        ok = False
        r.fail("C12.validate", va.key + ":membership", "no membership test of the configured name against the loaded rule names", va.loc())
    if ok:
        r.ok("C12.validate", va.key, "every name under `rule` except global/group is tested against the loaded rule names; unknown -> ConfigurationError; the loop is never left early (tests: %s)" % "; ".join(sorted(set(member))[:2]))


def _typestate(r, p, reach):
    cfg_cls = p.cls("vsg.config:config")
    need = {"dConfig", "severity_list"}
    n_sites = 0
    for fi in p.functions.values():
        if fi.key not in reach:
            continue
        for n in walk_function(fi.node):
            if not (isinstance(n, ast.Assign) and isinstance(n.value, ast.Call) and len(n.targets) == 1 and isinstance(n.targets[0], ast.Name)):
                continue
            ent = p.resolve_expr(fi.module, n.value.func) if isinstance(n.value.func, (ast.Name, ast.Attribute)) else None
            if not (ent and ent[0] == "class" and ent[1] is cfg_cls):
                continue
            n_sites += 1
            var = n.targets[0].id
            # statements after the creation in the same block, in order, until the first escape
            blk = getattr(n, "_parent", None)
            body = None
            for fld in ("body", "orelse", "finalbody"):
                if n in getattr(blk, fld, []):
                    body = getattr(blk, fld)
            assigned = set()
            escaped_at = None
            if body is not None:
                for s in body[body.index(n) + 1 :]:
                    # attribute stores on var
                    if isinstance(s, ast.Assign) and len(s.targets) == 1 and isinstance(s.targets[0], ast.Attribute) and isinstance(s.targets[0].value, ast.Name) and s.targets[0].value.id == var:
                        # the value expression may itself pass var to a call -> escape first
                        if any(isinstance(x, ast.Name) and x.id == var for x in ast.walk(s.value)):
                            escaped_at = s
                            break
                        assigned.add(s.targets[0].attr)
                        continue
                    uses = [x for x in ast.walk(s) if isinstance(x, ast.Name) and x.id == var and isinstance(x.ctx, ast.Load)]
                    esc = False
                    for u in uses:
                        par = getattr(u, "_parent", None)
                        if isinstance(par, ast.Attribute) and isinstance(getattr(par, "ctx", None), ast.Store):
                            continue
                        if isinstance(par, ast.Attribute):
                            continue  # reading own attribute
                        esc = True
                    if esc:
                        escaped_at = s
                        break
            kk = "%s:%s = config()" % (fi.key, var)
            missing = need - assigned
            if escaped_at is None:
                r.unknown("C12.typestate", kk, "creation site without a recognised escape")
            elif missing:
                r.fail(
                    "C12.typestate",
                    kk + ":missing:" + ",".join(sorted(missing)),
                    "a configuration object leaves %s (at `%s`) without %s: configure_*_rule_attributes reads oConfig.%s" % (fi.name, norm(escaped_at)[:60], ", ".join(sorted(missing)), sorted(missing)[0]),
                    fi.loc(escaped_at),
                )
            else:
                r.ok("C12.typestate", kk, "assigns %s before `%s`" % (sorted(assigned), norm(escaped_at)[:50]))
    if n_sites < 2:
        raise AnalysisError("only %d config.config() creation sites found" % n_sites)


def _siblings(r, p):
    keys = ["vsg.rule:configure_global_rule_attributes", "vsg.rule:configure_attribute", "vsg.rule:configure_rule_attributes"]
    shapes = {}
    for k in keys:
        fi = p.function(k)
        guard = None
        for n in walk_function(fi.node):
            if isinstance(n, ast.If):
                cur = n
                while True:
                    t = norm(cur.test)
                    if "sAttributeName in " in t and "severity" not in t:
                        guard = t
                    if len(cur.orelse) == 1 and isinstance(cur.orelse[0], ast.If):
                        cur = cur.orelse[0]
                    else:
                        break
        handlers = [norm(h.type) for n in walk_function(fi.node) if isinstance(n, ast.Try) for h in n.handlers]
        shapes[k] = {"guard": guard, "handlers": handlers}
        if handlers != ["KeyError"]:
            r.fail("C12.siblings", k + ":handlers", "reader swallows %s (expected KeyError only: a broader handler hides configuration mistakes)" % handlers, fi.loc())
    # every configured entry is visited: no reader leaves its loop early
    for k in keys + ["vsg.rule:configure_group_rule_attributes"]:
        fi = p.function(k)
        loops = [n for n in walk_function(fi.node) if isinstance(n, ast.For)]
        if not loops:
            r.fail("C12.siblings", k + ":loop", "reader no longer iterates the configured names", fi.loc())
            continue
        early = [x for lp in loops for x in ast.walk(lp) if isinstance(x, (ast.Break, ast.Return))]
        if early:
            r.fail(
                "C12.siblings",
                k + ":early-exit",
                "reader leaves its loop after the first match (%s): further configured %s are silently ignored" % (type(early[0]).__name__.lower(), "groups the rule belongs to" if "group" in k else "attributes"),
                fi.loc(early[0]),
            )
        else:
            r.ok("C12.siblings", k + ":visits-all", "iterates every configured entry (%s)" % norm(loops[0].iter)[:60])
    gfi = p.function("vsg.rule:configure_group_rule_attributes")
    gl = [n for n in walk_function(gfi.node) if isinstance(n, ast.For)]
    if gl:
        tests = [norm(x.test) for x in ast.walk(gl[0]) if isinstance(x, ast.If)]
        v = gl[0].target.id if isinstance(gl[0].target, ast.Name) else "?"
        if tests == ["%s in self.groups" % v]:
            r.ok("C12.siblings", gfi.key + ":membership", "group settings applied iff the rule is a member of the group")
        else:
            r.fail("C12.siblings", gfi.key + ":membership", "group settings applied under %s (expected exactly `%s in self.groups`)" % (tests, v), gfi.loc())
    # a configured value is stored as given: every branch of a reader either assigns the configuration look-up (severity:
    # through the by-name resolution) or hands it to a helper that assigns it on every path.  A helper that assigns only under
    # a test of the value silently drops configured values - the run then differs from one configured with that value.
    for k in keys:
        fi = p.function(k)
        for n in walk_function(fi.node):
            if not (isinstance(n, ast.Expr) and isinstance(n.value, ast.Call) and isinstance(n.value.func, ast.Name)):
                continue
            c = n.value
            cfg_args = [i for i, a in enumerate(c.args) if "dConfig" in expand_text(fi, a)]
            if not cfg_args:
                continue
            ent = p.resolve_expr(fi.module, c.func)
            if not (ent and ent[0] == "func"):
                r.fail("C12.siblings", "%s:%s" % (k, norm(c)[:50]), "a configured value is handed to `%s`, which cannot be resolved" % norm(c.func), fi.loc(n))
                continue
            h = ent[1]
            pn = h.params[cfg_args[0]] if cfg_args[0] < len(h.params) else None
            hf = Facts(h.node)
            stores = [x for x in walk_function(h.node) if isinstance(x, ast.Assign) and any(isinstance(t, ast.Attribute) or (isinstance(t, ast.Subscript) and "__dict__" in norm(t)) for t in x.targets) and pn and any(isinstance(y, ast.Name) and y.id == pn for y in ast.walk(x.value))]
            kk = "%s:%s:stores-value" % (k, h.name)
            if not stores:
                r.fail("C12.siblings", kk, "%s receives the configured value but never stores it on the rule" % h.name, h.loc())
                continue
            cond = [t for st in stores for t, pol in hf.conds_at(st) if pn in t]
            raises = any(isinstance(x, ast.Raise) for x in walk_function(h.node))
            if cond and not raises:
                r.fail("C12.siblings", kk, "%s stores the configured value only under `%s` and otherwise keeps the old one without an error: some configured values are silently ignored, so the run differs from one configured with that value" % (h.name, cond[0][:60]), h.loc(stores[0]))
            else:
                r.ok("C12.siblings", kk, "stores the configured value on every path (or rejects it with an error)")
    guards = {k: v["guard"] for k, v in shapes.items()}
    base = guards[keys[2]]
    for k in keys:
        if guards[k] is None:
            r.fail("C12.siblings", k + ":guard", "reader assigns attributes without checking that the rule has them", p.function(k).loc())
        elif guards[k] != base:
            r.fail("C12.siblings", k + ":guard-differs", "reader accepts names under `%s` while the rule-level reader uses `%s`" % (guards[k], base), p.function(k).loc())
        else:
            r.ok("C12.siblings", k + ":guard", guards[k])


def _effective(r, p, rt):
    rule_cls = p.cls("vsg.rule:Rule")
    # configurable names per class: union over the rule table of names, attributed to every class in the MRO
    conf_by_class = {}
    for e in rt.entries:
        names = e.configuration if isinstance(e.configuration, list) else []
        for c in e.ci.mro:
            conf_by_class.setdefault(c.key, set()).update(n for n in names if isinstance(n, str))
    n_checked = 0
    n_norm = [0]
    for ci in p.classes.values():
        if rule_cls not in (ci.mro or []):
            continue
        names = conf_by_class.get(ci.key, set())
        if not names:
            continue
        for m in ci.methods.values():
            for n in walk_function(m.node):
                if isinstance(n, (ast.Assign, ast.AugAssign)):
                    ts = n.targets if isinstance(n, ast.Assign) else [n.target]
                    for t in ts:
                        if isinstance(t, ast.Attribute) and isinstance(t.value, ast.Name) and t.value.id == "self" and t.attr in names:
                            n_checked += 1
                            if m.name == "__init__":
                                # stale copy: RHS reads another configurable attribute of self
                                rd = [x.attr for x in ast.walk(n.value) if isinstance(x, ast.Attribute) and isinstance(x.value, ast.Name) and x.value.id == "self" and x.attr in names and x.attr != t.attr] if getattr(n, "value", None) is not None else []
                                if rd:
                                    r.fail("C12.effective", "%s:%s" % (m.key, norm(n)), "constructor copies configurable `%s` into `%s` before configuration is applied" % (rd[0], t.attr), m.loc(n))
                                continue
                            v = getattr(n, "value", None)
                            if (
                                isinstance(n, ast.Assign)
                                and isinstance(v, ast.Call)
                                and len(v.args) == 1
                                and norm(v.args[0]) == "self." + t.attr
                                and norm(v.func).split(".")[-1] in NORMALISERS
                            ):
                                n_norm[0] += 1
                                continue  # idempotent in-place normalisation yes/no <-> bool of the same attribute
                            r.fail(
                                "C12.effective",
                                "%s:%s" % (m.key, norm(n)),
                                "`%s` re-assigns the configurable attribute `%s` outside a constructor: the configured value is overwritten (and --rule_configuration / -oc would show a value the rule does not act on)" % (m.name, t.attr),
                                m.loc(n),
                            )
            if m.name == "__init__":
                # copies of configurable attributes into non-configurable ones
                for n in walk_function(m.node):
                    if isinstance(n, ast.Assign) and len(n.targets) == 1 and isinstance(n.targets[0], ast.Attribute) and isinstance(n.targets[0].value, ast.Name) and n.targets[0].value.id == "self":
                        tgt = n.targets[0].attr
                        if tgt in names:
                            continue
                        rd = [x.attr for x in ast.walk(n.value) if isinstance(x, ast.Attribute) and isinstance(x.value, ast.Name) and x.value.id == "self" and x.attr in names]
                        if rd:
                            n_checked += 1
                            r.fail("C12.effective", "%s:%s" % (m.key, norm(n)), "constructor derives `%s` from configurable `%s` before configuration is applied: later configuration of `%s` is ignored" % (tgt, rd[0], rd[0]), m.loc(n))
    r.ok("C12.effective", "all-rule-classes", "%d stores/derivations of configurable attributes inspected (%d idempotent yes/no normalisations accepted)" % (n_checked, n_norm[0]))
    _normalised_use(r, p)
    # the accepted normalisers really are idempotent maps that leave other values alone
    for name in NORMALISERS:
        fi = p.function("vsg.vhdlFile.utils:" + name)
        rets = [x for x in walk_function(fi.node) if isinstance(x, ast.Return)]
        last = fi.node.body[-1]
        if isinstance(last, ast.Return) and norm(last.value) == fi.params[0] and all(isinstance(x.value, ast.Constant) or norm(x.value) == fi.params[0] for x in rets):
            r.ok("C12.effective", fi.key, "maps two spellings to constants and returns anything else unchanged (idempotent)")
        else:
            r.fail("C12.effective", fi.key, "normaliser is no longer an idempotent pass-through: in-place normalisation of configured options changes them", fi.loc())


_DOMAIN = {"convert_boolean_to_yes_no": "str", "convert_yes_no_option_to_boolean": "bool"}


def _use_context(x):
    par = getattr(x, "_parent", None)
    if isinstance(par, ast.Compare):
        cs = [o.value for o in [par.left] + list(par.comparators) if isinstance(o, ast.Constant)]
        if any(isinstance(c, str) for c in cs):
            return "cmp-str"
        if any(isinstance(c, bool) for c in cs):
            return "truth"
        return None
    if isinstance(par, (ast.If, ast.While, ast.IfExp)) and par.test is x:
        return "truth"
    if isinstance(par, ast.BoolOp):
        return "truth"
    if isinstance(par, ast.UnaryOp) and isinstance(par.op, ast.Not):
        return "truth"
    return None


def _normalised_use(r, p):
    """A yes/no option is normalised in place (`self.x = convert_..(self.x)`) to one of two domains: the strings
    'yes'/'no' or a bool.  (1) every use in the module agrees with the domain: a truthiness test of a 'yes'/'no'
    string is true for 'no' as well, a comparison of a bool with 'yes' is always false - the configured value is
    then not the value acted on; (2) nothing reads the raw option in region selection, which Rule.analyze runs
    before _analyze, unless region selection normalises it first (the first analysis would see another type than
    every later one)."""
    sites = {}
    for fi in p.functions.values():
        if not fi.module.name.startswith("vsg.rules") and fi.module.name != "vsg.block_rule":
            continue
        for n in walk_function(fi.node):
            if isinstance(n, ast.Assign) and len(n.targets) == 1 and isinstance(n.targets[0], ast.Attribute) and norm(n.targets[0].value) == "self" and isinstance(n.value, ast.Call) and len(n.value.args) == 1 and norm(n.value.args[0]) == norm(n.targets[0]):
                fn = norm(n.value.func).split(".")[-1]
                if fn in _DOMAIN:
                    sites.setdefault((fi.module.name, n.targets[0].attr), []).append((fi, _DOMAIN[fn], n))
    if len(sites) < 25:
        raise AnalysisError("only %d in-place option normalisations found" % len(sites))
    n_use = 0
    for (mname, attr), lst in sorted(sites.items()):
        doms = {d for _, d, _ in lst}
        if len(doms) > 1:
            r.fail("C12.effective", "%s:self.%s:domains" % (mname, attr), "option `%s` is normalised to a bool in one place and to 'yes'/'no' in another" % attr, lst[0][0].loc(lst[0][2]))
            continue
        dom = doms.pop()
        norm_funcs = {fi.key: n.lineno for fi, _, n in lst}
        for fi in p.functions.values():
            if fi.module.name != mname or fi.name == "__init__":
                continue
            for x in walk_function(fi.node):
                if not (isinstance(x, ast.Attribute) and isinstance(x.ctx, ast.Load) and x.attr == attr and norm(x.value) == "self"):
                    continue
                ctxu = _use_context(x)
                if ctxu is None:
                    continue
                n_use += 1
                kk = "%s:self.%s:%s" % (fi.key, attr, ctxu)
                if dom == "str" and ctxu == "truth":
                    r.fail("C12.effective", kk, "`self.%s` is normalised to the strings 'yes'/'no' and then tested for truthiness: 'no' is true as well, so the configured value 'no' is never acted on" % attr, fi.loc(x))
                    continue
                if dom == "bool" and ctxu == "cmp-str":
                    r.fail("C12.effective", kk, "`self.%s` is normalised to a bool and then compared with a string: the comparison is false for every configured value" % attr, fi.loc(x))
                    continue
                # read before normalisation: region selection runs before _analyze
                if fi.name == "_get_tokens_of_interest" and fi.key not in norm_funcs:
                    r.fail("C12.effective", kk + ":raw", "`self.%s` is read in region selection, which runs before the normalisation in %s: the first analysis sees the raw configured value (e.g. a YAML boolean), every later one the normalised value" % (attr, ", ".join(sorted(k.split(':')[-1] for k in norm_funcs))), fi.loc(x))
                    continue
                if fi.key in norm_funcs and x.lineno < norm_funcs[fi.key] and not any(x is y for y in ast.walk([n for f2, _, n in lst if f2 is fi][0])):
                    r.fail("C12.effective", kk + ":raw", "`self.%s` is used before it is normalised in the same function" % attr, fi.loc(x))
                    continue
                r.ok("C12.effective", kk, "use agrees with the normalised domain (%s)" % dom, sample=False)
    r.extra["normalised_option_uses"] = n_use
    r.ok("C12.effective", "normalised-options", "%d in-place yes/no normalisations, %d uses agree with their domain and none reads the raw value first" % (len(sites), n_use))


_R = "vsg/rule.py"
VARIANTS = [
    Variant("C12", "per-file look-up name normalised with pathlib", "fire",
            [("vsg/apply_rules.py", "    sFileName = sFileName.replace(os.sep, \"/\")", "    import pathlib\n\n    sFileName = pathlib.PurePath(sFileName).as_posix()")],
            rule="C12.filelevel", key="lookup-name"),
    Variant("C12", "twin: separator replacement written with a literal back-slash as well", "silent",
            [("vsg/apply_rules.py", "    sFileName = sFileName.replace(os.sep, \"/\")", "    sFileName = sFileName.replace(os.sep, \"/\").replace(\"\\\\\", \"/\")")]),
    Variant("C12", "flattened file-name list drops names it already holds", "fire",
            [("vsg/utils.py", "        else:\n            lReturn.append(dFile)\n\n    return lReturn", "        elif dFile not in lReturn:\n            lReturn.append(dFile)\n\n    return lReturn")],
            rule="C12.filelevel", key="position-preserving"),
    Variant("C12", "twin: flattened file-name list built with a local for the entry's names", "silent",
            [("vsg/utils.py", "        if isinstance(dFile, dict):\n            lReturn.extend(extract_keys_from_dict(dFile))\n        else:\n            lReturn.append(dFile)\n\n    return lReturn", "        if isinstance(dFile, dict):\n            lKeys = extract_keys_from_dict(dFile)\n            lReturn.extend(lKeys)\n        else:\n            lReturn.append(dFile)\n\n    return lReturn")]),
    Variant("C12", "globbed file_list entries share one dictionary", "fire",
            [("vsg/config.py", "            for sGlobbedFilename in glob_filenames(sKey):\n                dTemp = {}\n", "            dTemp = {}\n            for sGlobbedFilename in glob_filenames(sKey):\n")],
            rule="C12.filelevel", key="single-key-entries"),
    Variant("C12", "configured phase stored only when it is one of the first six phases", "fire",
            [("vsg/rule.py", "            if sAttributeName == \"severity\":\n                self.severity = oConfig.severity_list.get_severity_named(oConfig.dConfig[\"rule\"][self.get_unique_id()][\"severity\"])\n", "            if sAttributeName == \"severity\":\n                self.severity = oConfig.severity_list.get_severity_named(oConfig.dConfig[\"rule\"][self.get_unique_id()][\"severity\"])\n            elif sAttributeName == \"phase\":\n                set_phase(self, oConfig.dConfig[\"rule\"][self.get_unique_id()][\"phase\"])\n"),
             ("vsg/rule.py", "def get_rule_identifier(self):", "def set_phase(self, iPhase):\n    if iPhase in range(1, 7):\n        self.phase = iPhase\n\n\ndef get_rule_identifier(self):")], rule="C12.siblings", key="stores-value"),
    Variant("C12", "'yes'/'no' option tested for truthiness", "fire",
            [("vsg/rules/multiline_simple_structure.py", "            if rules_utils.is_single_line(oToi) and self.ignore_single_line == \"yes\":", "            if rules_utils.is_single_line(oToi) and self.ignore_single_line:")], rule="C12.effective"),
    Variant("C12", "region selection reads the raw option before _analyze normalises it", "fire",
            [("vsg/rules/multiline_structure.py", "        self.ignore_single_line = utils.convert_boolean_to_yes_no(self.ignore_single_line)\n        lReturn = []", "        lReturn = []")], rule="C12.effective"),
    Variant("C12", "raw option compared with != 'no' in region selection", "fire",
            [("vsg/rules/multiline_structure.py", "        self.ignore_single_line = utils.convert_boolean_to_yes_no(self.ignore_single_line)\n        lReturn = []", "        lReturn = []"),
             ("vsg/rules/multiline_structure.py", "            if rules_utils.is_single_line(oToi) and self.ignore_single_line == \"yes\":", "            if rules_utils.is_single_line(oToi) and self.ignore_single_line != \"no\":")], rule="C12.effective"),
    Variant("C12", "group applied after rule-specific", "fire",
            [(_R, "        configure_group_rule_attributes(self, oConfig)\n        configure_rule_attributes(self, oConfig)", "        configure_rule_attributes(self, oConfig)\n        configure_group_rule_attributes(self, oConfig)")],
            rule="C12.order"),
    Variant("C12", "file_rules applied before rule section", "fire",
            [("vsg/apply_rules.py", "    configure_rules_per_rule_option(oConfig, oRules)\n    configure_rules_per_file_list_option(oRules, configuration, iIndex, sFileName)\n    configure_rules_per_file_rules_option(oRules, configuration, iIndex, sFileName)",
              "    configure_rules_per_file_rules_option(oRules, configuration, iIndex, sFileName)\n    configure_rules_per_rule_option(oConfig, oRules)\n    configure_rules_per_file_list_option(oRules, configuration, iIndex, sFileName)")],
            rule="C12.order"),
    Variant("C12", "earlier config file wins", "fire",
            [("vsg/config.py", "                try:\n                    dReturn[sKey][sRule] = tempConfiguration[sKey][sRule]\n                except KeyError:",
              "                try:\n                    if sRule not in dReturn[sKey]:\n                        dReturn[sKey][sRule] = tempConfiguration[sKey][sRule]\n                except KeyError:")],
            rule="C12.order", key="merge-conditional"),
    Variant("C12", "validation after configuring", "fire",
            [("vsg/rule_list.py", "            self._validate_configuration_rule_exists(configurationFile)\n            for oRule in self.rules:\n                lDeprecatedMessages.extend(oRule.configure(oConfig))",
              "            for oRule in self.rules:\n                lDeprecatedMessages.extend(oRule.configure(oConfig))\n            self._validate_configuration_rule_exists(configurationFile)")],
            rule="C12.validate", key="validate-dominates"),
    Variant("C12", "per-file config object without severity list", "fire",
            [("vsg/apply_rules.py", "            oRuleConfig.severity_list = oRules.oSeverityList\n", "")], rule="C12.typestate"),
    Variant("C12", "deprecated messages dropped", "fire",
            [("vsg/rule_list.py", "                lDeprecatedMessages.extend(oRule.configure(oConfig))", "                oRule.configure(oConfig)")], rule="C12.validate"),
    Variant("C12", "rule normalises its option in analysis", "fire",
            [("vsg/rules/token_case.py", "        self.oRegex = re.compile(self.regex)", "        self.oRegex = re.compile(self.regex)\n        self.case = self.case.lower()")], rule="C12.effective"),
    Variant("C12", "only the first matching group is applied", "fire",
            [("vsg/rule.py", "            if sGroupName in self.groups:\n                configure_attribute(self, oConfig, sGroupName)\n", "            if sGroupName in self.groups:\n                configure_attribute(self, oConfig, sGroupName)\n                break\n")],
            rule="C12.siblings", key="early-exit"),
    Variant("C12", "unknown-rule validation stops at the first global key", "fire",
            [("vsg/rule_list.py", "            if rule_does_not_exist_in_list(sRule, lRuleNames):\n", "            if is_global_configuration(sRule) or is_group_configuration(sRule):\n                return\n            if sRule not in lRuleNames:\n")], rule="C12.validate", key="early-exit"),
    Variant("C12", "a third pseudo name is exempt from the existence test", "fire",
            [("vsg/rule_list.py", "    if is_group_configuration(sRule):\n        return False\n", "    if is_group_configuration(sRule) or sRule == \"default\":\n        return False\n")], rule="C12.validate", key="exemptions"),
    Variant("C12", "twin: existence helper inlined with continue", "silent",
            [("vsg/rule_list.py", "            if rule_does_not_exist_in_list(sRule, lRuleNames):\n", "            if is_global_configuration(sRule) or is_group_configuration(sRule):\n                continue\n            if sRule not in lRuleNames:\n")]),
    Variant("C12", "twin: reorder independent per-file helpers definition", "silent",
            [("vsg/apply_rules.py", "    sFileName = sFileName.replace(os.sep, \"/\")\n\n    configure_rules_per_rule_option", "    sFileName = sFileName.replace(os.sep, \"/\")\n    configure_rules_per_rule_option")]),
]
