# -*- coding: utf-8 -*-
import os

from .callgraph import CallGraph
from .model import Program
from .ruletable import RuleTable

REPO = os.environ.get("VSG_SA_REPO", "/repo")


class Ctx:
    def __init__(self, repo=None, tier="quick", seed=0, overlay=None, conservative=False):
        self.overlay = overlay
        self.conservative = conservative
        self.repo = repo or REPO
        self.tier = tier
        self.seed = seed
        self._p = None
        self._rt = None
        self._cg = {}

    @property
    def thorough(self):
        return self.tier == "thorough"

    @property
    def program(self):
        if self._p is None:
            self._p = Program(self.repo, overlay=self.overlay)
        return self._p

    @property
    def ruletable(self):
        if self._rt is None:
            self._rt = RuleTable(self.program)
            self._rt.check_floors()
        return self._rt

    def callgraph(self, conservative=None):
        if conservative is None:
            conservative = self.conservative
        if conservative not in self._cg:
            self._cg[conservative] = CallGraph(self.program, conservative=conservative)
        return self._cg[conservative]
