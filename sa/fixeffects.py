# -*- coding: utf-8 -*-
"""
Effect signature of a rule's fix: what `_fix_violation` (and everything it may call) can do to the
region of interest it was handed.

For a provider function F of `_fix_violation` the analysis walks the may-call graph from F and
collects, with the call path:

  CONSTRUCT(class)     a token class of the program is instantiated (new token that can enter the file)
  STRUCT(kind)         the *structure* of a token list that may alias the violation's token list is
                       changed: insert/append/pop/remove/extend/reverse/sort/clear, del, slice store,
                       `+=`; or set_tokens() is given a list that is not the very list obtained from
                       get_tokens() (a rebuilt list: slice, concatenation, fresh list)
  REPLACE              an element of such a list is replaced (lTokens[i] = x): same length
  SETVAL(kind, expr)   token.set_value(expr) with expr classified:
                         WS        only spaces/tabs by construction (" " * n, "\t" * n, "", their
                                   concatenations/conditionals, a value read from an action key that is
                                   only ever written with WS in the same module)
                         ACTION    read out of the violation's action dictionary (dAction[..]) - the
                                   analysis side decided it
                         OTHER     anything else

Token lists that may alias the violation's list are tracked with the alias summaries (origin TOI =
result of <violation>.get_tokens()), through helper calls (parameters that receive a TOI-origin list).
"""

import ast

from .model import local_names, norm, walk_function
from .mutation import mutation_sites

STRUCT_METHODS = {"insert", "append", "pop", "remove", "extend", "reverse", "sort", "clear"}


class Effect:
    __slots__ = ("kind", "detail", "fi", "node", "path", "extra")

    def __init__(self, kind, detail, fi, node, path, extra=None):
        self.kind = kind
        self.detail = detail
        self.fi = fi
        self.node = node
        self.path = path
        self.extra = extra

    @property
    def key(self):
        return "%s:%s" % (self.fi.key, norm(self.node)[:100])


def is_ws_expr(e, fi=None, ws_names=()):
    """Expression evaluates to a string of spaces/tabs only, by construction."""
    if isinstance(e, ast.Constant):
        return isinstance(e.value, str) and e.value.strip(" \t") == ""
    if isinstance(e, ast.BinOp) and isinstance(e.op, ast.Mult):
        return (is_ws_expr(e.left, fi, ws_names) and not isinstance(e.right, ast.Constant)) or (is_ws_expr(e.right, fi, ws_names) and not isinstance(e.left, ast.Constant)) or (
            is_ws_expr(e.left, fi, ws_names) and isinstance(e.right, ast.Constant) and isinstance(e.right.value, int)
        ) or (is_ws_expr(e.right, fi, ws_names) and isinstance(e.left, ast.Constant) and isinstance(e.left.value, int))
    if isinstance(e, ast.BinOp) and isinstance(e.op, ast.Add):
        return is_ws_expr(e.left, fi, ws_names) and is_ws_expr(e.right, fi, ws_names)
    if isinstance(e, ast.IfExp):
        return is_ws_expr(e.body, fi, ws_names) and is_ws_expr(e.orelse, fi, ws_names)
    if isinstance(e, ast.Name) and e.id in ws_names:
        return True
    if isinstance(e, ast.Call) and isinstance(e.func, ast.Attribute) and e.func.attr in ("ljust", "rjust", "center") and is_ws_expr(e.func.value, fi, ws_names):
        return True
    return False


def ws_locals(fi):
    """Local names all of whose assignments are WS expressions (fixpoint)."""
    binds = {}
    for n in walk_function(fi.node):
        if isinstance(n, ast.Assign) and len(n.targets) == 1 and isinstance(n.targets[0], ast.Name):
            binds.setdefault(n.targets[0].id, []).append(n.value)
        elif isinstance(n, ast.AugAssign) and isinstance(n.target, ast.Name):
            binds.setdefault(n.target.id, []).append(n.value if isinstance(n.op, ast.Add) else None)
        elif isinstance(n, (ast.For,)):
            for x in ast.walk(n.target):
                if isinstance(x, ast.Name):
                    binds.setdefault(x.id, []).append(None)
    ws = set()
    changed = True
    while changed:
        changed = False
        for k, vals in binds.items():
            if k in ws or k in fi.params:
                continue
            if vals and all(v is not None and is_ws_expr(v, fi, ws) for v in vals):
                ws.add(k)
                changed = True
    return ws


def _concat(e):
    if isinstance(e, ast.BinOp) and isinstance(e.op, ast.Add):
        return _concat(e.left) + _concat(e.right)
    return [e]


class FixEffects:
    def __init__(self, ctx, summaries):
        self.ctx = ctx
        self.p = ctx.program
        self.cg = ctx.callgraph()
        self.summ = summaries
        self.item = self.p.cls("vsg.parser:item")
        self._cache = {}
        self._action_ws_cache = {}

    # ------------------------------------------------------------------
    def token_class(self, fi, call, locs):
        f = call.func
        if not isinstance(f, (ast.Name, ast.Attribute)):
            return None
        ent = self.p.resolve_expr(fi.module, f, local_names=locs)
        if ent and ent[0] == "class" and self.item in ent[1].mro:
            return ent[1]
        return None

    def _is_method(self, fi, name):
        """`self.name(...)` inside fi: is `name` a method somewhere in the rule hierarchy (then it is an ordinary call)?"""
        rc = self.p.classes.get("vsg.rule:Rule")
        if fi.cls is not None:
            if fi.cls.find_method(name) is not None:
                return True
            for sc in fi.cls.all_subclasses():
                if name in sc.methods:
                    return True
            return False
        if rc is not None:
            for ci in [rc] + rc.all_subclasses():
                if name in ci.methods:
                    return True
        return False

    def effects_of(self, provider):
        """All effects reachable from `provider` (a FuncInfo). Cached."""
        if provider.key in self._cache:
            return self._cache[provider.key]
        reach = self.cg.reachable([provider])
        out = []
        # which (function, parameter) pairs may hold a TOI-origin list: propagate from the provider
        toi_params = self._toi_params(provider, reach)
        for k in sorted(reach):
            fi = self.p.functions[k]
            if fi.module.name in ("vsg.parser", "vsg.violation", "vsg.vhdlFile.extract.tokens"):
                continue
            path = [x[0] for x in self.cg.path(reach, k)]
            locs = local_names(fi.node)
            ws = ws_locals(fi)
            toi_names = self._toi_names(fi, toi_params)
            for n in walk_function(fi.node):
                if isinstance(n, ast.Call):
                    tc = self.token_class(fi, n, locs)
                    if tc is not None:
                        out.append(Effect("CONSTRUCT", tc.key, fi, n, path, extra=tc))
                    # construction through a rule attribute holding a token class: self.insert_token(value)
                    if isinstance(n.func, ast.Attribute) and isinstance(n.func.value, ast.Name) and n.func.value.id == "self" and not self._is_method(fi, n.func.attr):
                        out.append(Effect("CONSTRUCT-ATTR", n.func.attr, fi, n, path, extra=n.args[0] if n.args else None))
                    # duplication of existing tokens
                    if norm(n.func) in ("copy.deepcopy", "copy.copy", "deepcopy") and n.args:
                        out.append(Effect("COPY", norm(n.args[0])[:40], fi, n, path))
                    if isinstance(n.func, ast.Attribute) and n.func.attr == "set_value" and n.args:
                        ent = self.p.resolve_expr(fi.module, n.func, local_names=locs)
                        if ent is not None and ent[0] == "func" and ent[1].cls is None:
                            continue
                        out.append(Effect("SETVAL", self._classify_value(fi, n.args[0], ws), fi, n, path, extra=n.args[0]))
                    if isinstance(n.func, ast.Attribute) and n.func.attr == "set_tokens" and n.args:
                        a = n.args[0]
                        same = isinstance(a, ast.Name) and a.id in toi_names and toi_names[a.id] == "direct"
                        if not same:
                            out.append(Effect("STRUCT", "set_tokens(%s): rebuilt list" % norm(a)[:60], fi, n, path))
            for m in mutation_sites(fi):
                if m.root is None or m.root not in toi_names:
                    continue
                if m.kind == "method" and not m.path and m.method in STRUCT_METHODS:
                    out.append(Effect("STRUCT", "%s.%s()" % (m.root, m.method), fi, m.node, path))
                elif m.kind == "item-store" and not m.path:
                    tgt = None
                    if isinstance(m.node, ast.Assign):
                        for t in m.node.targets:
                            if isinstance(t, ast.Subscript):
                                tgt = t
                    elif isinstance(m.node, ast.Delete):
                        out.append(Effect("STRUCT", "del %s[..]" % m.root, fi, m.node, path))
                        continue
                    if tgt is not None and isinstance(tgt.slice, ast.Slice):
                        out.append(Effect("STRUCT", "%s[a:b] = ..." % m.root, fi, m.node, path))
                    else:
                        out.append(Effect("REPLACE", "%s[i] = ..." % m.root, fi, m.node, path))
                elif m.kind == "aug" and not m.path:
                    out.append(Effect("STRUCT", "%s += [...]" % m.root, fi, m.node, path))
        self._cache[provider.key] = out
        return out

    # ------------------------------------------------------------------
    def _toi_source(self, fi, e):
        if isinstance(e, ast.Call) and isinstance(e.func, ast.Attribute) and e.func.attr == "get_tokens":
            return "TOI"
        return None

    def _toi_names(self, fi, toi_params):
        """name -> 'direct' (the very list returned by get_tokens()/received as a TOI parameter)."""
        org = self.summ.origins(fi, self._toi_source)
        out = {}
        for name, tags in org.items():
            if "TOI" in tags:
                out[name] = "direct"
            for t in tags:
                if isinstance(t, tuple) and t[0] == "param" and (fi.key, t[1]) in toi_params:
                    out[name] = "direct"
        return out

    def _toi_params(self, provider, reach):
        """(func key, param index) pairs that may receive a list aliasing a violation's token list."""
        tp = set()
        changed = True
        rounds = 0
        while changed and rounds < 8:
            changed = False
            rounds += 1
            for k in reach:
                fi = self.p.functions[k]
                names = self._toi_names(fi, tp)
                if not names:
                    continue
                for s in self.cg.sites.get(k, ()):
                    if s.kind != "resolved":
                        continue
                    for i, a in enumerate(s.node.args):
                        if isinstance(a, ast.Name) and a.id in names:
                            for t in s.targets:
                                j = self.summ.param_index_for_arg(fi, s.node, t, i)
                                if (t.key, j) not in tp and t.key in reach:
                                    tp.add((t.key, j))
                                    changed = True
        return tp

    def _classify_value(self, fi, e, ws):
        if is_ws_expr(e, fi, ws):
            return "WS"
        # text[0:k] + <whitespace> + text[k:]  where text is the token's own value: only whitespace is added
        src = e
        hops = 0
        while isinstance(src, ast.Name) and hops < 3:
            vals = [n.value for n in walk_function(fi.node) if isinstance(n, ast.Assign) and len(n.targets) == 1 and isinstance(n.targets[0], ast.Name) and n.targets[0].id == src.id]
            if len(vals) != 1:
                break
            src = vals[0]
            hops += 1
        parts = _concat(src)
        if len(parts) >= 3:
            segs = [x for x in parts if isinstance(x, ast.Subscript) and isinstance(x.slice, ast.Slice)]
            rest = [x for x in parts if x not in segs]
            if len(segs) == 2 and all(is_ws_expr(x, fi, ws) for x in rest) and norm(segs[0].value) == norm(segs[1].value):
                a, b = segs
                lo_ok = a.slice.lower is None or (isinstance(a.slice.lower, ast.Constant) and a.slice.lower.value == 0)
                if lo_ok and a.slice.upper is not None and b.slice.lower is not None and norm(a.slice.upper) == norm(b.slice.lower) and b.slice.upper is None and parts.index(a) < parts.index(b):
                    base = a.value
                    bvals = [n.value for n in walk_function(fi.node) if isinstance(n, ast.Assign) and len(n.targets) == 1 and isinstance(n.targets[0], ast.Name) and isinstance(base, ast.Name) and n.targets[0].id == base.id]
                    if len(bvals) == 1 and isinstance(bvals[0], ast.Call) and isinstance(bvals[0].func, ast.Attribute) and bvals[0].func.attr == "get_value":
                        return "WSINS:" + norm(bvals[0].func.value)
        # dAction["k"] / oViolation.get_action()["k"]
        if isinstance(e, ast.Subscript):
            b = e.value
            if isinstance(b, ast.Name) and b.id.startswith(("dAction", "dActions")):
                return "ACTION:%s" % (norm(e.slice))
            if isinstance(b, ast.Call) and isinstance(b.func, ast.Attribute) and b.func.attr == "get_action":
                return "ACTION:%s" % (norm(e.slice))
        if isinstance(e, ast.Call) and isinstance(e.func, ast.Attribute) and e.func.attr in ("lower", "upper") and not e.args:
            return "CASE:" + norm(e.func.value)
        return "OTHER:" + norm(e)[:60]

    # ------------------------------------------------------------------
    def action_key_is_ws(self, module, key):
        """Every write of dAction[key] (or oViolation.set_action({.. key: ..})) in `module` stores a WS expression."""
        ck = (module.name, key)
        if ck in self._action_ws_cache:
            return self._action_ws_cache[ck]
        writes = []
        for fi in self.p.functions.values():
            if fi.module is not module:
                continue
            ws = ws_locals(fi)
            for n in walk_function(fi.node):
                if isinstance(n, ast.Assign) and len(n.targets) == 1 and isinstance(n.targets[0], ast.Subscript) and norm(n.targets[0].slice) == key and isinstance(n.targets[0].value, ast.Name) and n.targets[0].value.id.startswith("dAction"):
                    writes.append(is_ws_expr(n.value, fi, ws))
        res = bool(writes) and all(writes)
        self._action_ws_cache[ck] = (res, len(writes))
        return self._action_ws_cache[ck]
