# -*- coding: utf-8 -*-
"""
Behaviour-preserving whole-tree transformations (applied as an in-memory overlay, nothing is written): every check must
return exactly the same findings as on the plain tree.  A difference is a brittleness defect of the checker.

  reformat   every module replaced by ast.unparse(ast.parse(source)): layout, comments, quote style, redundant
             parentheses and line numbers change
  invert     every `if c: A else: B` (no elif) becomes `if not (c): B else: A`

usage: ./vsgsa invariance            (exit 0 if all checks are invariant, 2 otherwise)
"""
import ast
import os

from .cli import PROPS, load_check
from .context import REPO, Ctx


class _Invert(ast.NodeTransformer):
    def __init__(self):
        self.n = 0

    def visit_If(self, node):
        self.generic_visit(node)
        if node.orelse and not (len(node.orelse) == 1 and isinstance(node.orelse[0], ast.If)):
            self.n += 1
            return ast.If(test=ast.UnaryOp(op=ast.Not(), operand=node.test), body=node.orelse, orelse=node.body)
        return node


def _overlays():
    plain, inverted = {}, {}
    inv = _Invert()
    for dp, dn, fn in os.walk(os.path.join(REPO, "vsg")):
        for f in fn:
            if f.endswith(".py"):
                path = os.path.join(dp, f)
                rel = os.path.relpath(path, REPO)
                with open(path, encoding="utf-8") as fh:
                    src = fh.read()
                try:
                    tree = ast.parse(src)
                except SyntaxError:
                    continue
                plain[rel] = ast.unparse(tree) + "\n"
                t2 = inv.visit(ast.parse(src))
                ast.fix_missing_locations(t2)
                inverted[rel] = ast.unparse(t2) + "\n"
    return {"reformat": plain, "invert": inverted}, inv.n


def run():
    import warnings

    warnings.simplefilter("ignore", SyntaxWarning)
    overlays, n_inv = _overlays()
    print("invariance: %d modules, %d if/else inverted" % (len(overlays["reformat"]), n_inv))
    bad = 0
    for pid in PROPS:
        try:
            mod = load_check(pid)
        except ImportError:
            continue
        base = sorted((f.rule, f.key) for f in mod.run(Ctx()).findings)
        for name, ov in overlays.items():
            try:
                got = sorted((f.rule, f.key) for f in mod.run(Ctx(overlay=ov)).findings)
            except Exception as e:  # noqa
                print("invariance %s %-8s ERROR %s: %s" % (pid, name, type(e).__name__, str(e)[:150]))
                bad += 1
                continue
            if got == base:
                print("invariance %s %-8s same (%d finding(s))" % (pid, name, len(base)))
            else:
                bad += 1
                print("invariance %s %-8s DIFFERENT: only plain %s ; only transformed %s" % (pid, name, [k for k in base if k not in got][:3], [k for k in got if k not in base][:3]))
    print("invariance: %s" % ("all checks invariant" if not bad else "%d difference(s)" % bad))
    return 0 if not bad else 2
