# -*- coding: utf-8 -*-
"""
In-place mutation sites and a small may-alias classification of their receivers.

mutation_sites(fi) yields Mut objects for every statement/expression in fi that mutates an existing
object in place:
    attr-store     X.a = v / X.a += v / del X.a
    item-store     X[k] = v / X[k] += v / del X[k]
    method         X.append(..) / extend / insert / pop / remove / sort / reverse / clear /
                   update / setdefault / popitem / add / discard  (container mutators)
    aug            X += v where X is a Name bound to a list/dict (in-place for lists)
`recv` is the receiver expression X, `root` the leftmost Name of X and `path` the attribute/subscript
chain, e.g. self.lAllowTokens.append(..) -> root 'self', path ['.lAllowTokens'].

Freshness (per function, flow-insensitive unless stated): a local Name is FRESH when every
assignment to it in the function is a fresh expression: a list/dict/set/tuple display, a
comprehension, a call to list/dict/set/sorted/copy/deepcopy, `.copy()`, a slice `a[i:j]`, a `+`
of lists, a string operation, or the construction of a class of the analysed program.
"""

import ast

from .model import walk_function, norm

CONTAINER_MUTATORS = {
    "append", "extend", "insert", "pop", "remove", "sort", "reverse", "clear", "update", "setdefault", "popitem", "add", "discard",
}
FRESH_CALLS = {"list", "dict", "set", "sorted", "tuple", "frozenset", "str", "int", "bool", "len", "range", "enumerate", "zip", "reversed", "deepcopy", "copy"}


class Mut:
    __slots__ = ("fi", "node", "kind", "recv", "root", "path", "method")

    def __init__(self, fi, node, kind, recv, method=None):
        self.fi = fi
        self.node = node
        self.kind = kind
        self.recv = recv
        self.method = method
        self.root, self.path = root_and_path(recv)

    @property
    def key(self):
        return "%s:%s" % (self.fi.key, norm(self.node))


def root_and_path(e):
    path = []
    cur = e
    while True:
        if isinstance(cur, ast.Attribute):
            path.append("." + cur.attr)
            cur = cur.value
        elif isinstance(cur, ast.Subscript):
            path.append("[]")
            cur = cur.value
        elif isinstance(cur, ast.Call) and isinstance(cur.func, ast.Attribute):
            path.append("()" + cur.func.attr)
            cur = cur.func.value
        else:
            break
    path.reverse()
    if isinstance(cur, ast.Name):
        return cur.id, path
    return None, path


def mutation_sites(fi):
    out = []
    for n in walk_function(fi.node):
        if isinstance(n, ast.Assign):
            for t in n.targets:
                for tt in t.elts if isinstance(t, (ast.Tuple, ast.List)) else [t]:
                    if isinstance(tt, ast.Attribute):
                        out.append(Mut(fi, n, "attr-store", tt.value, tt.attr))
                    elif isinstance(tt, ast.Subscript):
                        out.append(Mut(fi, n, "item-store", tt.value))
        elif isinstance(n, ast.AugAssign):
            t = n.target
            if isinstance(t, ast.Attribute):
                out.append(Mut(fi, n, "attr-store", t.value, t.attr))
            elif isinstance(t, ast.Subscript):
                out.append(Mut(fi, n, "item-store", t.value))
            elif isinstance(t, ast.Name) and isinstance(n.op, ast.Add) and isinstance(n.value, (ast.List, ast.ListComp)):
                out.append(Mut(fi, n, "aug", t))
        elif isinstance(n, ast.Delete):
            for t in n.targets:
                if isinstance(t, ast.Attribute):
                    out.append(Mut(fi, n, "attr-store", t.value, t.attr))
                elif isinstance(t, ast.Subscript):
                    out.append(Mut(fi, n, "item-store", t.value))
        elif isinstance(n, ast.Call) and isinstance(n.func, ast.Attribute) and n.func.attr in CONTAINER_MUTATORS:
            out.append(Mut(fi, n, "method", n.func.value, n.func.attr))
    return out


def is_fresh_expr(e, program=None, module=None, fresh_names=()):
    if e is None:
        return False
    if isinstance(e, (ast.List, ast.Dict, ast.Set, ast.Tuple, ast.ListComp, ast.DictComp, ast.SetComp, ast.GeneratorExp, ast.Constant, ast.JoinedStr)):
        return True
    if isinstance(e, ast.Subscript) and isinstance(e.slice, ast.Slice):
        return True
    if isinstance(e, ast.BinOp) and isinstance(e.op, (ast.Add, ast.Mult, ast.Mod)):
        return True
    if isinstance(e, ast.Name) and e.id in fresh_names:
        return True
    if isinstance(e, ast.IfExp):
        return is_fresh_expr(e.body, program, module, fresh_names) and is_fresh_expr(e.orelse, program, module, fresh_names)
    if isinstance(e, ast.Call):
        f = e.func
        if isinstance(f, ast.Name) and f.id in FRESH_CALLS:
            return True
        if isinstance(f, ast.Attribute) and f.attr in ("copy", "deepcopy", "split", "splitlines", "join", "lower", "upper", "strip", "replace", "keys", "values", "items", "format"):
            return True
        if program is not None and module is not None and isinstance(f, (ast.Name, ast.Attribute)):
            ent = program.resolve_expr(module, f)
            if ent and ent[0] == "class":
                return True
    return False


def fresh_locals(fi, program=None):
    """Names all of whose bindings in the function are fresh expressions (fixpoint over Name->Name)."""
    binds = {}
    params = set(fi.params) | set(fi.kwonly)
    if fi.vararg:
        params.add(fi.vararg)
    if fi.kwarg:
        params.add(fi.kwarg)
    for n in walk_function(fi.node):
        if isinstance(n, ast.Assign):
            for t in n.targets:
                if isinstance(t, ast.Name):
                    binds.setdefault(t.id, []).append(n.value)
                elif isinstance(t, (ast.Tuple, ast.List)):
                    for x in t.elts:
                        if isinstance(x, ast.Name):
                            binds.setdefault(x.id, []).append(None)
        elif isinstance(n, ast.AnnAssign) and isinstance(n.target, ast.Name):
            binds.setdefault(n.target.id, []).append(n.value)
        elif isinstance(n, ast.AugAssign) and isinstance(n.target, ast.Name):
            binds.setdefault(n.target.id, []).append(ast.BinOp(left=n.target, op=n.op, right=n.value))
        elif isinstance(n, (ast.For, ast.comprehension)):
            for x in ast.walk(n.target):
                if isinstance(x, ast.Name):
                    binds.setdefault(x.id, []).append(None)
        elif isinstance(n, ast.With):
            for it in n.items:
                if it.optional_vars is not None:
                    for x in ast.walk(it.optional_vars):
                        if isinstance(x, ast.Name):
                            binds.setdefault(x.id, []).append(None)
    fresh = set()
    changed = True
    while changed:
        changed = False
        for name, vals in binds.items():
            if name in fresh or name in params:
                continue
            if vals and all(v is not None and is_fresh_expr(v, program, fi.module, fresh) for v in vals):
                fresh.add(name)
                changed = True
    return fresh, binds
