# -*- coding: utf-8 -*-
"""Regenerates /verif/MANIFEST.json from the META blocks of the check modules (`./vsgsa manifest`)."""
import importlib
import json
import os

from .report import VERIF

NOT_APPLICABLE = {
    "C07": "relates two run-time integers (the reported line vs the line update() will change) for every input; the only structural residue (violation.New takes its line from the TOI) has no discriminating power, and the useful structural half (no line-count change in phases 2/4/5/6) is decided under C03. No sound static argument in reach bounds the run-time relation; not switching technique.",
    "C09": "convergence/idempotence of the composition of ~960 value-dependent token rewrites is a fixpoint property of run-time values with no finite structural witness in the source; its necessary structural conditions (later phases do not add/remove line breaks or code) are decided under C03. Not applicable to static analysis.",
}


def build():
    from .cli import PROPS

    checks = []
    na = []
    for pid in PROPS:
        try:
            mod = importlib.import_module("sa.checks.%s" % pid.lower())
        except ImportError:
            mod = None
        if mod is None or not hasattr(mod, "META"):
            reason = NOT_APPLICABLE.get(pid, "check not built yet in this revision (static-analysis design in DESIGN.md section 2)")
            na.append({"property_id": pid, "reason": reason})
            continue
        m = mod.META
        checks.append(
            {
                "property_id": pid,
                "quick_cmd": "./vsgsa check %s" % pid,
                "thorough_cmd": "./vsgsa check %s --thorough" % pid,
                "evidence_file": "/verif/evidence/%s.json" % pid,
                "replay_cmd_template": "./vsgsa explain {path}",
                "engine": "vsgsa",
                "level_claimed": {"category": getattr(mod, "LEVEL", "other"), "text": m["level_text"], "design_ref": m.get("design_ref", "DESIGN.md section 2 / " + pid)},
                "level_note": m["level_note"],
                "technique": m["technique"],
            }
        )
    man = {
        "version": 1,
        "setup_cmd": "./vsgsa setup",
        "hooks": {
            "guard": "VSG_VERIF",
            "enable": "none needed: the checks read /repo's source with ast on every run; no hook is compiled into the repository",
            "baseline_off_cmd": "cd /repo && /venv/bin/python -m pytest -ra -q -p no:cacheprovider --timeout=900 --continue-on-collection-errors",
            "source_commits": _source_commits(),
            "add_only": True,
        },
        "engines": [
            {
                "name": "vsgsa",
                "path": "/verif/sa",
                "serves_properties": [c["property_id"] for c in checks],
                "kind_free_text": "repository-specific static analyser (pure stdlib ast): program model with import/class resolution, static rule table by abstract interpretation of rule constructors, class-hierarchy call graph, structured-flow dominance, effect/alias analyses, small abstract interpreters; seeded-variant self-test",
            }
        ],
        "checks": checks,
        "notes": "Technique family: static analysis only. Quick = rules on the precise call graph; thorough = the same rules, then a second pass over the name-based conservative call graph whose additional reports are listed as unproven (it over-approximates dispatch too much to alarm on), then the both-ways seeded-variant self-test of that property's rules. Exit 2 + ANALYSIS-ERROR means the analyser could not do its job (vanished anchor / floor not met), never a silent pass. Known findings: /verif/known_findings.json.",
        "not_applicable": na,
    }
    with open(os.path.join(VERIF, "MANIFEST.json"), "w") as fh:
        json.dump(man, fh, indent=1)
        fh.write("\n")
    return man


def _source_commits():
    p = os.path.join(VERIF, "source_commits.json")
    if os.path.exists(p):
        with open(p) as fh:
            return json.load(fh)
    return []
