# -*- coding: utf-8 -*-
"""
Both-ways self-test of the armed rules.

Each check module may define VARIANTS: a list of Variant.  A variant is a single small edit of the
*current* /repo source, applied in memory as an overlay (nothing is written into /repo or /verif;
this is the scratch copy of DESIGN.md section 1.9 without the disk traffic):

  kind="fire"    the edit breaks the rule; the check must report a NEW finding whose rule id equals
                 `rule` and whose construct key contains `key`;
  kind="silent"  a behaviour-preserving twin; the check must report nothing new.

A variant whose anchor text no longer occurs exactly once is SKIPPED (reported, not failed): the
self-test tests the checker, it is not a property of the repository.
"""

import importlib
import multiprocessing
import os
import sys
import time
import traceback

from . import report
from .context import REPO, Ctx


class Variant:
    def __init__(self, pid, name, kind, edits, rule=None, key=None, new_files=None, why=""):
        self.pid = pid
        self.name = name
        self.kind = kind
        self.edits = edits  # [(relpath, old, new)]
        self.rule = rule
        self.key = key
        self.new_files = new_files or {}
        self.why = why


def _apply(v, repo):
    overlay = {}
    for rel, old, new in v.edits:
        path = os.path.join(repo, rel)
        if rel in overlay:
            src = overlay[rel]
        else:
            if not os.path.exists(path):
                return None, "file %s missing" % rel
            with open(path, encoding="utf-8") as fh:
                src = fh.read()
        if src.count(old) != 1:
            return None, "anchor occurs %d times in %s" % (src.count(old), rel)
        src = src.replace(old, new)
        try:
            compile(src, rel, "exec")
        except SyntaxError as e:
            return None, "variant does not compile: %s" % e
        overlay[rel] = src
    for rel, src in v.new_files.items():
        try:
            compile(src, rel, "exec")
        except SyntaxError as e:
            return None, "variant file does not compile: %s" % e
        overlay[rel] = src
    return overlay, None


def _run_one(args):
    pid, idx = args
    try:
        mod = importlib.import_module("sa.checks.%s" % pid.lower())
        v = mod.VARIANTS[idx]
        overlay, err = _apply(v, REPO)
        if overlay is None:
            if "does not compile" in err:
                return (pid, v.name, "ERROR", err)
            return (pid, v.name, "SKIP", err)
        ctx = Ctx(tier="quick", overlay=overlay)
        try:
            res = mod.run(ctx)
        except Exception as e:  # analysis error on a variant
            if v.kind == "fire" and v.rule == "ANALYSIS-ERROR":
                return (pid, v.name, "PASS", "analysis refused the variant: %s" % e)
            return (pid, v.name, "FAIL", "analyser raised %s: %s" % (type(e).__name__, e))
        known = {(k["rule"], k["construct_key"]) for k in report.load_known_findings() if k.get("property") == pid and k.get("status") == "known"}
        new = [f for f in res.findings if (f.rule, f.key) not in known]
        if v.kind == "silent":
            if new:
                return (pid, v.name, "FAIL", "false alarm on behaviour-preserving twin: %s %s" % (new[0].rule, new[0].key))
            return (pid, v.name, "PASS", "silent")
        hit = [f for f in new if (v.rule is None or f.rule == v.rule) and (v.key is None or v.key in f.key)]
        if hit:
            return (pid, v.name, "PASS", "fired: %s %s" % (hit[0].rule, hit[0].key))
        if new:
            return (pid, v.name, "FAIL", "fired, but not on the seeded construct: %s %s" % (new[0].rule, new[0].key))
        return (pid, v.name, "FAIL", "missed")
    except Exception:
        return (pid, "variant#%d" % idx, "ERROR", traceback.format_exc())


def run(pids, jobs=16, verbose=True):
    from .cli import PROPS

    if not pids:
        pids = PROPS
    work = []
    for pid in pids:
        try:
            mod = importlib.import_module("sa.checks.%s" % pid.lower())
        except ImportError:
            continue
        for i, _ in enumerate(getattr(mod, "VARIANTS", [])):
            work.append((pid, i))
    if not work:
        print("selftest: no variants for %s" % ",".join(pids))
        return 0
    t0 = time.time()
    # warm the parse cache once so forked workers share it
    Ctx().program
    with multiprocessing.get_context("fork").Pool(min(jobs, len(work))) as pool:
        results = pool.map(_run_one, work, chunksize=1)
    bad = 0
    counts = {}
    for pid, name, status, msg in results:
        counts[status] = counts.get(status, 0) + 1
        if status in ("FAIL", "ERROR"):
            bad += 1
        if verbose or status != "PASS":
            print("selftest %-4s %-5s %-55s %s" % (pid, status, name, msg))
    print("selftest: %d variants, %s in %.1fs" % (len(results), ", ".join("%s=%d" % kv for kv in sorted(counts.items())), time.time() - t0))
    if bad:
        print("ANALYSIS-ERROR selftest: %d variant(s) not handled as specified (checker defect, not a property violation)" % bad)
        return 2
    return 0
