# -*- coding: utf-8 -*-
"""
Whole-program function summaries (fixpoints over the may-call graph) and a per-function
flow-insensitive may-alias map used by the effect checks.

  returns_param[f]  parameter indices whose object may be returned by f (directly, through a
                    local alias, or through a callee that returns its argument)
  mutates_param[f]  parameter indices whose object may be mutated in place by f or a callee
                    (container mutators, item/attr stores, del, `+=` on a list)

`origins(fi, source)` maps every local name of fi to the set of origin tags it may alias:
    ("param", i)     the i-th positional parameter (self counted)
    <tag>            whatever `source(fi, expr)` returns for a source expression
Propagation: plain assignment, tuple unpacking of a call is ignored, `x = f(a, b)` takes the origins of
the arguments that f may return, conditional expressions and `or`/`and` take both sides.  Fresh
expressions (displays, comprehensions, copies, slices, concatenations, constructor calls) cut aliasing.
"""

import ast

from .model import walk_function
from .mutation import CONTAINER_MUTATORS, is_fresh_expr, mutation_sites, root_and_path


def _param_index(fi, name):
    try:
        return fi.params.index(name)
    except ValueError:
        return None


def _arg_to_param_index(target, call, i, is_method_call_on_instance):
    """Index into target.params for positional argument i of `call`."""
    if target.cls is not None and target.params and target.params[0] == "self":
        # bound call: self is implicit, unless called as Class.method(self, ...)
        if isinstance(call.func, ast.Attribute) and not is_method_call_on_instance:
            return i
        return i + 1
    return i


class Summaries:
    def __init__(self, program, callgraph):
        self.p = program
        self.cg = callgraph
        self.returns_param = {}
        self.mutates_param = {}
        self._site_index = {}
        for k, sites in callgraph.sites.items():
            self._site_index[k] = {id(s.node): s for s in sites}
        self._compute()

    # ------------------------------------------------------------------
    def site(self, fi, call):
        return self._site_index.get(fi.key, {}).get(id(call))

    def _explicit_self(self, fi, call, target):
        """Class.method(self, ...) style call: first positional argument is the receiver."""
        f = call.func
        if isinstance(f, ast.Attribute) and isinstance(f.value, (ast.Name, ast.Attribute)):
            ent = self.p.resolve_expr(fi.module, f.value)
            return bool(ent and ent[0] == "class")
        return False

    def param_index_for_arg(self, fi, call, target, i):
        if target.cls is not None and target.params and target.params[0] == "self":
            if target.name == "__init__":
                return i + 1
            if self._explicit_self(fi, call, target):
                return i
            if isinstance(call.func, ast.Attribute):
                return i + 1
            return i + 1
        return i

    def _local_alias_params(self, fi):
        """name -> set of param indices it may alias (flow-insensitive, through plain assignments)."""
        al = {}
        for i, pn in enumerate(fi.params):
            al.setdefault(pn, set()).add(i)
        changed = True
        while changed:
            changed = False
            for n in walk_function(fi.node):
                if isinstance(n, ast.Assign) and len(n.targets) == 1 and isinstance(n.targets[0], ast.Name):
                    src = self._expr_params(fi, n.value, al)
                    if src - al.get(n.targets[0].id, set()):
                        al.setdefault(n.targets[0].id, set()).update(src)
                        changed = True
        return al

    def _expr_params(self, fi, e, al):
        if e is None or is_fresh_expr(e, self.p, fi.module):
            return set()
        if isinstance(e, ast.Name):
            return set(al.get(e.id, set()))
        if isinstance(e, ast.IfExp):
            return self._expr_params(fi, e.body, al) | self._expr_params(fi, e.orelse, al)
        if isinstance(e, ast.BoolOp):
            out = set()
            for v in e.values:
                out |= self._expr_params(fi, v, al)
            return out
        if isinstance(e, ast.Call):
            s = self.site(fi, e)
            out = set()
            if s is not None and s.kind == "resolved":
                for t in s.targets:
                    for ri in self.returns_param.get(t.key, ()):
                        for i, a in enumerate(e.args):
                            if self.param_index_for_arg(fi, e, t, i) == ri:
                                out |= self._expr_params(fi, a, al)
                        for kw in e.keywords:
                            if kw.arg and kw.arg in t.params and t.params.index(kw.arg) == ri:
                                out |= self._expr_params(fi, kw.value, al)
            return out
        return set()

    def _compute(self):
        funcs = list(self.p.functions.values())
        for fi in funcs:
            self.returns_param[fi.key] = set()
            self.mutates_param[fi.key] = set()
        # direct facts
        muts = {fi.key: mutation_sites(fi) for fi in funcs}
        changed = True
        rounds = 0
        while changed and rounds < 10:
            changed = False
            rounds += 1
            for fi in funcs:
                al = self._local_alias_params(fi)
                # returns
                ret = set()
                for n in walk_function(fi.node):
                    if isinstance(n, ast.Return) and n.value is not None:
                        vals = n.value.elts if isinstance(n.value, ast.Tuple) else [n.value]
                        for v in vals:
                            ret |= self._expr_params(fi, v, al)
                if ret - self.returns_param[fi.key]:
                    self.returns_param[fi.key] |= ret
                    changed = True
                # mutations
                mp = set()
                for m in muts[fi.key]:
                    if m.root is None:
                        continue
                    if m.kind == "attr-store" and not m.path:
                        # x.a = v : mutates the object x
                        mp |= al.get(m.root, set())
                    elif not m.path:
                        mp |= al.get(m.root, set())
                    # deeper paths (x.a.append) mutate something reachable from x: count as mutation of x too
                    else:
                        mp |= al.get(m.root, set())
                for s in self.cg.sites.get(fi.key, ()):
                    if s.kind != "resolved":
                        continue
                    for t in s.targets:
                        tm = self.mutates_param.get(t.key, ())
                        if not tm:
                            continue
                        for i, a in enumerate(s.node.args):
                            if self.param_index_for_arg(fi, s.node, t, i) in tm:
                                mp |= self._expr_params(fi, a, al) if not isinstance(a, (ast.Attribute, ast.Subscript)) else self._rooted_params(fi, a, al)
                        for kw in s.node.keywords:
                            if kw.arg and kw.arg in t.params and t.params.index(kw.arg) in tm:
                                mp |= self._expr_params(fi, kw.value, al)
                        # receiver of a method that mutates self
                        if 0 in tm and t.cls is not None and isinstance(s.node.func, ast.Attribute) and not self._explicit_self(fi, s.node, t):
                            mp |= self._rooted_params(fi, s.node.func.value, al)
                if mp - self.mutates_param[fi.key]:
                    self.mutates_param[fi.key] |= mp
                    changed = True

    def _rooted_params(self, fi, e, al):
        root, path = root_and_path(e)
        if root is None:
            return set()
        return set(al.get(root, set()))

    # ------------------------------------------------------------------
    def origins(self, fi, source):
        """name -> set(tags); tags from `source(fi, expr)` plus ("param", i)."""
        org = {}
        for i, pn in enumerate(fi.params):
            org.setdefault(pn, set()).add(("param", i))
        changed = True
        rounds = 0
        while changed and rounds < 8:
            changed = False
            rounds += 1
            for n in walk_function(fi.node):
                tgt = None
                val = None
                if isinstance(n, ast.Assign) and len(n.targets) == 1 and isinstance(n.targets[0], ast.Name):
                    tgt, val = n.targets[0].id, n.value
                elif isinstance(n, ast.AnnAssign) and isinstance(n.target, ast.Name) and n.value is not None:
                    tgt, val = n.target.id, n.value
                if tgt is None:
                    continue
                new = self.expr_origins(fi, val, org, source)
                if new - org.get(tgt, set()):
                    org.setdefault(tgt, set()).update(new)
                    changed = True
        return org

    def expr_origins(self, fi, e, org, source):
        if e is None:
            return set()
        tag = source(fi, e)
        if tag is not None:
            return {tag}
        if is_fresh_expr(e, self.p, fi.module):
            return set()
        if isinstance(e, ast.Name):
            return set(org.get(e.id, set()))
        if isinstance(e, ast.IfExp):
            return self.expr_origins(fi, e.body, org, source) | self.expr_origins(fi, e.orelse, org, source)
        if isinstance(e, ast.BoolOp):
            out = set()
            for v in e.values:
                out |= self.expr_origins(fi, v, org, source)
            return out
        if isinstance(e, ast.Call):
            s = self.site(fi, e)
            out = set()
            if s is not None and s.kind == "resolved":
                for t in s.targets:
                    for ri in self.returns_param.get(t.key, ()):
                        for i, a in enumerate(e.args):
                            if self.param_index_for_arg(fi, e, t, i) == ri:
                                out |= self.expr_origins(fi, a, org, source)
                        for kw in e.keywords:
                            if kw.arg and kw.arg in t.params and t.params.index(kw.arg) == ri:
                                out |= self.expr_origins(fi, kw.value, org, source)
            return out
        return set()
