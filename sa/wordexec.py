# -*- coding: utf-8 -*-
"""
Abstract interpreter for *text conservation* of list/string regrouping code (vsg/tokens.py).

A list of strings and a string are both abstracted by their **flat word**: the concatenation of their
text, written as a tuple of atoms.  The interpreter enumerates the syntactic paths of a function body
(conditions it cannot decide are split into both outcomes; the same condition text over the same
variable versions gets the same outcome along one path) and computes the flat word of every variable.
Lists live on a per-path heap so that aliasing (`a = b; a.append(x)`) is modelled.  Nothing of the analysed
program is executed; no solver is involved.

Atoms
  ("B", name)               an opaque base word (the input list IN, a string parameter, a loop element)
  ("SEG", base, lo, hi)     the slice base[lo:hi]; lo/hi are linear forms over opaque integers
                            ("END" for an open upper bound)
  ("C", text)               a string constant
  ("OPQ", n)                an opaque string about which nothing is known (x.lower(), ...): if one reaches
                            the result the proof fails
  ("PRE", k, base) / ("REST", k)   out-list and accumulator after FOLD loop k: PRE + REST == base
Loop rules (each is a proof rule; what it established is reported in `Proof.steps`):
  FOLD     for x in L  (L text): variables assigned in the body get fresh atoms at the loop head;
           with S = flat(out)+acc the body must satisfy S' == S + x on every path and must not leave early.
           Lemmas: (purity) if every piece ever added to acc satisfies predicate P (closed under
           concatenation, false on "") then `not acc.P()` implies acc == "";
           (flag) if on every path `flag is False` implies acc == "" (checked inductively, true initially)
           then a False flag at the loop head gives acc == "".
  WINDOW   i = 0; while i < len(L): out' == out + L[i0:i'] on every path with i' > i0 the new index.
  REBUILD  a loop over non-text data: every text-valued object it rewrites must come out as a contiguous
           re-slicing of itself, V[0:a]+V[a:b]+V[b:]; the ordering facts it needs (0 <= a <= b) are exported
           as side conditions for the caller to discharge.
Function obligations: prove_returns_param(f, k) shows flat(return) == flat(param k) on every path.
"""

import ast
import itertools

from .model import norm


class ProofFailure(Exception):
    pass


# ----------------------------------------------------------------- linear ints
class Lin:
    __slots__ = ("c", "t")

    def __init__(self, c=0, t=None):
        self.c = c
        self.t = dict(t or {})

    def __add__(self, o):
        o = lin(o)
        t = dict(self.t)
        for k, v in o.t.items():
            t[k] = t.get(k, 0) + v
        return Lin(self.c + o.c, {k: v for k, v in t.items() if v})

    def __sub__(self, o):
        o = lin(o)
        return self + Lin(-o.c, {k: -v for k, v in o.t.items()})

    def key(self):
        return (self.c, tuple(sorted(self.t.items())))

    def __eq__(self, o):
        return isinstance(o, Lin) and self.key() == o.key()

    def __ne__(self, o):
        return not self.__eq__(o)

    def __hash__(self):
        return hash(self.key())

    def __repr__(self):
        s = "+".join("%s%s" % ("" if v == 1 else str(v) + "*", k.split("@")[0]) for k, v in sorted(self.t.items()))
        if self.c or not s:
            s = (s + "+" if s else "") + str(self.c)
        return s


def lin(x):
    if isinstance(x, Lin):
        return x
    if isinstance(x, int):
        return Lin(x)
    raise ProofFailure("not an integer expression: %r" % (x,))


END = "END"


class W:
    __slots__ = ("a",)

    def __init__(self, atoms=()):
        self.a = tuple(atoms)

    def __add__(self, o):
        return W(self.a + o.a)

    def __repr__(self):
        return "W%r" % (self.a,)


class Opaque:
    def __init__(self, why=""):
        self.why = why

    def __repr__(self):
        return "Opaque(%s)" % self.why


class BoolV:
    def __init__(self, v):
        self.v = v


class Ref:
    __slots__ = ("id",)

    def __init__(self, i):
        self.id = i


_counter = itertools.count()


def fresh(prefix):
    return "%s#%d" % (prefix, next(_counter))


class Path:
    def __init__(self):
        self.env = {}
        self.ver = {}
        self.facts = {}
        self.empty = set()
        self.pure = {}
        self.side = []
        self.attrs = {}
        self.heap = {}
        self.loop_elem = {}

    def clone(self):
        p = Path()
        p.env = dict(self.env)
        p.ver = dict(self.ver)
        p.facts = dict(self.facts)
        p.empty = set(self.empty)
        p.pure = {k: set(v) for k, v in self.pure.items()}
        p.side = list(self.side)
        p.attrs = dict(self.attrs)
        p.heap = dict(self.heap)
        p.loop_elem = dict(self.loop_elem)
        return p

    def set(self, name, val):
        self.env[name] = val
        self.ver[name] = self.ver.get(name, 0) + 1

    def alloc(self, w):
        i = fresh("h")
        self.heap[i] = w
        return Ref(i)

    def word(self, v):
        """W of a value (dereferencing lists); None if it has none."""
        if isinstance(v, Ref):
            return self.heap.get(v.id)
        if isinstance(v, W):
            return v
        return None


def normalize(word, path, record=True):
    """Drop empty atoms, merge contiguous segments (exporting the ordering facts the merge needs),
    fold PRE+REST and full segments."""
    atoms = [a for a in word.a if a not in path.empty and not (a[0] == "C" and a[1] == "")]
    changed = True
    while changed:
        changed = False
        out = []
        i = 0
        while i < len(atoms):
            a = atoms[i]
            if i + 1 < len(atoms):
                b = atoms[i + 1]
                if a[0] == "SEG" and b[0] == "SEG" and a[1] == b[1] and a[3] != END and a[3] == b[2]:
                    if record:
                        _need_order(path, a[2], a[3])
                        if b[3] != END:
                            _need_order(path, b[2], b[3])
                    out.append(("SEG", a[1], a[2], b[3]))
                    i += 2
                    changed = True
                    continue
                if a[0] == "PRE" and b[0] == "REST" and a[1] == b[1]:
                    out.extend(a[2])
                    i += 2
                    changed = True
                    continue
                if a[0] == "C" and b[0] == "C":
                    out.append(("C", a[1] + b[1]))
                    i += 2
                    changed = True
                    continue
            if a[0] == "SEG" and a[2] == Lin(0) and a[3] == END:
                out.extend(a[1])
                i += 1
                changed = True
                continue
            if a[0] == "PRE" and ("REST", a[1]) in path.empty:
                out.extend(a[2])
                i += 1
                changed = True
                continue
            out.append(a)
            i += 1
        atoms = out
    return tuple(atoms)


def _need_order(path, lo, hi):
    """lo <= hi and lo >= 0 are needed for L[x:lo]+L[lo:hi] == L[x:hi]."""
    d = hi - lo
    if d.t or d.c < 0:
        sc = ("ordered", repr(lo), repr(hi))
        if sc not in path.side:
            path.side.append(sc)
    if lo.t:
        sc = ("nonneg", repr(lo))
        if sc not in path.side:
            path.side.append(sc)
    elif lo.c < 0:
        raise ProofFailure("negative constant slice bound %d" % lo.c)


class Proof:
    def __init__(self):
        self.steps = []
        self.side = []
        self.paths = 0

    def step(self, text):
        if text not in self.steps:
            self.steps.append(text)


def _is_index_search(fn):
    """def f(s): for i in range(len(s)): if <test>: return i   (falls off -> None)"""
    body = [b for b in fn.body if not (isinstance(b, ast.Expr) and isinstance(b.value, ast.Constant))]
    if len(body) != 1 or not isinstance(body[0], ast.For):
        return False
    f = body[0]
    if isinstance(f.iter, ast.Call) and isinstance(f.iter.func, ast.Name) and f.iter.func.id == "range" and isinstance(f.target, ast.Name):
        ivar = f.target.id
    elif isinstance(f.iter, ast.Call) and isinstance(f.iter.func, ast.Name) and f.iter.func.id == "enumerate" and len(f.iter.args) == 1 and isinstance(f.target, ast.Tuple) and len(f.target.elts) == 2 and isinstance(f.target.elts[0], ast.Name):
        ivar = f.target.elts[0].id  # for i, c in enumerate(s): if <test on c>: return i
    else:
        return False
    rets = [n for n in ast.walk(f) if isinstance(n, ast.Return)]
    return bool(rets) and all(isinstance(r.value, ast.Name) and r.value.id == ivar for r in rets)


def _is_pure_predicate(fn):
    """No list growth / attribute stores, has a loop, returns only constants/bools: treated as an opaque predicate."""
    has_loop = any(isinstance(n, (ast.For, ast.While)) for n in ast.walk(fn))
    if not has_loop:
        return False
    for n in ast.walk(fn):
        if isinstance(n, ast.Call) and isinstance(n.func, ast.Attribute) and n.func.attr in ("append", "extend", "insert", "pop", "remove") and isinstance(n.func.value, ast.Name):
            # growing a local is fine for a predicate as long as it is not returned
            pass
        if isinstance(n, ast.Assign) and any(isinstance(t, ast.Attribute) for t in n.targets):
            return False
    rets = [n for n in ast.walk(fn) if isinstance(n, ast.Return)]
    return bool(rets) and all(r.value is None or (isinstance(r.value, ast.Constant) and isinstance(r.value.value, (bool, type(None)))) for r in rets)


class Exec:
    def __init__(self, module_functions, proof, const_names=(), max_depth=8):
        self.funcs = module_functions
        self.proof = proof
        self.const_names = set(const_names)
        self.max_depth = max_depth

    # ------------------------------------------------------------ expressions
    def ev(self, e, path, depth=0):
        if e is None:
            return [(Opaque("None"), path)]
        if isinstance(e, ast.Constant):
            if isinstance(e.value, bool):
                return [(BoolV(e.value), path)]
            if isinstance(e.value, str):
                return [(W((("C", e.value),)), path)]
            if isinstance(e.value, int):
                return [(Lin(e.value), path)]
            return [(Opaque("None"), path)]
        if isinstance(e, ast.Name):
            if e.id in path.env:
                return [(path.env[e.id], path)]
            if e.id in self.const_names:
                return [(Opaque("const:" + e.id), path)]
            raise ProofFailure("unknown name %s" % e.id)
        if isinstance(e, ast.Attribute) and isinstance(e.value, ast.Name) and e.value.id == "self":
            if e.attr in path.attrs:
                return [(path.attrs[e.attr], path)]
            raise ProofFailure("unknown attribute self.%s" % e.attr)
        if isinstance(e, (ast.List, ast.Tuple)):
            states = [(W(), True, path)]
            for el in e.elts:
                nxt = []
                for w, ok, p in states:
                    for v2, p2 in self.ev(el, p, depth):
                        w2 = p2.word(v2)
                        if ok and w2 is not None and not isinstance(v2, Ref):
                            nxt.append((w + w2, True, p2))
                        else:
                            nxt.append((w, False, p2))
                states = nxt
            out = []
            for w, ok, p in states:
                p = p.clone()
                out.append((p.alloc(w) if ok else Opaque("list of non-strings"), p))
            return out
        if isinstance(e, ast.BinOp) and isinstance(e.op, (ast.Add, ast.Sub)):
            res = []
            for a, p in self.ev(e.left, path, depth):
                for b, p2 in self.ev(e.right, p, depth):
                    if isinstance(a, Lin) and isinstance(b, Lin):
                        res.append((a + b if isinstance(e.op, ast.Add) else a - b, p2))
                    elif isinstance(e.op, ast.Add) and p2.word(a) is not None and p2.word(b) is not None:
                        w = p2.word(a) + p2.word(b)
                        if isinstance(a, Ref) or isinstance(b, Ref):
                            p3 = p2.clone()
                            res.append((p3.alloc(w), p3))
                        else:
                            res.append((w, p2))
                    else:
                        res.append((Opaque("binop"), p2))
            return res
        if isinstance(e, ast.Subscript):
            return self._subscript(e, path, depth)
        if isinstance(e, ast.Call):
            return self._call(e, path, depth)
        if isinstance(e, ast.ListComp):
            if len(e.generators) == 1 and isinstance(e.elt, ast.Name) and isinstance(e.generators[0].target, ast.Name) and e.elt.id == e.generators[0].target.id:
                g = e.generators[0]
                ok = bool(g.ifs) and all(
                    isinstance(c, ast.Compare) and len(c.ops) == 1 and isinstance(c.ops[0], ast.NotEq) and norm(c.left) == e.elt.id and isinstance(c.comparators[0], ast.Constant) and c.comparators[0].value == ""
                    for c in g.ifs
                )
                if ok or not g.ifs:
                    self.proof.step("comprehension `%s` keeps every non-empty piece in order" % norm(e))
                    out = []
                    for v, p in self.ev(g.iter, path, depth):
                        w = p.word(v)
                        if w is None:
                            out.append((Opaque("comprehension"), p))
                        else:
                            p = p.clone()
                            out.append((p.alloc(w), p))
                    return out
            return [(Opaque("comprehension"), path)]
        if isinstance(e, (ast.Compare, ast.BoolOp, ast.UnaryOp)):
            return [(BoolV(b), p) for b, p in self.cond(e, path, depth)]
        return [(Opaque(type(e).__name__), path)]

    def _subscript(self, e, path, depth):
        res = []
        for basev, p in self.ev(e.value, path, depth):
            bw = p.word(basev)
            if bw is None:
                key = "%s@%s%d" % (norm(e), _root(e), p.ver.get(_root(e), 0))
                res.append((Lin(0, {key: 1}), p))
                continue
            atoms = normalize(bw, p)
            is_list = isinstance(basev, Ref)
            if isinstance(e.slice, ast.Slice):
                if len(atoms) == 0:
                    res.append(((p.alloc(W()) if is_list else W()), p))
                    continue
                los = self.ev(e.slice.lower, p, depth) if e.slice.lower is not None else [(Lin(0), p)]
                for lo, p1 in los:
                    his = self.ev(e.slice.upper, p1, depth) if e.slice.upper is not None else [(END, p1)]
                    for hi, p2 in his:
                        if e.slice.step is not None or not isinstance(lo, Lin) or not (hi == END or isinstance(hi, Lin)):
                            w = W((("OPQ", fresh("slice")),))
                        else:
                            w = W((("SEG", atoms, lo, hi),))
                        if is_list:
                            p3 = p2.clone()
                            res.append((p3.alloc(w), p3))
                        else:
                            res.append((w, p2))
            else:
                for idx, p1 in self.ev(e.slice, p, depth):
                    if isinstance(idx, Lin):
                        k = (atoms, idx.key())
                        if k in p1.loop_elem:
                            res.append((W((p1.loop_elem[k],)), p1))
                        else:
                            res.append((W((("SEG", atoms, idx, idx + 1),)), p1))
                    else:
                        res.append((W((("OPQ", fresh("idx")),)), p1))
        return res

    def _call(self, e, path, depth):
        f = e.func
        if isinstance(f, ast.Attribute) and f.attr == "join" and isinstance(f.value, ast.Constant) and f.value.value == "" and len(e.args) == 1:
            out = []
            for v, p in self.ev(e.args[0], path, depth):
                w = p.word(v)
                out.append((w if w is not None else Opaque("join"), p))
            return out
        if isinstance(f, ast.Name) and f.id == "len" and len(e.args) == 1:
            out = []
            for v, p in self.ev(e.args[0], path, depth):
                w = p.word(v)
                if w is not None and not isinstance(v, Ref) and not normalize(w, p):
                    out.append((Lin(0), p))
                else:
                    r = _root(e.args[0])
                    out.append((Lin(0, {"len(%s)@%s%d" % (norm(e.args[0]), r, p.ver.get(r, 0)): 1}), p))
            return out
        if isinstance(f, ast.Name) and f.id == "list" and len(e.args) == 1:
            out = []
            for v, p in self.ev(e.args[0], path, depth):
                w = p.word(v)
                if w is None:
                    out.append((Opaque("list"), p))
                else:
                    p = p.clone()
                    out.append((p.alloc(w), p))
            return out
        if isinstance(f, ast.Name) and f.id in ("enumerate", "range"):
            return [(Opaque(f.id), path)]
        if isinstance(f, ast.Attribute) and f.attr in ("lower", "upper", "strip", "rstrip", "lstrip", "replace", "title"):
            return [(W((("OPQ", fresh(f.attr)),)), path)]
        if isinstance(f, ast.Attribute) and f.attr in ("split", "splitlines"):
            return [(Opaque("split"), path)]
        if isinstance(f, ast.Attribute) and f.attr in ("isspace", "isdigit", "startswith", "endswith", "isalpha"):
            return [(BoolV(b), p) for b, p in self.cond(e, path, depth)]
        if isinstance(f, ast.Attribute) and f.attr == "copy" and not e.args:
            out = []
            for v, p in self.ev(f.value, path, depth):
                w = p.word(v)
                if w is None:
                    out.append((Opaque("copy"), p))
                else:
                    p = p.clone()
                    out.append((p.alloc(w), p))
            return out
        if isinstance(f, ast.Name) and f.id in self.funcs:
            fn = self.funcs[f.id]
            if _is_index_search(fn):
                r = _root(e.args[0]) if e.args else "?"
                key = "%s@%s%d" % (norm(e), r, path.ver.get(r, 0))
                sc = ("index-search", f.id, norm(e))
                if sc not in path.side:
                    path = path.clone()
                    path.side.append(sc)
                self.proof.step("`%s` searches an index (>= 0 when found; None if it falls off the end: exported as side condition)" % norm(e))
                return [(Lin(0, {key: 1}), path)]
            if _is_pure_predicate(fn):
                return [(BoolV(b), p) for b, p in self._split(self._key(e, path), path)]
            return self._inline(f.id, e, path, depth)
        # unknown call: evaluate arguments for their own sake, result opaque
        return [(Opaque("call " + norm(f)), path)]

    def _inline(self, name, call, path, depth):
        if depth >= self.max_depth:
            raise ProofFailure("inlining depth exceeded at %s" % name)
        fn = self.funcs[name]
        params = [a.arg for a in fn.args.args]
        states = [([], path)]
        for a in call.args:
            nxt = []
            for vals, p in states:
                for v, p2 in self.ev(a, p, depth):
                    nxt.append((vals + [v], p2))
            states = nxt
        results = []
        for vals, p in states:
            if len(vals) != len(params):
                raise ProofFailure("arity mismatch inlining %s" % name)
            inner = p.clone()
            saved_env, saved_ver = dict(p.env), dict(p.ver)
            inner.env = {}
            inner.ver = {}
            for prm, v in zip(params, vals):
                inner.set(prm, v)
            for kind, p3, val in self.block(fn.body, inner, depth + 1):
                if kind not in ("return", "fall"):
                    raise ProofFailure("unexpected %s leaving %s" % (kind, name))
                back = p3.clone()
                back.env = dict(saved_env)
                back.ver = dict(saved_ver)
                results.append((val if kind == "return" else Opaque("None"), back))
        return results

    # ------------------------------------------------------------- conditions
    def cond(self, e, path, depth=0):
        if isinstance(e, ast.Constant):
            return [(bool(e.value), path)]
        if isinstance(e, ast.UnaryOp) and isinstance(e.op, ast.Not):
            return [(not b, p) for b, p in self.cond(e.operand, path, depth)]
        if isinstance(e, ast.BoolOp):
            is_and = isinstance(e.op, ast.And)
            outs = []
            states = [path]
            for v in e.values:
                nxt = []
                for p in states:
                    for b, p2 in self.cond(v, p, depth):
                        if is_and and not b:
                            outs.append((False, p2))
                        elif (not is_and) and b:
                            outs.append((True, p2))
                        else:
                            nxt.append(p2)
                states = nxt
            for p in states:
                outs.append((is_and, p))
            return outs
        if isinstance(e, ast.Name) and e.id in path.env and isinstance(path.env[e.id], BoolV):
            v = path.env[e.id].v
            if isinstance(v, bool):
                return [(v, path)]
            outs = []
            for b, p in self._split(v, path):
                outs.append((b, p))
            return outs
        if isinstance(e, ast.Call) and isinstance(e.func, ast.Name) and e.func.id in self.funcs and not _is_pure_predicate(self.funcs[e.func.id]) and not _is_index_search(self.funcs[e.func.id]):
            outs = []
            for v, p in self._inline(e.func.id, e, path, depth):
                if isinstance(v, BoolV) and isinstance(v.v, bool):
                    outs.append((v.v, p))
                elif isinstance(v, BoolV):
                    outs.extend(self._split(v.v, p))
                else:
                    outs.extend(self._split(self._key(e, p), p))
            return outs
        emp = self._emptiness(e, path, depth)
        if emp is not None:
            return emp
        if isinstance(e, ast.Call) and isinstance(e.func, ast.Attribute) and e.func.attr in ("isspace", "isdigit", "isalpha") and not e.args:
            outs = []
            for v, p in self.ev(e.func.value, path, depth):
                w = p.word(v)
                if w is None:
                    outs.extend(self._split(self._key(e, p), p))
                    continue
                atoms = normalize(w, p)
                pred = e.func.attr
                if not atoms:
                    outs.append((False, p))
                    continue
                for b, p2 in self._split(self._key(e, p), p):
                    if b:
                        for a in atoms:
                            p2.pure.setdefault(a, set()).add(pred)
                    elif all(pred in p2.pure.get(a, ()) for a in atoms):
                        for a in atoms:
                            p2.empty.add(a)
                        self.proof.step("purity lemma: `%s` is False while every piece ever added satisfies %s, hence it is empty" % (norm(e), pred))
                    outs.append((b, p2))
            return outs
        return self._split(self._key(e, path), path)

    def _emptiness(self, e, path, depth):
        target = None
        empty_when = None
        if isinstance(e, ast.Compare) and len(e.ops) == 1:
            l, r, op = e.left, e.comparators[0], e.ops[0]
            if isinstance(l, ast.Call) and isinstance(l.func, ast.Name) and l.func.id == "len" and isinstance(r, ast.Constant) and r.value == 0 and isinstance(op, (ast.Eq, ast.NotEq, ast.Gt, ast.LtE)):
                target = l.args[0]
                empty_when = isinstance(op, (ast.Eq, ast.LtE))
            elif isinstance(r, ast.Constant) and r.value == "" and isinstance(op, (ast.Eq, ast.NotEq)):
                target = l
                empty_when = isinstance(op, ast.Eq)
        if target is None:
            return None
        outs = []
        for v, p in self.ev(target, path, depth):
            w = p.word(v)
            if w is None:
                outs.extend(self._split(self._key(e, p), p))
                continue
            if isinstance(v, Ref):
                # a list: its length is not determined by its text (it may hold empty strings)
                outs.extend(self._split(self._key(e, p), p))
                continue
            atoms = normalize(w, p)
            if not atoms:
                outs.append((empty_when, p))
                continue
            if any(a[0] == "C" and a[1] != "" for a in atoms):
                outs.append((not empty_when, p))
                continue
            for b, p2 in self._split(self._key(e, p), p):
                if b == empty_when:
                    for a in atoms:
                        p2.empty.add(a)
                outs.append((b, p2))
        return outs

    def _key(self, e, path):
        names = sorted({n.id for n in ast.walk(e) if isinstance(n, ast.Name)})
        return norm(e) + "|" + ",".join("%s%d" % (n, path.ver.get(n, 0)) for n in names)

    def _split(self, key, path):
        if key in path.facts:
            return [(path.facts[key], path)]
        a = path.clone()
        a.facts[key] = True
        b = path.clone()
        b.facts[key] = False
        return [(True, a), (False, b)]

    # -------------------------------------------------------------- statements
    def block(self, stmts, path, depth=0):
        states = [path]
        done = []
        for s in stmts:
            nxt = []
            for p in states:
                for kind, p2, val in self.stmt(s, p, depth):
                    if kind == "fall":
                        nxt.append(p2)
                    else:
                        done.append((kind, p2, val))
            states = nxt
            if len(states) + len(done) > 5000:
                raise ProofFailure("path explosion")
        return done + [("fall", p, None) for p in states]

    def stmt(self, s, path, depth):
        if isinstance(s, ast.Expr) and isinstance(s.value, ast.Constant):
            return [("fall", path, None)]
        if isinstance(s, ast.Pass):
            return [("fall", path, None)]
        if isinstance(s, ast.Assign) and len(s.targets) == 1:
            t = s.targets[0]
            out = []
            for v, p in self.ev(s.value, path, depth):
                p = p.clone()
                if isinstance(t, ast.Name):
                    p.set(t.id, v)
                elif isinstance(t, ast.Attribute) and isinstance(t.value, ast.Name) and t.value.id == "self":
                    p.attrs[t.attr] = v
                elif isinstance(t, ast.Tuple) and all(isinstance(x, ast.Name) for x in t.elts):
                    for x in t.elts:
                        p.set(x.id, Opaque("unpacked"))
                else:
                    raise ProofFailure("unsupported assignment target `%s`" % norm(t))
                out.append(("fall", p, None))
            return out
        if isinstance(s, ast.AugAssign) and isinstance(s.target, ast.Name) and isinstance(s.op, ast.Add):
            out = []
            for v, p in self.ev(s.value, path, depth):
                p = p.clone()
                cur = p.env.get(s.target.id)
                if isinstance(cur, W) and isinstance(v, W):
                    p.set(s.target.id, cur + v)
                elif isinstance(cur, Lin) and isinstance(v, Lin):
                    p.set(s.target.id, cur + v)
                elif isinstance(cur, Ref) and p.word(v) is not None and p.heap.get(cur.id) is not None:
                    p.heap[cur.id] = p.heap[cur.id] + p.word(v)
                else:
                    raise ProofFailure("unsupported `%s`" % norm(s))
                out.append(("fall", p, None))
            return out
        if isinstance(s, ast.Expr) and isinstance(s.value, ast.Call):
            c = s.value
            if isinstance(c.func, ast.Attribute) and c.func.attr in ("append", "extend") and len(c.args) == 1:
                out = []
                for recv, p0 in self.ev(c.func.value, path, depth):
                    for v, p in self.ev(c.args[0], p0, depth):
                        p = p.clone()
                        if isinstance(recv, Ref):
                            w = p.word(v)
                            cur = p.heap[recv.id]
                            if cur is None:
                                pass  # already a list of non-text data
                            elif w is None or (c.func.attr == "append" and isinstance(v, Ref)):
                                # a non-text element (number, pair, flag, nested list) enters the list: it is a data list, not text.
                                # Allowed only while the list holds no text yet (otherwise text and data would be mixed).
                                held = [a for a in normalize(cur, p) if not (a[0] == "B" and a[1].startswith("OUT0:"))]
                                if held:
                                    raise ProofFailure("`%s` mixes text pieces and other data in one list" % norm(s))
                                p.heap[recv.id] = None
                            else:
                                p.heap[recv.id] = cur + w
                        elif isinstance(recv, Opaque):
                            pass
                        else:
                            raise ProofFailure("unsupported `%s`" % norm(s))
                        out.append(("fall", p, None))
                return out
            if isinstance(c.func, ast.Attribute) and c.func.attr in ("reverse", "sort"):
                out = []
                for recv, p in self.ev(c.func.value, path, depth):
                    w = p.word(recv)
                    if w is not None and len(normalize(w, p)) > 0:
                        raise ProofFailure("`%s` reorders a list of text pieces" % norm(s))
                    out.append(("fall", p, None))
                return out
            if isinstance(c.func, ast.Attribute) and c.func.attr in ("pop", "remove", "insert", "clear"):
                for recv, p in self.ev(c.func.value, path, depth):
                    if p.word(recv) is not None:
                        raise ProofFailure("`%s` edits a list of text pieces in a way the conservation argument does not cover" % norm(s))
                return [("fall", path, None)]
            return [("fall", p, None) for v, p in self.ev(c, path, depth)]
        if isinstance(s, ast.If):
            out = []
            for b, p in self.cond(s.test, path, depth):
                out.extend(self.block(s.body if b else s.orelse, p, depth))
            return out
        if isinstance(s, ast.Return):
            if s.value is None:
                return [("return", path, Opaque("None"))]
            return [("return", p, v) for v, p in self.ev(s.value, path, depth)]
        if isinstance(s, ast.Continue):
            return [("continue", path, None)]
        if isinstance(s, ast.Break):
            return [("break", path, None)]
        if isinstance(s, ast.For):
            return self._for(s, path, depth)
        if isinstance(s, ast.While):
            return self._while(s, path, depth)
        raise ProofFailure("unsupported statement `%s`" % norm(s)[:60])

    # -------------------------------------------------------------------- loops
    def _carried_names(self, s, path):
        names = set()
        for st in s.body:
            for n in ast.walk(st):
                if isinstance(n, ast.Name) and isinstance(n.ctx, ast.Store):
                    names.add(n.id)
        tnames = {n.id for n in ast.walk(s.target) if isinstance(n, ast.Name)} if isinstance(s, ast.For) else set()
        return sorted(n for n in names - tnames if n in path.env)

    def _grown_lists(self, s, path):
        """Names (bound to heap lists before the loop) that the body may grow, directly or through helpers."""
        out = set()
        for st in s.body:
            for n in ast.walk(st):
                if isinstance(n, ast.Call) and isinstance(n.func, ast.Attribute) and n.func.attr in ("append", "extend") and isinstance(n.func.value, ast.Name):
                    out.add(n.func.value.id)
                if isinstance(n, ast.AugAssign) and isinstance(n.target, ast.Name):
                    out.add(n.target.id)
                if isinstance(n, ast.Call) and isinstance(n.func, ast.Name) and n.func.id in self.funcs:
                    for a in n.args:
                        if isinstance(a, ast.Name):
                            out.add(a.id)
        return sorted(n for n in out if isinstance(path.env.get(n), Ref))

    def _for(self, s, path, depth):
        enum = isinstance(s.iter, ast.Call) and isinstance(s.iter.func, ast.Name) and s.iter.func.id == "enumerate"
        it_expr = s.iter.args[0] if enum else s.iter
        outs = []
        for it, p in self.ev(it_expr, path, depth):
            w = p.word(it)
            pure_scan = w is not None and not self._grown_lists(s, p) and not [n for n in self._carried_names(s, p) if isinstance(p.env[n], W)]
            if w is not None and not pure_scan:
                outs.extend(self._fold(s, w, p, depth, enum))
            else:
                # (a loop over text that grows no list and carries no string only reads it: elements become opaque values,
                # so anything that tried to emit them would fail the caller's proof)
                outs.extend(self._rebuild(s, p, depth))
        return outs

    def _fold(self, s, itw, path, depth, enum):
        lid = fresh("L")
        base = normalize(itw, path)
        carried = self._carried_names(s, path)
        lists = self._grown_lists(s, path)
        strs = [n for n in carried if isinstance(path.env[n], W)]
        flags = [n for n in carried if isinstance(path.env[n], BoolV)]
        others = [n for n in carried if n not in strs and n not in flags and n not in lists]
        if len(lists) != 1 or len(strs) > 1:
            raise ProofFailure("loop over `%s`: cannot identify one output list and at most one accumulator (lists %s, strings %s)" % (norm(s.iter), lists, strs))
        out_n = lists[0]
        acc_n = strs[0] if strs else None
        pure_preds = set()
        for st in s.body:
            for n in ast.walk(st):
                if isinstance(n, ast.Call) and isinstance(n.func, ast.Attribute) and n.func.attr in ("isspace", "isdigit", "isalpha") and isinstance(n.func.value, ast.Name) and n.func.value.id == acc_n:
                    pure_preds.add(n.func.attr)
        if acc_n and normalize(path.env[acc_n], path):
            raise ProofFailure("accumulator %s is not empty before the loop" % acc_n)
        inv_flag = flags[0] if (len(flags) == 1 and acc_n and path.env[flags[0]].v is False) else None
        head = path.clone()
        OUT0 = ("B", "OUT0:" + lid)
        ACC0 = ("B", "ACC0:" + lid)
        X = ("B", "X:" + lid)
        pre_out = normalize(path.word(path.env[out_n]), path)
        head.set(out_n, head.alloc(W((OUT0,))))
        if acc_n:
            head.set(acc_n, W((ACC0,)))
            for pr in pure_preds:
                head.pure.setdefault(ACC0, set()).add(pr)
        for f in flags:
            head.set(f, BoolV("flag:%s:%s" % (f, lid)))
        for o in others:
            head.set(o, Opaque("carried"))
        if isinstance(s.target, ast.Name):
            head.set(s.target.id, W((X,)))
        elif isinstance(s.target, ast.Tuple) and enum and len(s.target.elts) == 2 and all(isinstance(x, ast.Name) for x in s.target.elts):
            idx = Lin(0, {"idx:" + lid: 1})
            head.set(s.target.elts[0].id, idx)
            head.set(s.target.elts[1].id, W((X,)))
            head.loop_elem[(base, idx.key())] = X
        else:
            raise ProofFailure("unsupported loop target `%s`" % norm(s.target))
        starts = [head]
        if inv_flag is not None:
            starts = []
            for b, p in self._split(head.env[inv_flag].v, head):
                p.env[inv_flag] = BoolV(b)
                if not b:
                    p.empty.add(ACC0)
                starts.append(p)
        n_paths = 0
        scan_paths = 0
        unchanged_paths = 0
        side = []
        for st in starts:
            for kind, p, val in self.block(s.body, st, depth):
                n_paths += 1
                if kind in ("return", "break"):
                    raise ProofFailure("loop over `%s` can leave early (%s): the remaining elements would be dropped" % (norm(s.iter), kind))
                ow = p.word(p.env[out_n])
                aw = p.env[acc_n] if acc_n else W()
                if ow is None and acc_n is None and isinstance(p.env[out_n], Ref):
                    scan_paths += 1
                    continue
                if ow is None or not isinstance(aw, W):
                    raise ProofFailure("loop over `%s`: output list or accumulator is no longer text" % norm(s.iter))
                got = normalize(ow + aw, p)
                want = normalize(W((OUT0,)) + (W((ACC0,)) if acc_n else W()) + W((X,)), p)
                if got == (OUT0,) and acc_n is None:
                    unchanged_paths += 1
                    continue
                if got != want:
                    raise ProofFailure(
                        "loop over `%s`: on one path the pieces become %s but conservation needs %s (a piece is dropped, duplicated, reordered or altered)"
                        % (norm(s.iter), _show(got), _show(want))
                    )
                if acc_n:
                    for pr in pure_preds:
                        for a in normalize(p.env[acc_n], p):
                            if pr not in p.pure.get(a, ()):
                                raise ProofFailure("the argument needs every piece of %s to satisfy %s, which does not hold on one path" % (acc_n, pr))
                if inv_flag is not None:
                    fv = p.env[inv_flag].v
                    if fv is not True and normalize(p.env[acc_n], p):
                        raise ProofFailure("flag invariant (not %s => %s == '') is not preserved on one path" % (inv_flag, acc_n))
                for sc in p.side:
                    if sc not in side:
                        side.append(sc)
        self.proof.paths += n_paths
        if unchanged_paths and not scan_paths:
            raise ProofFailure("loop over `%s`: on %d path(s) the current element is not emitted at all (dropped)" % (norm(s.iter), unchanged_paths))
        if scan_paths:
            if scan_paths + unchanged_paths != n_paths:
                raise ProofFailure("loop over `%s` mixes text and non-text results" % norm(s.iter))
            # a scan: reads the text, produces positions/flags; no text object is changed
            self.proof.step("SCAN over `%s`: %d path(s); only collects non-text data (positions), no text is moved" % (norm(s.iter), n_paths))
            after = path.clone()
            after.set(out_n, Opaque("scan result"))
            for o in others + flags:
                after.set(o, Opaque("carried"))
            if s.orelse:
                return self.block(s.orelse, after, depth)
            return [("fall", after, None)]
        self.proof.step(
            "FOLD over `%s`: %d path(s); flat(%s)%s grows by exactly the current element on every path%s%s"
            % (
                norm(s.iter),
                n_paths,
                out_n,
                " + " + acc_n if acc_n else "",
                "; purity(%s) inductive" % ",".join(sorted(pure_preds)) if pure_preds else "",
                "; invariant (not %s => %s == '') inductive" % (inv_flag, acc_n) if inv_flag else "",
            )
        )
        after = path.clone()
        for sc in side:
            if sc not in after.side:
                after.side.append(sc)
        if acc_n:
            after.set(out_n, after.alloc(W(pre_out) + W((("PRE", lid, base),))))
            after.set(acc_n, W((("REST", lid),)))
        else:
            after.set(out_n, after.alloc(W(pre_out) + W(base)))
        for f in flags:
            after.set(f, BoolV("flagend:%s:%s" % (f, lid)))
        for o in others:
            after.set(o, Opaque("carried"))
        if s.orelse:
            return self.block(s.orelse, after, depth)
        return [("fall", after, None)]

    def _rebuild(self, s, path, depth):
        carried = self._carried_names(s, path)
        head = path.clone()
        for t in [n.id for n in ast.walk(s.target) if isinstance(n, ast.Name)]:
            head.set(t, Opaque("element of " + norm(s.iter)))
        for c in carried:
            if head.word(head.env[c]) is None:
                head.set(c, Opaque("carried"))
        # every text object reachable through self.<attr> gets a fresh base
        base_attr = {}
        for a, v in path.attrs.items():
            if path.word(v) is not None:
                b = ("B", "V:%s:%s" % (a, fresh("R")))
                base_attr[a] = b
                head.attrs[a] = head.alloc(W((b,))) if isinstance(v, Ref) else W((b,))
        text_locals = {}
        for c in carried:
            if path.word(path.env[c]) is not None:
                b = ("B", "V:%s:%s" % (c, fresh("R")))
                text_locals[c] = b
                head.set(c, head.alloc(W((b,))) if isinstance(path.env[c], Ref) else W((b,)))
        n_paths = 0
        outs = []
        side = []
        became_data = set()
        grew_text = set()
        for kind, p, val in self.block(s.body, head, depth):
            n_paths += 1
            for rid, hv in p.heap.items():
                if rid in path.heap and path.heap[rid] is not None:
                    if hv is None:
                        became_data.add(rid)
                    elif hv.a != path.heap[rid].a:
                        grew_text.add(rid)
            for a, b in base_attr.items():
                w = p.word(p.attrs.get(a))
                if w is None:
                    raise ProofFailure("self.%s stops being text inside the loop over `%s`" % (a, norm(s.iter)))
                got = normalize(w, p)
                if got != (b,):
                    raise ProofFailure("the loop over `%s` rewrites self.%s to %s, which is not provably the same text" % (norm(s.iter), a, _show(got)))
            for sc in p.side:
                if sc not in side:
                    side.append(sc)
            if kind == "return":
                q = p.clone()
                q.attrs = dict(path.attrs)
                q.heap.update(path.heap)
                outs.append(("return", q, val))
        self.proof.paths += n_paths
        if base_attr:
            self.proof.step("REBUILD in the loop over `%s`: %d path(s); each iteration leaves %s a contiguous re-slicing of itself" % (norm(s.iter), n_paths, ", ".join("self." + a for a in base_attr)))
        after = path.clone()
        for sc in side:
            if sc not in after.side:
                after.side.append(sc)
        for g in self._grown_lists(s, path):
            ref = path.env[g]
            if g in text_locals:
                continue
            if ref.id in became_data:
                after.heap[ref.id] = None
            elif ref.id in grew_text:
                after.heap[ref.id] = W((("OPQ", fresh("grown-in-loop")),))
        for c in carried:
            if c in text_locals:
                # a text local rebuilt inside the loop: unknown afterwards
                after.set(c, after.alloc(W((("OPQ", fresh("looptmp")),))) if isinstance(path.env[c], Ref) else W((("OPQ", fresh("looptmp")),)))
            else:
                after.set(c, Opaque("carried"))
        for t in [n.id for n in ast.walk(s.target) if isinstance(n, ast.Name)]:
            after.set(t, Opaque("loop variable"))
        outs.append(("fall", after, None))
        return outs

    def _while(self, s, path, depth):
        t = s.test
        if not (isinstance(t, ast.Compare) and len(t.ops) == 1 and isinstance(t.ops[0], ast.Lt) and isinstance(t.left, ast.Name) and isinstance(t.comparators[0], ast.Call) and norm(t.comparators[0].func) == "len" and len(t.comparators[0].args) == 1):
            raise ProofFailure("unsupported while loop `%s`" % norm(t))
        ivar = t.left.id
        Lexpr = t.comparators[0].args[0]
        vals = self.ev(Lexpr, path, depth)
        if len(vals) != 1 or path.word(vals[0][0]) is None:
            raise ProofFailure("window loop over something that is not a list of text")
        base = normalize(path.word(vals[0][0]), path)
        i0 = path.env.get(ivar)
        if not (isinstance(i0, Lin) and i0 == Lin(0)):
            raise ProofFailure("window index %s does not start at 0" % ivar)
        lists = self._grown_lists(s, path)
        if len(lists) != 1:
            raise ProofFailure("window loop: cannot identify the output list (%s)" % lists)
        out_n = lists[0]
        if normalize(path.word(path.env[out_n]), path):
            raise ProofFailure("window loop: output list is not empty at the start")
        carried = self._carried_names(s, path)
        lid = fresh("Wn")
        head = path.clone()
        OUT0 = ("B", "OUT0:" + lid)
        isym = Lin(0, {"i:" + lid: 1})
        head.set(out_n, head.alloc(W((OUT0,))))
        head.set(ivar, isym)
        for c in carried:
            if c not in (out_n, ivar):
                head.set(c, W((("OPQ", fresh("tmp")),)) if isinstance(path.env[c], W) else Opaque("carried"))
        n_paths = 0
        for kind, p, val in self.block(s.body, head, depth):
            n_paths += 1
            if kind in ("return", "break"):
                raise ProofFailure("window loop over `%s` can leave early" % norm(Lexpr))
            inew = p.env.get(ivar)
            if not isinstance(inew, Lin):
                raise ProofFailure("window index is no longer an integer expression")
            adv = inew - isym
            if adv.t or adv.c <= 0:
                raise ProofFailure("window loop over `%s` does not advance by a positive constant on one path (advance %r)" % (norm(Lexpr), adv))
            got = normalize(p.word(p.env[out_n]), p, record=False)
            want = (OUT0, ("SEG", base, isym, inew))
            if got != want:
                raise ProofFailure(
                    "window loop over `%s`: one path emits %s while the index advances by %d; conservation needs exactly the elements [%s:%s]" % (norm(Lexpr), _show(got), adv.c, isym, inew)
                )
        self.proof.paths += n_paths
        self.proof.step("WINDOW over `%s`: %d path(s); what is emitted is exactly the slice the index skips" % (norm(Lexpr), n_paths))
        after = path.clone()
        after.set(out_n, after.alloc(W(base)))
        after.set(ivar, Lin(0, {"iend:" + lid: 1}))
        for c in carried:
            if c not in (out_n, ivar):
                after.set(c, Opaque("carried"))
        return [("fall", after, None)]


def _root(e):
    while isinstance(e, (ast.Subscript, ast.Attribute, ast.Call)):
        e = e.func if isinstance(e, ast.Call) else e.value
    return e.id if isinstance(e, ast.Name) else "?"


def _show(atoms):
    out = []
    for a in atoms:
        if a[0] == "B":
            nm = a[1].split(":")[0]
            out.append({"OUT0": "out", "ACC0": "acc", "X": "element", "IN": "input", "V": "self." + (a[1].split(":")[1] if ":" in a[1] else "")}.get(nm, nm))
        elif a[0] == "SEG":
            out.append("%s[%s:%s]" % (_show(a[1]), a[2], a[3]))
        elif a[0] == "C":
            out.append(repr(a[1]))
        elif a[0] == "PRE":
            out.append("out-after-loop")
        elif a[0] == "REST":
            out.append("acc-after-loop")
        elif a[0] == "OPQ":
            out.append("<%s>" % a[1].split("#")[0])
        else:
            out.append(a[0])
    return " + ".join(out) if out else '""'


# ------------------------------------------------------------------ obligations
def prove_method_conserves_attr(funcs, method_node, attr, const_names=()):
    """Every path through `method_node` leaves flat(self.<attr>) unchanged. Returns Proof (raises ProofFailure)."""
    proof = Proof()
    ex = Exec(funcs, proof, const_names)
    p = Path()
    IN = ("B", "IN")
    p.set("self", Opaque("self"))
    p.attrs[attr] = p.alloc(W((IN,)))
    n = 0
    for kind, q, val in ex.block(method_node.body, p, 0):
        n += 1
        w = q.word(q.attrs.get(attr))
        if w is None:
            raise ProofFailure("self.%s is not text at the end of a path" % attr)
        got = normalize(w, q)
        if got != (IN,):
            raise ProofFailure("at the end of one path self.%s is %s, not provably the input text" % (attr, _show(got)))
        for sc in q.side:
            if sc not in proof.side:
                proof.side.append(sc)
    proof.paths += n
    return proof


def prove_function_returns_param(funcs, fn_node, k, const_names=(), attr_param=None):
    """Every returning path of fn returns text equal to its k-th parameter."""
    proof = Proof()
    ex = Exec(funcs, proof, const_names)
    p = Path()
    params = [a.arg for a in fn_node.args.args]
    IN = ("B", "IN")
    for i, prm in enumerate(params):
        p.set(prm, W((IN,)) if i == k else Opaque("param"))
    n = 0
    for kind, q, val in ex.block(fn_node.body, p, 0):
        n += 1
        if kind != "return":
            raise ProofFailure("a path falls off the end without returning")
        w = q.word(val)
        if w is None or normalize(w, q) != (IN,):
            raise ProofFailure("one path returns %s, not provably the text of parameter %s" % (_show(normalize(w, q)) if w is not None else "a non-text value", params[k]))
        for sc in q.side:
            if sc not in proof.side:
                proof.side.append(sc)
    proof.paths += n
    return proof
