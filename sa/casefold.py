# -*- coding: utf-8 -*-
"""
Case-identity prover for vsg/rules/case_utils.py (used by C03.caseid).

Claim proved (for every input string and every configured exception list): the value a case rule asks the fix
to write is the token's own value up to letter case - same length, same characters after case folding.

Domain (no execution, no solver): strings are terms over
    sym(name)                      an unknown string (a parameter, or the element a matcher returned)
    slice(base, lo, hi)            base[lo:hi] with lo, hi linear forms over the lengths |sym|, only ever built
                                   when 0 <= lo <= hi <= |base| is entailed by the facts of the path
    cat(t1 .. tn)                  concatenation;  "" is cat()
`.lower()` / `.upper()` are the identity of this domain (it reasons modulo case).  Facts per path: linear
inequalities over lengths, and fold-equalities  X ~ slice(s, ..)  introduced by a *matcher*.

Helpers are not listed by name: a function whose body is one `return <slice expression>` is evaluated
symbolically at the call; a function of the shape
        [t = s.lower()]  for x in L:  if t.startswith|endswith(x.lower()): return True | x   [return False]
is recognised as a detector (returns bool) or a matcher (returns the element) for a prefix or a suffix.  A
matcher's result is a string only on paths where the corresponding detector is known to have returned True
for the same arguments (otherwise it may be None and the proof fails).

Everything that does not fit is `unproved` with a reason - the caller decides what that means.
"""

import ast
import itertools

from .model import norm, walk_function


# ----------------------------------------------------------------------------- linear forms
class Lin:
    __slots__ = ("c", "k")

    def __init__(self, c=None, k=0):
        self.c = {s: v for s, v in (c or {}).items() if v != 0}
        self.k = k

    def __add__(self, o):
        c = dict(self.c)
        for s, v in o.c.items():
            c[s] = c.get(s, 0) + v
        return Lin(c, self.k + o.k)

    def __sub__(self, o):
        c = dict(self.c)
        for s, v in o.c.items():
            c[s] = c.get(s, 0) - v
        return Lin(c, self.k - o.k)

    def __eq__(self, o):
        return isinstance(o, Lin) and self.c == o.c and self.k == o.k

    def __hash__(self):
        return hash((tuple(sorted(self.c.items())), self.k))

    def is_const(self):
        return not self.c

    def __repr__(self):
        parts = ["%s%s" % ("" if v == 1 else "%d*" % v, s) for s, v in sorted(self.c.items())]
        if self.k or not parts:
            parts.append(str(self.k))
        return " + ".join(parts)


ZERO = Lin()


def entails(facts, f):
    """facts: list of Lin (each >= 0).  Is f >= 0 implied?  f - (sum of a subset of facts) must be a constant >= 0."""
    if f.is_const():
        return f.k >= 0
    base = list(dict.fromkeys(facts))
    for r in range(0, min(4, len(base)) + 1):
        for sub in itertools.combinations(base, r):
            g = f
            for x in sub:
                g = g - x
            if g.is_const() and g.k >= 0:
                return True
    return False


# ----------------------------------------------------------------------------- terms
def sym(n):
    return ("sym", n)


def cat(parts):
    out = []
    for p in parts:
        if p[0] == "cat":
            out.extend(p[1])
        else:
            out.append(p)
    if len(out) == 1:
        return out[0]
    return ("cat", tuple(out))


EMPTY = ("cat", ())


def show(t):
    if t[0] == "sym":
        return t[1]
    if t[0] == "slice":
        return "%s[%r : %r]" % (show(t[1]), t[2], t[3])
    if t[0] == "cat":
        return " + ".join(show(x) for x in t[1]) or '""'
    return str(t)


class Unproved(Exception):
    pass


class Path:
    def __init__(self, env, facts=None, fold=None, det=None):
        self.env = dict(env)
        self.facts = list(facts or [])
        self.fold = dict(fold or {})  # sym name -> term it is fold-equal to (same length)
        self.det = dict(det or {})  # (kind, key(s), key(L)) -> bool
        self.counter = [0]

    def clone(self):
        p = Path(self.env, self.facts, self.fold, self.det)
        p.counter = self.counter
        return p

    # ---- lengths
    def length(self, t):
        if t[0] == "sym":
            return Lin({"|%s|" % t[1]: 1})
        if t[0] == "slice":
            return t[3] - t[2]
        if t[0] == "cat":
            r = ZERO
            for x in t[1]:
                r = r + self.length(x)
            return r
        raise Unproved("length of %s" % (t,))

    def base_facts(self, t):
        out = []
        for x in ast_walk_terms(t):
            if x[0] == "sym":
                out.append(Lin({"|%s|" % x[1]: 1}))
        return out

    def mk_slice(self, t, lo, hi):
        if t[0] == "cat" and len(t[1]) == 0:
            raise Unproved("slice of the empty string")
        if t[0] not in ("sym", "slice"):
            raise Unproved("slice of a concatenation %s" % show(t))
        n = self.length(t)
        facts = self.facts + self.base_facts(t) + [Lin({s: 1}) for s in set(lo.c) | set(hi.c)]
        for need, what in ((lo, "0 <= lo"), (hi - lo, "lo <= hi"), (n - hi, "hi <= len")):
            if not entails(facts, need):
                raise Unproved("slice %s[%r:%r]: cannot show %s (%r >= 0) from %s" % (show(t), lo, hi, what, need, self.facts))
        if t[0] == "slice":
            return ("slice", t[1], t[2] + lo, t[2] + hi)
        return ("slice", t, lo, hi)

    def fresh(self, hint):
        self.counter[0] += 1
        return "%s%d" % (hint, self.counter[0])

    # ---- normal form modulo case
    def normalise(self, t):
        parts = []
        for x in (t[1] if t[0] == "cat" else (t,)):
            seen = 0
            while x[0] == "sym" and x[1] in self.fold and seen < 5:
                x = self.fold[x[1]]
                seen += 1
            parts.append(x)
        # merge adjacent slices of the same base
        out = []
        for x in parts:
            if x[0] == "slice" and x[2] == x[3]:
                continue
            if out and x[0] == "slice" and out[-1][0] == "slice" and out[-1][1] == x[1] and out[-1][3] == x[2]:
                out[-1] = ("slice", x[1], out[-1][2], x[3])
            else:
                out.append(x)
        res = []
        for x in out:
            if x[0] == "slice" and x[2] == ZERO and x[3] == self.length(x[1]):
                res.append(x[1])
            else:
                res.append(x)
        return cat(res)


def ast_walk_terms(t):
    yield t
    if t[0] == "slice":
        yield from ast_walk_terms(t[1])
    elif t[0] == "cat":
        for x in t[1]:
            yield from ast_walk_terms(x)


# ----------------------------------------------------------------------------- helper shapes
LOWERED = {}  # function key -> the matcher compares lower-cased text on both sides


def matcher_shape(fi):
    """('det'|'match', 'prefix'|'suffix', string_param_index, list_param_index) or None."""
    body = [s for s in fi.node.body if not (isinstance(s, ast.Expr) and isinstance(s.value, ast.Constant))]
    lowered = {}
    i = 0
    while i < len(body) and isinstance(body[i], ast.Assign):
        a = body[i]
        if len(a.targets) == 1 and isinstance(a.targets[0], ast.Name) and isinstance(a.value, ast.Call) and isinstance(a.value.func, ast.Attribute) and a.value.func.attr == "lower" and isinstance(a.value.func.value, ast.Name):
            lowered[a.targets[0].id] = a.value.func.value.id
        else:
            return None
        i += 1
    if i >= len(body) or not isinstance(body[i], ast.For):
        return None
    loop = body[i]
    rest = body[i + 1 :]
    if not (isinstance(loop.target, ast.Name) and isinstance(loop.iter, ast.Name) and loop.iter.id in fi.params):
        return None
    if len(loop.body) != 1 or not isinstance(loop.body[0], ast.If) or loop.body[0].orelse or loop.orelse:
        return None
    test = loop.body[0].test
    if not (isinstance(test, ast.Call) and isinstance(test.func, ast.Attribute) and test.func.attr in ("startswith", "endswith") and len(test.args) == 1):
        return None
    recv = test.func.value
    s_lowered = False
    if isinstance(recv, ast.Name) and recv.id in lowered:
        sname, s_lowered = lowered[recv.id], True
    elif isinstance(recv, ast.Call) and isinstance(recv.func, ast.Attribute) and recv.func.attr == "lower" and isinstance(recv.func.value, ast.Name):
        sname, s_lowered = recv.func.value.id, True
    elif isinstance(recv, ast.Name):
        sname = recv.id
    else:
        return None
    arg = test.args[0]
    x_lowered = False
    if isinstance(arg, ast.Call) and isinstance(arg.func, ast.Attribute) and arg.func.attr == "lower" and isinstance(arg.func.value, ast.Name):
        xname, x_lowered = arg.func.value.id, True
    elif isinstance(arg, ast.Name):
        xname = arg.id
    else:
        return None
    if xname != loop.target.id or sname not in fi.params or s_lowered != x_lowered:
        return None
    inner = loop.body[0].body
    if len(inner) != 1 or not isinstance(inner[0], ast.Return):
        return None
    rv = inner[0].value
    where = "prefix" if test.func.attr == "startswith" else "suffix"
    si, li = fi.params.index(sname), fi.params.index(loop.iter.id)
    if isinstance(rv, ast.Constant) and rv.value is True:
        if len(rest) == 1 and isinstance(rest[0], ast.Return) and isinstance(rest[0].value, ast.Constant) and rest[0].value.value is False:
            LOWERED[fi.key] = s_lowered
            return ("det", where, si, li)
        return None
    if isinstance(rv, ast.Name) and rv.id == loop.target.id and not rest:
        LOWERED[fi.key] = s_lowered
        return ("match", where, si, li)
    return None


# ----------------------------------------------------------------------------- evaluator
class Prover:
    def __init__(self, program, module):
        self.p = program
        self.mod = module
        self.shapes = {}
        for fi in program.functions.values():
            if fi.module is module and fi.cls is None:
                sh = matcher_shape(fi)
                if sh:
                    self.shapes[fi.name] = sh

    def func(self, name):
        return self.p.functions.get("%s:%s" % (self.mod.name, name))

    def key(self, e):
        return norm(e)

    # ---- integer expressions -> Lin
    def eval_int(self, path, e, env):
        if isinstance(e, ast.Constant) and isinstance(e.value, int):
            return Lin(k=e.value)
        if isinstance(e, ast.Call) and isinstance(e.func, ast.Name) and e.func.id == "len" and len(e.args) == 1:
            return path.length(self.eval_str(path, e.args[0], env))
        if isinstance(e, ast.BinOp) and isinstance(e.op, (ast.Add, ast.Sub)):
            a, b = self.eval_int(path, e.left, env), self.eval_int(path, e.right, env)
            return a + b if isinstance(e.op, ast.Add) else a - b
        raise Unproved("integer expression %s" % norm(e))

    # ---- string expressions -> term
    def eval_str(self, path, e, env, depth=0):
        if isinstance(e, ast.Constant) and e.value == "":
            return EMPTY
        if isinstance(e, ast.Constant) and e.value is None:
            return ("none",)
        if isinstance(e, ast.Name):
            if e.id in env:
                return env[e.id]
            raise Unproved("unknown name %s" % e.id)
        if isinstance(e, ast.BinOp) and isinstance(e.op, ast.Add):
            return cat([self.eval_str(path, e.left, env, depth), self.eval_str(path, e.right, env, depth)])
        if isinstance(e, ast.Call) and isinstance(e.func, ast.Attribute) and e.func.attr in ("lower", "upper") and not e.args:
            return self.eval_str(path, e.func.value, env, depth)  # identity modulo case
        if isinstance(e, ast.Subscript) and isinstance(e.slice, ast.Slice) and e.slice.step is None:
            t = self.eval_str(path, e.value, env, depth)
            lo = self.eval_int(path, e.slice.lower, env) if e.slice.lower is not None else ZERO
            hi = self.eval_int(path, e.slice.upper, env) if e.slice.upper is not None else path.length(t)
            return path.mk_slice(t, lo, hi)
        if isinstance(e, ast.Call) and isinstance(e.func, ast.Name) and depth < 4:
            name = e.func.id
            if name in self.shapes:
                kind, where, si, li = self.shapes[name]
                if kind != "match":
                    raise Unproved("detector %s used as a string" % name)
                s = self.eval_str(path, e.args[si], env, depth)
                lk = self.key(e.args[li])
                if path.det.get((where, show(s), lk)) is not True:
                    raise Unproved("%s(%s, %s) may return None here: no %s detector is known to have matched the same arguments on this path" % (name, show(s), lk, where))
                x = path.fresh("P" if where == "prefix" else "S")
                lx = Lin({"|%s|" % x: 1})
                path.facts.append(path.length(s) - lx)
                path.facts.append(lx)
                n = path.length(s)
                path.fold[x] = path.mk_slice(s, ZERO, lx) if where == "prefix" else path.mk_slice(s, n - lx, n)
                return sym(x)
            fi = self.func(name)
            if fi is not None:
                body = [s for s in fi.node.body if not (isinstance(s, ast.Expr) and isinstance(s.value, ast.Constant))]
                if len(body) == 1 and isinstance(body[0], ast.Return) and body[0].value is not None and len(e.args) == len(fi.params) and not e.keywords:
                    env2 = {pn: self.eval_str(path, a, env, depth) for pn, a in zip(fi.params, e.args)}
                    return self.eval_str(path, body[0].value, env2, depth + 1)
            raise Unproved("call of %s is not a one-expression helper or a recognised matcher" % name)
        raise Unproved("string expression %s" % norm(e))

    # ---- conditions
    def cond(self, path, test, env, want):
        """Returns a cloned path with the facts of `test == want` added."""
        q = path.clone()
        q.env = dict(env)
        calls = []
        if isinstance(test, ast.BoolOp) and isinstance(test.op, ast.And):
            calls = list(test.values) if want else []
        elif isinstance(test, ast.BoolOp) and isinstance(test.op, ast.Or):
            calls = list(test.values) if not want else []
            want_each = False
        else:
            calls = [test]
        for c in calls:
            w = want
            if isinstance(c, ast.UnaryOp) and isinstance(c.op, ast.Not):
                c, w = c.operand, not w
            if isinstance(c, ast.Name) and ("#pred:" + c.id) in env:
                c = env["#pred:" + c.id]
            if isinstance(c, ast.Call) and isinstance(c.func, ast.Name) and c.func.id in self.shapes and self.shapes[c.func.id][0] == "det":
                kind, where, si, li = self.shapes[c.func.id]
                try:
                    s = self.eval_str(q, c.args[si], env)
                except Unproved:
                    continue
                q.det[(where, show(s), self.key(c.args[li]))] = w
        return q

    # ---- statements: returns list of (path, env, return-node)
    def run(self, path, stmts, env):
        outs = []
        work = [(path, dict(env), list(stmts))]
        while work:
            path, env, todo = work.pop()
            fell = True
            while todo:
                s = todo.pop(0)
                if isinstance(s, ast.Expr) and isinstance(s.value, ast.Constant):
                    continue
                if isinstance(s, ast.Assign) and len(s.targets) == 1 and isinstance(s.targets[0], ast.Name) and isinstance(s.value, ast.Call) and isinstance(s.value.func, ast.Name) and s.value.func.id in self.shapes and self.shapes[s.value.func.id][0] == "det":
                    # a predicate result held in a local: remember the call, `cond` looks through the name
                    env["#pred:" + s.targets[0].id] = s.value
                    continue
                if isinstance(s, ast.Assign) and len(s.targets) == 1 and isinstance(s.targets[0], ast.Name):
                    try:
                        env[s.targets[0].id] = self.eval_str(path, s.value, env)
                    except Unproved as e:
                        env[s.targets[0].id] = ("unproved", str(e))
                    continue
                if isinstance(s, ast.If):
                    pt = self.cond(path, s.test, env, True)
                    pf = self.cond(path, s.test, env, False)
                    work.append((pf, dict(env), list(s.orelse) + list(todo)))
                    path, todo = pt, list(s.body) + list(todo)
                    continue
                if isinstance(s, ast.Return):
                    outs.append((path, env, s))
                    fell = False
                    break
                outs.append((path, env, ("unsupported", s)))
                fell = False
                break
            if fell:
                outs.append((path, env, None))
        return outs


def prove_checker(prover, fi):
    """fi(sValue, self, oToi, iIndex, iLine, fCheck): every path ends in `return fCheck(sValue, p, w, s, ...)` with
    p + w + s equal to sValue modulo case.  Returns list of (ok, text)."""
    res = []
    if len(fi.params) < 6:
        return [(False, "unexpected signature %s" % fi.params)]
    vname, fname = fi.params[0], fi.params[-1]
    env = {vname: sym("V")}
    path = Path(env)
    for path, env, ret in prover.run(path, fi.node.body, env):
        if ret is None:
            res.append((False, "a path falls off the end without calling the case checker"))
            continue
        if isinstance(ret, tuple):
            res.append((False, "unsupported statement `%s`" % norm(ret[1])[:60]))
            continue
        c = ret.value
        if not (isinstance(c, ast.Call) and isinstance(c.func, ast.Name) and c.func.id == fname and len(c.args) >= 4):
            res.append((False, "returns `%s`, not a call of the case checker parameter" % norm(c)[:60]))
            continue
        try:
            a1 = prover.eval_str(path, c.args[0], env)
            parts = []
            for a in c.args[1:4]:
                t = prover.eval_str(path, a, env)
                if t[0] == "unproved":
                    raise Unproved(t[1])
                parts.append(t)
            got = path.normalise(cat(parts))
            if a1 != sym("V"):
                raise Unproved("the actual value passed on is %s, not the token's value" % show(a1))
            if got == sym("V"):
                res.append((True, "%s == value (mod case) under %s" % (" + ".join(norm(a) for a in c.args[1:4]), sorted(k[0] + ":" + k[2] for k, v in path.det.items() if v))))
            else:
                res.append((False, "prefix + word + suffix normalises to `%s`, which is not the token's value" % show(got)))
        except Unproved as e:
            res.append((False, str(e)))
    return res


def prove_case_function(prover, fi):
    """fi(sActual, sPrefix, sWord, sSuffix, ...): expected = sPrefix + case(sWord) + sSuffix and is what create_case_violation gets."""
    if len(fi.params) < 4:
        return [(False, "unexpected signature")]
    a, pfx, w, sfx = fi.params[:4]
    env = {a: sym("A"), pfx: sym("P"), w: sym("W"), sfx: sym("S")}
    path = Path(env)
    want = cat([sym("P"), sym("W"), sym("S")])
    res = []
    exp = {}
    for n in walk_function(fi.node):
        if isinstance(n, ast.Assign) and len(n.targets) == 1 and isinstance(n.targets[0], ast.Name) and n.targets[0].id.startswith("sExpected"):
            try:
                exp[n.targets[0].id] = prover.eval_str(path, n.value, env)
            except Unproved as e:
                res.append((False, "%s: %s" % (n.targets[0].id, e)))
    calls = [n for n in walk_function(fi.node) if isinstance(n, ast.Call) and isinstance(n.func, ast.Name) and n.func.id == "create_case_violation"]
    if not calls:
        res.append((False, "never creates a violation"))
    for c in calls:
        if not (len(c.args) >= 2 and isinstance(c.args[0], ast.Name) and c.args[0].id == a):
            res.append((False, "create_case_violation does not get the actual value first"))
            continue
        e = c.args[1]
        if isinstance(e, ast.Constant) and e.value is None:
            res.append((True, "report only (expected value None: nothing is written)"))
        elif isinstance(e, ast.Name) and e.id in exp:
            if exp[e.id] == want:
                res.append((True, "expected = prefix + case(word) + suffix"))
            else:
                res.append((False, "expected value is `%s`, not prefix + case(word) + suffix" % show(exp[e.id])))
        else:
            res.append((False, "expected value `%s` is not a recognised expression" % norm(e)))
    return res


def case_transform(fi):
    """For a case function  expected = prefix + <g>(word) + suffix : returns 'lower', 'upper', 'identity' or None."""
    kinds = set()
    for n in walk_function(fi.node):
        if isinstance(n, ast.Assign) and len(n.targets) == 1 and isinstance(n.targets[0], ast.Name) and n.targets[0].id.startswith("sExpected"):
            calls = [x for x in ast.walk(n.value) if isinstance(x, ast.Call) and isinstance(x.func, ast.Attribute) and x.func.attr in ("lower", "upper", "title", "capitalize", "swapcase")]
            if not calls:
                kinds.add("identity")
            for c in calls:
                kinds.add(c.func.attr)
    return kinds
