# -*- coding: utf-8 -*-
"""
Structured control flow for one function (VSG has no goto/generators/async).

`Facts(funcnode)` performs a syntax-directed forward walk and records, for every statement, the
set of facts that hold on *every* path reaching it:

    ("call", <callee text>)         that call expression has been evaluated (e.g. "os.chmod")
    ("cond", <test text>, True)     the test evaluated truthy on the way here
    ("cond", <test text>, False)    ... falsy ...
    ("in-handler", <exc type text>) we are inside that except handler
    ("in-loop", <loop id>)          inside that loop body

try/except/finally, loops with break/continue, early return/raise are modelled:
  * an exception may leave a `try` body after any prefix, so a handler starts from the facts at
    the try entry;
  * code after a loop keeps only the facts from before the loop (zero iterations);
  * a branch that always leaves (return/raise/continue/break) does not contribute to the join.
"""

import ast

TERMINATED = None
# last path segment of callees known never to return (every path raises); filled by noneflow.noreturn_functions
NORETURN = set()


def callee_text(call):
    try:
        return ast.unparse(call.func)
    except Exception:
        return "<?>"


def calls_in(node):
    """Call nodes evaluated as part of `node` (not descending into lambdas/defs/comprehension scopes
    is unnecessary here: VSG does not hide calls there in the functions we analyse)."""
    out = []
    for n in ast.walk(node):
        if isinstance(n, ast.Call):
            out.append(n)
    return out


def _header_exprs(s):
    """Expressions of a compound statement evaluated before its body."""
    if isinstance(s, (ast.If, ast.While)):
        return [s.test]
    if isinstance(s, ast.For):
        return [s.iter]
    if isinstance(s, ast.With):
        return [i.context_expr for i in s.items]
    return []


class Facts:
    def __init__(self, funcnode):
        self.func = funcnode
        self.before = {}  # id(stmt) -> frozenset
        self.stmt_of = {}  # id(node) -> stmt (innermost simple statement or compound header owner)
        self.exits = []  # (kind, node, facts) kind in return/raise/fall
        self._loop_breaks = []
        self.handler_falls_through = {}
        out = self._block(funcnode.body, frozenset())
        if out is not TERMINATED:
            self.exits.append(("fall", None, out))

    # ---------------------------------------------------------------- walking
    def _block(self, body, facts):
        for s in body:
            if facts is TERMINATED:
                # unreachable code: still record (with empty facts) so lookups do not fail
                self._record_unreachable(s)
                continue
            facts = self._stmt(s, facts)
        return facts

    def _record_unreachable(self, s):
        for n in ast.walk(s):
            if isinstance(n, ast.stmt):
                self.before.setdefault(id(n), frozenset([("unreachable",)]))
            self.stmt_of.setdefault(id(n), s)

    def _index(self, s, exprs):
        for e in exprs:
            if e is None:
                continue
            for n in ast.walk(e):
                self.stmt_of[id(n)] = s

    def _with_calls(self, facts, exprs):
        add = set()
        for e in exprs:
            if e is None:
                continue
            for c in calls_in(e):
                add.add(("call", callee_text(c)))
        return facts | add if add else facts

    def _stmt(self, s, facts):
        self.before[id(s)] = facts
        self.stmt_of[id(s)] = s
        if isinstance(s, ast.If):
            self._index(s, [s.test])
            f0 = self._with_calls(facts, [s.test])
            t = ast.unparse(s.test)
            a = self._block(s.body, f0 | self._cond_facts(s.test, True))
            b = self._block(s.orelse, f0 | self._cond_facts(s.test, False))
            return self._join([a, b], f0, drop_conds_of=t)
        if isinstance(s, (ast.For, ast.While)):
            hdr = _header_exprs(s)
            self._index(s, hdr)
            f0 = self._with_calls(facts, hdr)
            self._loop_breaks.append([])
            fin = f0 | {("in-loop", id(s))}
            if isinstance(s, ast.While):
                fin = fin | self._cond_facts(s.test, True)
            body_out = self._block(s.body, fin)
            breaks = self._loop_breaks.pop()
            # after loop (no break): zero or more iterations -> only f0 facts survive
            after = f0
            if isinstance(s, ast.While):
                if isinstance(s.test, ast.Constant) and s.test.value is True:
                    after = TERMINATED
                else:
                    after = after | self._cond_facts(s.test, False)
            if s.orelse and after is not TERMINATED:
                after = self._block(s.orelse, after)
            outs = [after] + [self._strip_loop(b, s) for b in breaks]
            return self._join(outs, f0)
        if isinstance(s, ast.Try):
            f0 = facts
            body_out = self._block(s.body, f0)
            if body_out is not TERMINATED and s.orelse:
                body_out = self._block(s.orelse, body_out)
            outs = [body_out]
            for h in s.handlers:
                ht = ast.unparse(h.type) if h.type is not None else "BaseException"
                self.before[id(h)] = f0
                ho = self._block(h.body, f0 | {("in-handler", ht)})
                self.handler_falls_through[id(h)] = ho is not TERMINATED
                if ho is not TERMINATED:
                    ho = frozenset(x for x in ho if x[0] != "in-handler" or x[1] != ht)
                outs.append(ho)
            joined = self._join(outs, f0)
            if s.finalbody:
                # finally also runs on exceptional exit: its statements see only f0 for certain
                fin_in = f0 if joined is TERMINATED else self._meet([joined, f0])
                fin_out = self._block(s.finalbody, fin_in)
                if joined is TERMINATED or fin_out is TERMINATED:
                    return TERMINATED
                return joined | fin_out
            return joined
        if isinstance(s, ast.With):
            hdr = _header_exprs(s)
            self._index(s, hdr)
            f0 = self._with_calls(facts, hdr)
            return self._block(s.body, f0)
        if isinstance(s, ast.Return):
            self._index(s, [s.value])
            f1 = self._with_calls(facts, [s.value])
            self.exits.append(("return", s, f1))
            return TERMINATED
        if isinstance(s, ast.Raise):
            self._index(s, [s.exc, s.cause])
            self.exits.append(("raise", s, facts))
            return TERMINATED
        if isinstance(s, ast.Break):
            if self._loop_breaks:
                self._loop_breaks[-1].append(facts)
            return TERMINATED
        if isinstance(s, ast.Continue):
            return TERMINATED
        if isinstance(s, (ast.FunctionDef, ast.AsyncFunctionDef, ast.ClassDef)):
            return facts
        # simple statement
        self._index(s, [s])
        out = self._with_calls(facts, [s])
        # sys.exit()/os._exit() terminate
        if isinstance(s, ast.Expr) and isinstance(s.value, ast.Call):
            ct = callee_text(s.value)
            if ct in ("sys.exit", "exit", "os._exit", "quit") or ct.split(".")[-1] in NORETURN:
                self.exits.append(("exit", s, out))
                return TERMINATED
        # an assignment invalidates condition facts mentioning the assigned names
        killed = set()
        if isinstance(s, (ast.Assign, ast.AugAssign, ast.AnnAssign)):
            targets = s.targets if isinstance(s, ast.Assign) else [s.target]
            for t in targets:
                elts = t.elts if isinstance(t, (ast.Tuple, ast.List)) else [t]
                for n in elts:
                    if isinstance(n, ast.Starred):
                        n = n.value
                    if isinstance(n, ast.Name):
                        killed.add(n.id)
                    elif isinstance(n, ast.Attribute):
                        killed.add(ast.unparse(n))
                    elif isinstance(n, ast.Subscript):
                        killed.add(ast.unparse(n))
                        killed.add(ast.unparse(n.value))
        if killed:
            out = frozenset(x for x in out if not (x[0] == "cond" and _mentions(x[1], killed)))
        return out

    def _strip_loop(self, facts, loop):
        if facts is TERMINATED:
            return facts
        return frozenset(x for x in facts if not (x[0] == "in-loop" and x[1] == id(loop)))

    def _cond_facts(self, test, polarity):
        out = {("cond", ast.unparse(test), polarity)}
        # decompose and/or/not
        if isinstance(test, ast.BoolOp):
            if isinstance(test.op, ast.And) and polarity:
                for v in test.values:
                    out |= self._cond_facts(v, True)
            if isinstance(test.op, ast.Or) and not polarity:
                for v in test.values:
                    out |= self._cond_facts(v, False)
        if isinstance(test, ast.UnaryOp) and isinstance(test.op, ast.Not):
            out |= self._cond_facts(test.operand, not polarity)
        return frozenset(out)

    def _meet(self, fs):
        fs = [f for f in fs if f is not TERMINATED]
        if not fs:
            return TERMINATED
        out = set(fs[0])
        for f in fs[1:]:
            out &= f
        return frozenset(out)

    def _join(self, outs, f0, drop_conds_of=None):
        return self._meet(outs)

    # ------------------------------------------------------------------ queries
    def facts_at(self, node):
        """Facts holding when `node` (a statement or an expression inside one) starts evaluating.
        For a call inside a statement the calls nested in its own arguments are added."""
        if id(node) in self.before:
            base = self.before[id(node)]
        else:
            s = self.stmt_of.get(id(node))
            if s is None:
                return frozenset()
            base = self.before.get(id(s), frozenset())
        if isinstance(node, ast.Call):
            add = set()
            for a in list(node.args) + [k.value for k in node.keywords]:
                for c in calls_in(a):
                    add.add(("call", callee_text(c)))
            if isinstance(node.func, ast.Attribute):
                for c in calls_in(node.func.value):
                    add.add(("call", callee_text(c)))
            if add:
                base = base | add
        return base

    def dominated_by_call(self, node, callee):
        return ("call", callee) in self.facts_at(node)

    def cond_at(self, node, test_text):
        fs = self.facts_at(node)
        if ("cond", test_text, True) in fs:
            return True
        if ("cond", test_text, False) in fs:
            return False
        return None

    def conds_at(self, node):
        return [(x[1], x[2]) for x in self.facts_at(node) if x[0] == "cond"]

    def in_handler(self, node):
        return [x[1] for x in self.facts_at(node) if x[0] == "in-handler"]

    def in_loop(self, node):
        return any(x[0] == "in-loop" for x in self.facts_at(node))


def _mentions(text, names):
    try:
        t = ast.parse(text, mode="eval")
    except SyntaxError:
        return True
    for n in ast.walk(t):
        if isinstance(n, ast.Name) and n.id in names:
            par_is_attr_base = False
            return True
        if isinstance(n, (ast.Attribute, ast.Subscript)):
            try:
                if ast.unparse(n) in names:
                    return True
            except Exception:
                pass
    return False


def find_calls(funcnode, pred):
    """Call nodes in a function whose callee text satisfies pred (str -> bool) or equals pred."""
    out = []
    for n in ast.walk(funcnode):
        if isinstance(n, ast.Call):
            ct = callee_text(n)
            if (callable(pred) and pred(ct)) or (not callable(pred) and ct == pred):
                out.append(n)
    return out
