# -*- coding: utf-8 -*-
"""Results, evidence files, known findings, triage tables, replay files."""

import json
import os
import time

VERIF = os.path.dirname(os.path.dirname(os.path.abspath(__file__)))
EVIDENCE_DIR = os.path.join(VERIF, "evidence")
REPLAY_DIR = os.path.join(EVIDENCE_DIR, "replay")
KNOWN_FINDINGS = os.path.join(VERIF, "known_findings.json")
TABLES_DIR = os.path.join(VERIF, "sa", "tables")


class Finding:
    def __init__(self, rule, key, message, loc=None, path=None, excerpt=None):
        self.rule = rule  # e.g. "C16.protocol"
        self.key = key  # construct key (module:function:normalised expression); never a line number
        self.message = message
        self.loc = loc  # file:line for humans only
        self.path = path  # call-graph path, list of strings
        self.excerpt = excerpt

    def as_dict(self):
        return {
            "rule": self.rule,
            "construct_key": self.key,
            "message": self.message,
            "loc": self.loc,
            "path": self.path,
            "excerpt": self.excerpt,
        }


class Result:
    def __init__(self, property_id):
        self.property_id = property_id
        self.findings = []
        self.obligations = 0
        self.discharged = 0
        self.unproven = []
        self.samples = []
        self.nontrivial = set()
        self.rules = []  # (rule id, description)
        self.explanation = ""
        self.assumptions = []
        self.notes = []
        self.extra = {}
        self.tables_used = []
        self.stale_table_entries = []
        self._table = {}
        self._table_hits = set()

    # ------------------------------------------------------------------ tables
    def load_table(self, name):
        path = os.path.join(TABLES_DIR, name)
        self.tables_used.append("sa/tables/" + name)
        if not os.path.exists(path):
            return
        with open(path) as fh:
            for e in json.load(fh):
                self._table[(e["rule"], e["key"])] = e

    def tabled(self, rule, key):
        e = self._table.get((rule, key))
        if e is not None:
            self._table_hits.add((rule, key))
            return e
        return None

    # ------------------------------------------------------------- obligations
    def rule(self, rid, text):
        self.rules.append((rid, text))

    def ok(self, rule, key, detail=None, nontrivial=True, sample=True):
        self.obligations += 1
        self.discharged += 1
        if nontrivial:
            self.nontrivial.add((rule, key))
        if sample and len([s for s in self.samples if s.get("rule") == rule]) < 4:
            self.samples.append({"rule": rule, "construct": key, "verdict": "holds", "detail": detail})

    def unknown(self, rule, key, detail=None):
        self.obligations += 1
        self.unproven.append({"rule": rule, "construct": key, "detail": detail})

    def fail(self, rule, key, message, loc=None, path=None, excerpt=None):
        """A definite violation of `rule` at construct `key` (unless triaged in a table)."""
        self.obligations += 1
        self.nontrivial.add((rule, key))
        t = self.tabled(rule, key)
        if t is not None:
            self.discharged += 1
            self.notes.append("tabled exception %s %s: %s" % (rule, key, t.get("reason", "")))
            if len([s for s in self.samples if s.get("verdict") == "tabled"]) < 6:
                self.samples.append({"rule": rule, "construct": key, "verdict": "tabled", "detail": t.get("reason")})
            return False
        if any(f.rule == rule and f.key == key for f in self.findings):
            return True
        self.findings.append(Finding(rule, key, message, loc, path, excerpt))
        return True

    def note(self, text):
        self.notes.append(text)

    def finish_tables(self):
        for k in self._table:
            if k not in self._table_hits:
                self.stale_table_entries.append({"rule": k[0], "key": k[1]})


def load_known_findings():
    if not os.path.exists(KNOWN_FINDINGS):
        return []
    with open(KNOWN_FINDINGS) as fh:
        return json.load(fh)["findings"]


def emit(result, tier, seed, level, wall_s, files=None, callgraph_stats=None, out=print):
    """Write evidence + replay files, print VIOLATION / KNOWN-FINDING lines; return exit code."""
    result.finish_tables()
    known = [k for k in load_known_findings() if k.get("property") == result.property_id]
    known_active = {(k["rule"], k["construct_key"]): k for k in known if k.get("status") == "known"}
    os.makedirs(REPLAY_DIR, exist_ok=True)
    # remove stale replay files of this property
    for fn in os.listdir(REPLAY_DIR):
        if fn.startswith(result.property_id + "-"):
            try:
                os.remove(os.path.join(REPLAY_DIR, fn))
            except OSError:
                pass
    new = []
    known_hit = []
    for f in result.findings:
        k = known_active.get((f.rule, f.key))
        if k is not None:
            known_hit.append((f, k))
        else:
            new.append(f)
    code = 0
    for f, k in known_hit:
        out("KNOWN-FINDING: property=%s %s at %s: %s" % (result.property_id, f.rule, f.key, k.get("what", f.message)))
    for i, f in enumerate(new):
        rp = os.path.join(REPLAY_DIR, "%s-%d.json" % (result.property_id, i))
        with open(rp, "w") as fh:
            json.dump({"property": result.property_id, "tier": tier, **f.as_dict()}, fh, indent=1)
        out("VIOLATION property=%s replay=%s" % (result.property_id, rp))
        out("  rule      : %s" % f.rule)
        out("  construct : %s" % f.key)
        if f.loc:
            out("  location  : %s" % f.loc)
        out("  reason    : %s" % f.message)
        if f.path:
            out("  path      : " + " -> ".join(f.path))
        code = 1
    for s in result.stale_table_entries:
        out("note: stale table entry (matches nothing any more): %s %s" % (s["rule"], s["key"]))
    cov = {
        "obligations": result.obligations,
        "discharged": result.discharged,
        "unproven": len(result.unproven),
        "unproven_sites": result.unproven[:60],
        "evaluations": max(result.obligations, 1),
        "distinct_nontrivial": len(result.nontrivial),
        "rule": "; ".join("%s: %s" % r for r in result.rules)
        + " || a case is one (rule, construct) obligation decided on the source of the current working tree; it is counted as "
        "non-trivial when the rule had something to decide at that construct (a real site matched, not a vacuous pass) and "
        "distinct by (rule id, construct key)",
        "samples": result.samples[:24] or [{"note": "no obligations"}],
        "explanation": result.explanation,
        "checker_cmd": "./vsgsa check %s%s" % (result.property_id, " --thorough" if tier == "thorough" else ""),
        "trusted_base": ["CPython ast module", "the analyser in /verif/sa", "Python semantics as modelled (see DESIGN.md section 5)"],
        "exhaustive": True,
        "known_findings_reported": [{"rule": f.rule, "construct": f.key} for f, _ in known_hit],
        "new_violations": [f.as_dict() for f in new],
        "tables_consulted": result.tables_used,
        "stale_table_entries": result.stale_table_entries,
        "notes": result.notes[:80],
    }
    cov.update(result.extra)
    if files is not None:
        cov["files_analysed"] = files
    if callgraph_stats is not None:
        cov["callgraph"] = callgraph_stats
    ev = {
        "property_id": result.property_id,
        "tier": tier,
        "seed": seed,
        "level": level,
        "coverage": cov,
        "assumptions": result.assumptions,
        "wall_s": round(wall_s, 3),
        "violations": len(new),
    }
    os.makedirs(EVIDENCE_DIR, exist_ok=True)
    with open(os.path.join(EVIDENCE_DIR, result.property_id + ".json"), "w") as fh:
        json.dump(ev, fh, indent=1, default=str)
    return code
