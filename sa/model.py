# -*- coding: utf-8 -*-
"""
Program model of /repo/vsg built from source with `ast` only.

Nothing from the analysed repository is imported or executed.

Program
  .modules   : {dotted name: Module}
  .classes   : {"mod:Class": ClassInfo}
  .functions : {"mod:func" | "mod:Class.meth": FuncInfo}

Resolution helpers follow Python's import semantics for the constructs VSG uses
(`import a.b`, `from a import b as c`, relative imports, attribute access on packages).
"""

import ast
import hashlib
import os


class AnalysisError(Exception):
    """The analyser cannot do its job (vanished anchor, unparsable tree, floor not met)."""


_PARSE_CACHE = {}


def _parse(path, src):
    sha = hashlib.sha256(src.encode("utf-8")).hexdigest()
    hit = _PARSE_CACHE.get((path, sha))
    if hit is not None:
        return sha, hit
    tree = ast.parse(src, filename=path)
    for node in ast.walk(tree):
        for child in ast.iter_child_nodes(node):
            child._parent = node
    _PARSE_CACHE[(path, sha)] = tree
    return sha, tree


class Module:
    def __init__(self, name, path, src, is_pkg):
        self.name = name
        self.path = path
        self.src = src
        self.is_pkg = is_pkg
        self.sha256, self.tree = _parse(path, src)
        self.bindings = {}  # name -> binding tuple
        self.functions = {}  # top-level functions
        self.classes = {}  # top-level classes
        self.globals_assigned = {}  # name -> list of value nodes (module-level Assign)

    def package(self):
        if self.is_pkg:
            return self.name
        return self.name.rpartition(".")[0]

    def rel(self):
        return self.path

    def segment(self, node):
        try:
            return ast.get_source_segment(self.src, node) or ast.unparse(node)
        except Exception:
            return ast.unparse(node)


class FuncInfo:
    def __init__(self, module, cls, node, outer=None):
        self.module = module
        self.cls = cls
        self.node = node
        self.name = node.name
        self.outer = outer
        if cls is not None:
            self.key = "%s:%s.%s" % (module.name, cls.name, node.name)
        elif outer is not None:
            self.key = "%s.<locals>.%s" % (outer.key, node.name)
        else:
            self.key = "%s:%s" % (module.name, node.name)
        self.params = [a.arg for a in node.args.posonlyargs + node.args.args]
        self.kwonly = [a.arg for a in node.args.kwonlyargs]
        self.vararg = node.args.vararg.arg if node.args.vararg else None
        self.kwarg = node.args.kwarg.arg if node.args.kwarg else None

    def loc(self, node=None):
        n = node if node is not None else self.node
        return "%s:%d" % (self.module.path, getattr(n, "lineno", 0))

    def __repr__(self):
        return "<func %s>" % self.key


class ClassInfo:
    def __init__(self, module, node):
        self.module = module
        self.node = node
        self.name = node.name
        self.key = "%s:%s" % (module.name, node.name)
        self.methods = {}
        self.class_attrs = {}  # name -> value node
        self.bases = []  # resolved ClassInfo (None if unresolved/builtin)
        self.base_exprs = list(node.bases)
        self.mro = None
        self.subclasses = []
        self.doc = ast.get_docstring(node, clean=False)

    def find_method(self, name):
        for c in self.mro:
            if name in c.methods:
                return c.methods[name]
        return None

    def find_method_after(self, owner, name):
        """super() resolution: first definition of `name` after `owner` in self.mro."""
        seen = False
        for c in self.mro:
            if seen and name in c.methods:
                return c.methods[name]
            if c is owner:
                seen = True
        return None

    def all_subclasses(self):
        out = []
        stack = list(self.subclasses)
        seen = set()
        while stack:
            c = stack.pop()
            if c.key in seen:
                continue
            seen.add(c.key)
            out.append(c)
            stack.extend(c.subclasses)
        return out

    def is_subclass_of(self, other):
        return other in self.mro

    def __repr__(self):
        return "<class %s>" % self.key


class Program:
    def __init__(self, repo_root, package="vsg", overlay=None):
        self.repo_root = repo_root
        self.package = package
        self.overlay = overlay or {}
        self.modules = {}
        self.classes = {}
        self.functions = {}
        self.parse_errors = []
        self._load()
        self._bind()
        self._link_classes()

    # ------------------------------------------------------------------ loading
    def _load(self):
        base = os.path.join(self.repo_root, self.package)
        if not os.path.isdir(base):
            raise AnalysisError("package directory %s not found" % base)
        for dirpath, dirnames, filenames in os.walk(base):
            dirnames[:] = sorted(d for d in dirnames if d != "__pycache__")
            for fn in sorted(filenames):
                if not fn.endswith(".py"):
                    continue
                path = os.path.join(dirpath, fn)
                rel = os.path.relpath(path, self.repo_root)
                parts = rel[:-3].split(os.sep)
                is_pkg = parts[-1] == "__init__"
                if is_pkg:
                    parts = parts[:-1]
                name = ".".join(parts)
                try:
                    if rel in self.overlay:
                        src = self.overlay[rel]
                    else:
                        with open(path, encoding="utf-8") as fh:
                            src = fh.read()
                    import warnings

                    with warnings.catch_warnings():
                        warnings.simplefilter("ignore")
                        mod = Module(name, path, src, is_pkg)
                except SyntaxError as e:
                    self.parse_errors.append((path, str(e)))
                    continue
                self.modules[name] = mod
        for rel, src in self.overlay.items():
            if not rel.endswith(".py") or not rel.startswith(self.package + "/"):
                continue
            parts = rel[:-3].split("/")
            is_pkg = parts[-1] == "__init__"
            if is_pkg:
                parts = parts[:-1]
            name = ".".join(parts)
            if name in self.modules:
                continue
            try:
                self.modules[name] = Module(name, os.path.join(self.repo_root, rel), src, is_pkg)
            except SyntaxError as e:
                self.parse_errors.append((rel, str(e)))
        if self.parse_errors:
            raise AnalysisError("unparsable source files: %r" % (self.parse_errors[:3],))

    def _bind(self):
        for mod in self.modules.values():
            for node in mod.tree.body:
                self._bind_stmt(mod, node)

    def _bind_stmt(self, mod, node):
        if isinstance(node, ast.Import):
            for a in node.names:
                if a.asname:
                    mod.bindings[a.asname] = ("module", a.name)
                else:
                    top = a.name.split(".")[0]
                    mod.bindings[top] = ("module", top)
        elif isinstance(node, ast.ImportFrom):
            if node.level:
                pkg = mod.package().split(".")
                if node.level > 1:
                    pkg = pkg[: len(pkg) - (node.level - 1)]
                base = ".".join(pkg)
                src = base + ("." + node.module if node.module else "")
            else:
                src = node.module
            for a in node.names:
                mod.bindings[a.asname or a.name] = ("from", src, a.name)
        elif isinstance(node, ast.FunctionDef):
            fi = FuncInfo(mod, None, node)
            mod.functions[node.name] = fi
            mod.bindings[node.name] = ("func", fi)
            self.functions[fi.key] = fi
            self._nested_functions(mod, fi)
        elif isinstance(node, ast.ClassDef):
            ci = ClassInfo(mod, node)
            mod.classes[node.name] = ci
            mod.bindings[node.name] = ("class", ci)
            self.classes[ci.key] = ci
            for b in node.body:
                if isinstance(b, ast.FunctionDef):
                    fi = FuncInfo(mod, ci, b)
                    ci.methods[b.name] = fi
                    self.functions[fi.key] = fi
                    self._nested_functions(mod, fi)
                elif isinstance(b, ast.Assign):
                    for t in b.targets:
                        if isinstance(t, ast.Name):
                            ci.class_attrs[t.id] = b.value
                elif isinstance(b, ast.AnnAssign) and isinstance(b.target, ast.Name):
                    ci.class_attrs[b.target.id] = b.value
        elif isinstance(node, (ast.Assign, ast.AugAssign, ast.AnnAssign)):
            targets = node.targets if isinstance(node, ast.Assign) else [node.target]
            for t in targets:
                for n in ast.walk(t):
                    if isinstance(n, ast.Name) and isinstance(n.ctx, ast.Store):
                        mod.bindings[n.id] = ("var", mod.name, n.id)
                        mod.globals_assigned.setdefault(n.id, []).append(getattr(node, "value", None))
        elif isinstance(node, (ast.If, ast.Try)):
            for sub in ast.iter_child_nodes(node):
                if isinstance(sub, ast.stmt):
                    self._bind_stmt(mod, sub)
                elif isinstance(sub, ast.ExceptHandler):
                    for s in sub.body:
                        self._bind_stmt(mod, s)

    def _nested_functions(self, mod, outer):
        for n in ast.walk(outer.node):
            if n is outer.node:
                continue
            if isinstance(n, ast.FunctionDef) and _enclosing_function(n) is outer.node:
                fi = FuncInfo(mod, None, n, outer=outer)
                self.functions[fi.key] = fi
                self._nested_functions(mod, fi)

    def _link_classes(self):
        for ci in self.classes.values():
            for be in ci.base_exprs:
                ent = self.resolve_expr(ci.module, be)
                if ent and ent[0] == "class":
                    ci.bases.append(ent[1])
                    ent[1].subclasses.append(ci)
                else:
                    ci.bases.append(None)
        for ci in self.classes.values():
            self._mro(ci, set())

    def _mro(self, ci, visiting):
        if ci.mro is not None:
            return ci.mro
        if ci.key in visiting:
            raise AnalysisError("cyclic class hierarchy at %s" % ci.key)
        visiting.add(ci.key)
        seqs = []
        for b in ci.bases:
            if b is not None:
                seqs.append(list(self._mro(b, visiting)))
        seqs.append([b for b in ci.bases if b is not None])
        out = [ci]
        # C3 merge
        seqs = [s for s in seqs if s]
        while seqs:
            for s in seqs:
                cand = s[0]
                if not any(cand in t[1:] for t in seqs):
                    break
            else:
                raise AnalysisError("inconsistent MRO for %s" % ci.key)
            out.append(cand)
            seqs = [[x for x in s if x is not cand] for s in seqs]
            seqs = [s for s in seqs if s]
        ci.mro = out
        visiting.discard(ci.key)
        return out

    # --------------------------------------------------------------- resolution
    def resolve_module_attr(self, modname, attr, _depth=0):
        """Entity for `<module modname>.<attr>`; None if not in the analysed program."""
        if _depth > 20:
            return None
        mod = self.modules.get(modname)
        if mod is not None and attr in mod.bindings:
            return self._deref(mod.bindings[attr], _depth + 1)
        sub = modname + "." + attr
        if sub in self.modules:
            return ("module", sub)
        return None

    def _deref(self, b, _depth=0):
        if b[0] == "from":
            ent = self.resolve_module_attr(b[1], b[2], _depth + 1)
            if ent is None:
                if b[1] + "." + b[2] in self.modules:
                    return ("module", b[1] + "." + b[2])
                return ("external", b[1] + "." + b[2])
            return ent
        if b[0] == "module":
            if b[1] in self.modules:
                return ("module", b[1])
            return ("external", b[1])
        return b

    def resolve_name(self, mod, name):
        b = mod.bindings.get(name)
        if b is None:
            return None
        return self._deref(b)

    def resolve_expr(self, mod, expr, local_names=()):
        """Resolve a Name/Attribute chain in module scope. Returns entity tuple or None."""
        if isinstance(expr, ast.Name):
            if expr.id in local_names:
                return None
            return self.resolve_name(mod, expr.id)
        if isinstance(expr, ast.Attribute):
            base = self.resolve_expr(mod, expr.value, local_names)
            if base is None:
                return None
            if base[0] == "module":
                return self.resolve_module_attr(base[1], expr.attr)
            if base[0] == "class":
                ci = base[1]
                m = ci.find_method(expr.attr)
                if m is not None:
                    return ("func", m)
                for c in ci.mro:
                    if expr.attr in c.class_attrs:
                        return ("classattr", c, expr.attr)
                return None
            if base[0] == "external":
                return ("external", base[1] + "." + expr.attr)
            return None
        return None

    # ------------------------------------------------------------------ queries
    def module(self, name):
        m = self.modules.get(name)
        if m is None:
            raise AnalysisError("anchor module %s vanished" % name)
        return m

    def function(self, key):
        f = self.functions.get(key)
        if f is None:
            raise AnalysisError("anchor function %s vanished" % key)
        return f

    def cls(self, key):
        c = self.classes.get(key)
        if c is None:
            raise AnalysisError("anchor class %s vanished" % key)
        return c

    def digest(self):
        h = hashlib.sha256()
        for name in sorted(self.modules):
            h.update(name.encode())
            h.update(self.modules[name].sha256.encode())
        return h.hexdigest()

    def functions_in(self, prefix):
        return [f for f in self.functions.values() if f.module.name == prefix or f.module.name.startswith(prefix + ".")]


def _enclosing_function(node):
    p = getattr(node, "_parent", None)
    while p is not None:
        if isinstance(p, (ast.FunctionDef, ast.AsyncFunctionDef, ast.Lambda)):
            return p
        p = getattr(p, "_parent", None)
    return None


def enclosing_function(node):
    return _enclosing_function(node)


def enclosing_class(node):
    p = getattr(node, "_parent", None)
    while p is not None:
        if isinstance(p, ast.ClassDef):
            return p
        if isinstance(p, (ast.FunctionDef, ast.AsyncFunctionDef)):
            pp = getattr(p, "_parent", None)
            if isinstance(pp, ast.ClassDef):
                return pp
        p = getattr(p, "_parent", None)
    return None


def local_names(funcnode):
    """Names bound inside a function (params, assignments, loop targets, with/except names)."""
    out = set()
    a = funcnode.args
    for x in a.posonlyargs + a.args + a.kwonlyargs:
        out.add(x.arg)
    if a.vararg:
        out.add(a.vararg.arg)
    if a.kwarg:
        out.add(a.kwarg.arg)
    globals_decl = set()
    for n in walk_function(funcnode):
        if isinstance(n, ast.Global):
            globals_decl.update(n.names)
        elif isinstance(n, ast.Name) and isinstance(n.ctx, (ast.Store, ast.Del)):
            out.add(n.id)
        elif isinstance(n, ast.ExceptHandler) and n.name:
            out.add(n.name)
        elif isinstance(n, (ast.Import, ast.ImportFrom)):
            for al in n.names:
                out.add((al.asname or al.name).split(".")[0])
        elif isinstance(n, (ast.FunctionDef, ast.ClassDef)) and n is not funcnode:
            out.add(n.name)
    return out - globals_decl


def walk_function(funcnode):
    """ast.walk restricted to one function body (does not descend into nested defs/classes' bodies
    except to yield the def node itself)."""
    stack = list(funcnode.body) + list(funcnode.args.defaults) + list(funcnode.args.kw_defaults)
    while stack:
        n = stack.pop()
        if n is None:
            continue
        yield n
        if isinstance(n, (ast.FunctionDef, ast.AsyncFunctionDef, ast.ClassDef, ast.Lambda)):
            continue
        stack.extend(ast.iter_child_nodes(n))


def norm(node):
    """Normalised expression/statement text used as a line-number-free key."""
    try:
        return ast.unparse(node)
    except Exception:
        return "<?>"


def expand_text(fi, e, depth=3):
    """norm(e) with every local name that has exactly one binding in fi (a plain `name = <expr>` assignment, not a loop
    target, not a parameter) replaced by its defining expression, recursively up to `depth`.  Makes text-level comparisons
    insensitive to hoisting a sub-expression into a local."""
    import copy

    binds = {}
    loop_targets = set()
    for n in walk_function(fi.node):
        if isinstance(n, ast.Assign) and len(n.targets) == 1 and isinstance(n.targets[0], ast.Name):
            binds.setdefault(n.targets[0].id, []).append(n.value)
        elif isinstance(n, (ast.AugAssign, ast.AnnAssign)) and isinstance(n.target, ast.Name):
            binds.setdefault(n.target.id, []).append(None)
        elif isinstance(n, ast.For):
            for x in ast.walk(n.target):
                if isinstance(x, ast.Name):
                    loop_targets.add(x.id)
        elif isinstance(n, ast.comprehension):
            for x in ast.walk(n.target):
                if isinstance(x, ast.Name):
                    loop_targets.add(x.id)
    single = {k: v[0] for k, v in binds.items() if len(v) == 1 and v[0] is not None and k not in loop_targets and k not in fi.params}

    class Sub(ast.NodeTransformer):
        def __init__(self, d):
            self.d = d

        def visit_Name(self, node):
            if isinstance(node.ctx, ast.Load) and node.id in single and self.d > 0:
                return Sub(self.d - 1).visit(copy.deepcopy(single[node.id]))
            return node

    return norm(Sub(depth).visit(copy.deepcopy(e)))


class InlinedFunction:
    """A function as seen with its same-module statement-level helper calls inlined (see inline_helpers)."""

    def __init__(self, fi, node, inlined):
        self.node = node
        self.key = fi.key
        self.name = fi.name
        self.params = fi.params
        self.module = fi.module
        self.cls = fi.cls
        self.inlined = inlined  # keys of the helpers whose bodies were spliced in

    def loc(self, node=None):
        n = node if node is not None else self.node
        return "%s:%d" % (self.module.path, getattr(n, "lineno", 0))


def inline_helpers(program, fi, depth=2, toward=None):
    """Copy of fi with every statement-level call `helper(a, b, ...)` of a module-level function of the same module
    replaced by the helper's body (parameters substituted by the argument expressions).  Only helpers without a
    `return`, called positionally with side-effect-free arguments (names, attributes, constants) and whose own locals
    do not clash with the caller's names are inlined - exactly the shape of an "extract function" refactoring.
    Ordering and dominance facts of the caller then hold across the extracted block.
    toward: names of functions the caller's facts are about; only helpers that (transitively, inside the module) call
    one of them are inlined, and those functions themselves never are."""
    import copy

    mod = fi.module
    helpers = {g.name: g for g in program.functions.values() if g.module is mod and g.cls is None and g.name != fi.name}
    # methods of the same class called as self.m(...)
    methods = {}
    if getattr(fi, "cls", None) is not None:
        methods = {m.name: m for m in fi.cls.methods.values() if m.cls is fi.cls and m.name != fi.name and m.params and m.params[0] == "self"}

    def _callee(call):
        """(helper FunctionInfo, its parameter names without self) for a call of a same-module function or self.method"""
        if isinstance(call, ast.Call):
            if isinstance(call.func, ast.Name) and call.func.id in helpers:
                g = helpers[call.func.id]
                return g, list(g.params)
            if isinstance(call.func, ast.Attribute) and isinstance(call.func.value, ast.Name) and call.func.value.id == "self" and call.func.attr in methods:
                g = methods[call.func.attr]
                return g, list(g.params[1:])
        return None, None
    caller_names = local_names(fi.node)
    inlined = set()

    def reaches(g, seen=()):
        if toward is None:
            return True
        for x in walk_function(g.node):
            if isinstance(x, ast.Call):
                nm = x.func.id if isinstance(x.func, ast.Name) else x.func.attr if isinstance(x.func, ast.Attribute) else None
                if nm in toward:
                    return True
                h, _ = _callee(x)
                if h is not None and h.key not in seen and reaches(h, seen + (g.key,)):
                    return True
        return False

    def pure(e):
        return isinstance(e, (ast.Name, ast.Constant)) or (isinstance(e, ast.Attribute) and pure(e.value))

    def _spliceable(call, g, want_value):
        """(body statements, returned expression or None) of helper g instantiated for `call`, or None"""
        gparams = list(g.params[1:]) if g.cls is not None else list(g.params)
        if call.keywords or len(call.args) != len(gparams):
            return None
        body = [copy.deepcopy(x) for x in g.node.body if not (isinstance(x, ast.Expr) and isinstance(x.value, ast.Constant))]

        def deguard(stmts):
            # `if C: A; return` + rest  ==>  `if C: A else: rest`   (top-level guard clauses with a bare return)
            for i, st in enumerate(stmts):
                if isinstance(st, ast.If) and not st.orelse and st.body and isinstance(st.body[-1], ast.Return) and st.body[-1].value is None:
                    rest = deguard(stmts[i + 1 :])
                    st.body = st.body[:-1] or [ast.Pass()]
                    st.orelse = rest
                    return stmts[: i + 1]
            if stmts and isinstance(stmts[-1], ast.Return) and stmts[-1].value is None:
                return stmts[:-1]
            return stmts

        if not want_value:
            body = deguard(body)
        rets = [x for st in body for x in ast.walk(st) if isinstance(x, ast.Return)]
        ret_expr = None
        if rets:
            # only a single trailing `return <expr>` is understood
            if len(rets) != 1 or not body or body[-1] is not rets[0] or rets[0].value is None:
                return None
            ret_expr = rets[0].value
            body = body[:-1]
        elif want_value:
            return None
        # locals of the helper that also exist in the caller are left as they are: the inlined view is the function "as
        # if the block were written in place", which is what an extracted block was (the caller's own later reads of
        # such a name are preceded by its own assignment in every case met; facts are about calls and conditions)
        for pn, a in zip(gparams, call.args):
            if pure(a):
                continue
            # an argument with effects may only stand in for a parameter read exactly once, in the first statement
            scope = list(body) + ([rets[0]] if rets else [])
            reads = [x for st_ in scope for x in ast.walk(st_) if isinstance(x, ast.Name) and x.id == pn and isinstance(x.ctx, ast.Load)]
            reads = list({id(x): x for x in reads}.values())
            first = body[0] if body else rets[0] if rets else None
            if len(reads) != 1 or first is None or not any(x is reads[0] for x in ast.walk(first)):
                return None
        amap = dict(zip(gparams, call.args))

        class Sub(ast.NodeTransformer):
            def visit_Name(self, node):
                if node.id in amap and isinstance(node.ctx, ast.Load):
                    return copy.deepcopy(amap[node.id])
                return node

        new_body = [Sub().visit(x) for x in body]
        new_ret = Sub().visit(copy.deepcopy(ret_expr)) if ret_expr is not None else None
        return new_body, new_ret

    def _helper_of(e):
        g, _ = _callee(e)
        if g is not None and (toward is None or (g.name not in toward and reaches(g))):
            return g
        return None

    def expand(stmts, d):
        out = []
        for st in stmts:
            for field in ("body", "orelse", "finalbody"):
                v = getattr(st, field, None)
                if isinstance(v, list) and v and isinstance(v[0], ast.stmt):
                    setattr(st, field, expand(v, d))
            if isinstance(st, ast.Try):
                for h in st.handlers:
                    h.body = expand(h.body, d)
            if d > 0:
                if isinstance(st, ast.Expr) and _helper_of(st.value) is not None:
                    g = _helper_of(st.value)
                    sp = _spliceable(st.value, g, False)
                    if sp is not None:
                        out.extend(expand(sp[0], d - 1))
                        inlined.add(g.key)
                        continue
                elif isinstance(st, ast.If) and _helper_of(st.test) is not None:
                    g = _helper_of(st.test)
                    sp = _spliceable(st.test, g, True)
                    if sp is not None and sp[1] is not None:
                        out.extend(expand(sp[0], d - 1))
                        st.test = sp[1]
                        inlined.add(g.key)
                elif isinstance(st, ast.Return) and isinstance(st.value, ast.Call) and isinstance(st.value.func, ast.Name) and helpers.get(st.value.func.id) is not None and (toward is None or st.value.func.id not in toward):
                    # `return helper(...)`: the result tuple is built in a helper
                    g = helpers[st.value.func.id]
                    sp = _spliceable(st.value, g, True)
                    if sp is not None and sp[1] is not None:
                        out.extend(expand(sp[0], d - 1))
                        st.value = sp[1]
                        inlined.add(g.key)
                elif isinstance(st, ast.Assign) and _helper_of(st.value) is not None:
                    g = _helper_of(st.value)
                    sp = _spliceable(st.value, g, True)
                    if sp is not None and sp[1] is not None:
                        out.extend(expand(sp[0], d - 1))
                        st.value = sp[1]
                        inlined.add(g.key)
            out.append(st)
        return out

    node = copy.deepcopy(fi.node)
    node.body = expand(node.body, depth)
    for n in ast.walk(node):
        for child in ast.iter_child_nodes(n):
            child._parent = n
    ast.fix_missing_locations(node)
    return InlinedFunction(fi, node, inlined)
