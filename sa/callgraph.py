# -*- coding: utf-8 -*-
"""
May-call graph over the Program (class-hierarchy analysis + VSG's naming conventions).

Over-approximating in the "may call" direction:
  * `f()`             module binding, nested def, or class (-> its __init__)
  * `mod.f()`         through import aliases
  * `self.m()`        MRO of the enclosing class + every override in its subclasses
  * `super().m()`     every definition of m above the owner in any MRO that contains the owner
  * `Base.m(self,..)` that method
  * `recv.m()`        receiver typed by VSG's Hungarian convention where confident (oFile, oToi,
                      oViolation, oToken*, oTokenMap, oRule(s)), otherwise every class defining m
  * calls through a local/parameter/subscript (function values): every address-taken function
    of the program (functions referenced other than as the callee of a call)
Calls that resolve to nothing in the program are classified builtin/external.
"""

import ast
import re

from .model import local_names, walk_function

BUILTIN_COLLIDERS = {"clear", "remove", "add", "update"}
_HUNGARIAN_BUILTIN = re.compile(r"^(l|d|s|i|b|t|f)[A-Z_]")

RECEIVER_HINTS = [
    (re.compile(r"^(oFile|oVhdlFile|self\.oVhdlFile|oVhdl)$"), ["vsg.vhdlFile.vhdlFile:vhdlFile"]),
    (re.compile(r"^(oToi|oTokens|oMyToi|oNewToi|oSubToi|toi|oLeftToi|oRightToi|self\.oTokens|oViolation\.oTokens|oUpdate\.oTokens)$"), ["vsg.vhdlFile.extract.tokens:New"]),
    (re.compile(r"^(oViolation|oUpdate|oNewViolation|dViolation)$"), ["vsg.violation:New"]),
    (re.compile(r"^(oToken\w*|oObject|oTokenItem|oItem|oLeft|oRight|oNextToken|oPrevToken|oComment|oWhitespace|oSecondLastToken|oLastToken|oFirstToken|oMyToken|oNewToken|oInsertToken|oStartToken|oEndToken)$"), ["vsg.parser:item"]),
    (re.compile(r"^(oTokenMap|self\.oTokenMap)$"), ["vsg.token_map:New"]),
    (re.compile(r"^(oRule|oNewRule)$"), ["vsg.rule:Rule"]),
    (re.compile(r"^(oRules)$"), ["vsg.rule_list:rule_list"]),
    (re.compile(r"^(oCodeTags)$"), ["vsg.vhdlFile.code_tags:New"]),
    (re.compile(r"^(oSeverityList|self\.oSeverityList|oConfig\.severity_list|severity_list)$"), ["vsg.severity:create_list"]),
]


class CallSite:
    __slots__ = ("caller", "node", "targets", "kind")

    def __init__(self, caller, node, targets, kind):
        self.caller = caller
        self.node = node
        self.targets = targets
        self.kind = kind


class CallGraph:
    def __init__(self, program, conservative=False):
        self.p = program
        self.conservative = conservative
        self.methods_by_name = {}
        for ci in program.classes.values():
            for m, fi in ci.methods.items():
                self.methods_by_name.setdefault(m, []).append(fi)
        self.sites = {}  # func key -> [CallSite]
        self.address_taken = self._address_taken()
        self.param_funcs, self.param_open = self._param_bindings()
        self.stats = {"resolved": 0, "builtin": 0, "external": 0, "indirect": 0, "unresolved": 0, "total": 0}
        for fi in program.functions.values():
            self.sites[fi.key] = self._sites_of(fi)
        self._callers = None

    # ------------------------------------------------------------------------
    def _address_taken(self):
        out = {}
        for mod in self.p.modules.values():
            for n in ast.walk(mod.tree):
                if isinstance(n, (ast.Name, ast.Attribute)) and isinstance(getattr(n, "ctx", None), ast.Load):
                    par = getattr(n, "_parent", None)
                    if isinstance(par, ast.Call) and par.func is n:
                        continue
                    if isinstance(par, ast.Attribute):
                        continue
                    ent = self.p.resolve_expr(mod, n)
                    if ent and ent[0] == "func":
                        out[ent[1].key] = ent[1]
        return out

    def _param_bindings(self):
        """Function values bound to parameters of module-level functions at their (name-resolved) call sites:
        f(x, pred) called as f(l, token_is_whitespace) binds pred -> {token_is_whitespace}.  A parameter is `open` when some
        call site passes something that is not a plain function reference (then the arity-based fallback applies)."""
        funcs, opened = {}, set()
        for mod in self.p.modules.values():
            for n in ast.walk(mod.tree):
                if not (isinstance(n, ast.Call) and isinstance(n.func, (ast.Name, ast.Attribute))):
                    continue
                ent = self.p.resolve_expr(mod, n.func)
                if not (ent and ent[0] == "func" and ent[1].cls is None):
                    continue
                g = ent[1]
                for i, a in enumerate(n.args):
                    if i >= len(g.params):
                        break
                    self._bind(mod, g, g.params[i], a, funcs, opened)
                for kw in n.keywords:
                    if kw.arg and kw.arg in g.params:
                        self._bind(mod, g, kw.arg, kw.value, funcs, opened)
        return funcs, opened

    def _bind(self, mod, g, pname, a, funcs, opened):
        e = self.p.resolve_expr(mod, a) if isinstance(a, (ast.Name, ast.Attribute)) else None
        if e and e[0] == "func":
            funcs.setdefault((g.key, pname), set()).add(e[1])
        else:
            opened.add((g.key, pname))

    def _sites_of(self, fi):
        sites = []
        locs = local_names(fi.node)
        # nested function names are local *and* resolvable
        nested = {}
        for k, f in self.p.functions.items():
            if f.outer is fi:
                nested[f.name] = f
        for n in walk_function(fi.node):
            if isinstance(n, ast.Call):
                targets, kind = self._resolve(fi, n, locs, nested)
                self.stats["total"] += 1
                self.stats[kind] += 1
                sites.append(CallSite(fi, n, targets, kind))
        return sites

    def _class_targets(self, ci, meth, include_subclasses=True):
        out = []
        m = ci.find_method(meth)
        if m is not None:
            out.append(m)
        if include_subclasses:
            for sc in ci.all_subclasses():
                if meth in sc.methods:
                    out.append(sc.methods[meth])
        return out

    def _resolve(self, fi, call, locs, nested):
        p = self.p
        f = call.func
        mod = fi.module
        if isinstance(f, ast.Name):
            if f.id in nested:
                return [nested[f.id]], "resolved"
            if f.id in locs:
                # call through a parameter whose every call site passes a plain function reference: those functions
                if not self.conservative and fi.cls is None and f.id in fi.params and (fi.key, f.id) in self.param_funcs and (fi.key, f.id) not in self.param_open:
                    return sorted(self.param_funcs[(fi.key, f.id)], key=lambda x: x.key), "resolved"
                # call through a local / parameter: function value
                return self._indirect(call), "indirect"
            ent = p.resolve_name(mod, f.id)
            if ent is None:
                return [], "builtin"
            return self._entity_targets(ent)
        if isinstance(f, ast.Attribute):
            v = f.value
            # super().m()
            if isinstance(v, ast.Call) and isinstance(v.func, ast.Name) and v.func.id == "super":
                owner = fi.cls
                out = []
                if owner is not None:
                    for ci in [owner] + owner.all_subclasses():
                        t = ci.find_method_after(owner, f.attr)
                        if t is not None and t not in out:
                            out.append(t)
                return out, ("resolved" if out else "builtin")
            # self.m()
            if isinstance(v, ast.Name) and v.id == "self" and fi.cls is not None:
                out = self._class_targets(fi.cls, f.attr)
                if out:
                    return out, "resolved"
                # attribute holding a function value / unknown
                if f.attr in self.methods_by_name:
                    return list(self.methods_by_name[f.attr]), "resolved"
                return self._indirect(call), "indirect"
            # helper functions of rule modules take the rule as an explicit first parameter called `self`
            if isinstance(v, ast.Name) and v.id == "self" and fi.cls is None and fi.params and fi.params[0] == "self":
                rc = p.classes.get("vsg.rule:Rule")
                if rc is not None:
                    out = []
                    for ci in [rc] + rc.all_subclasses():
                        if f.attr in ci.methods and ci.methods[f.attr] not in out:
                            out.append(ci.methods[f.attr])
                    if out:
                        return out, "resolved"
            # module / class attribute chain
            ent = p.resolve_expr(mod, f, local_names=locs)
            if ent is not None:
                return self._entity_targets(ent)
            base_ent = p.resolve_expr(mod, v, local_names=locs) if isinstance(v, (ast.Name, ast.Attribute)) else None
            if base_ent is not None and base_ent[0] in ("module", "external"):
                # attribute of a known module that does not exist / external library
                return [], "external"
            if base_ent is not None and base_ent[0] == "class":
                return [], "builtin"
            # typed receiver
            meth = f.attr
            if meth not in self.methods_by_name:
                return [], "builtin"
            try:
                rtext = ast.unparse(v)
            except Exception:
                rtext = ""
            if isinstance(v, ast.Subscript) or isinstance(v, ast.Constant) or isinstance(v, ast.JoinedStr):
                # element of a container: tokens mostly
                rbase = ast.unparse(v.value) if isinstance(v, ast.Subscript) else ""
                if meth in BUILTIN_COLLIDERS and not rbase.startswith("o"):
                    return [], "builtin"
            if not self.conservative:
                for rx, classes in RECEIVER_HINTS:
                    if rx.match(rtext):
                        out = []
                        for ck in classes:
                            ci = p.classes.get(ck)
                            if ci is not None:
                                out.extend(self._class_targets(ci, meth))
                        if out:
                            return out, "resolved"
                        if meth in BUILTIN_COLLIDERS:
                            return [], "builtin"
                        break
            if meth in BUILTIN_COLLIDERS and (_HUNGARIAN_BUILTIN.match(rtext) or rtext.startswith("self.l") or rtext.startswith("self.d")):
                return [], "builtin"
            if meth in BUILTIN_COLLIDERS and isinstance(v, (ast.Subscript, ast.Call)) and not self.conservative:
                # dict-of-dict / returned containers: d[k].update(..), x.get(..).update(..)
                return [], "builtin"
            return list(self.methods_by_name[meth]), "resolved"
        # call of a subscript / call result: function value
        return self._indirect(call), "indirect"

    def _indirect(self, call):
        """Address-taken functions whose signature accepts this call's argument count."""
        n = len(call.args)
        if any(isinstance(a, ast.Starred) for a in call.args):
            return list(self.address_taken.values())
        out = []
        for fi in self.address_taken.values():
            a = fi.node.args
            total = len(a.posonlyargs) + len(a.args)
            required = total - len(a.defaults)
            if fi.cls is not None and fi.params and fi.params[0] == "self":
                total -= 1
                required -= 1
            kw = len([k for k in call.keywords if k.arg])
            if a.vararg is not None:
                if n + kw >= required:
                    out.append(fi)
            elif required <= n + kw <= total + len(a.kwonlyargs):
                out.append(fi)
        return out

    def _entity_targets(self, ent):
        if ent[0] == "func":
            return [ent[1]], "resolved"
        if ent[0] == "class":
            init = ent[1].find_method("__init__")
            return ([init] if init is not None else []), "resolved"
        if ent[0] == "external":
            return [], "external"
        if ent[0] == "module":
            return [], "external"
        if ent[0] in ("var", "classattr"):
            return list(self.address_taken.values()), "indirect"
        return [], "unresolved"

    # ------------------------------------------------------------------------
    def callees(self, key):
        out = []
        for s in self.sites.get(key, ()):
            out.extend(s.targets)
        return out

    def reachable(self, roots, stop=None, skip_indirect=False):
        """BFS. roots: iterable of FuncInfo. Returns {key: (parent_key, callnode)}; roots map to None."""
        seen = {}
        queue = []
        for r in roots:
            if r.key not in seen:
                seen[r.key] = None
                queue.append(r)
        i = 0
        while i < len(queue):
            fi = queue[i]
            i += 1
            if stop is not None and stop(fi):
                continue
            for s in self.sites.get(fi.key, ()):
                if skip_indirect and s.kind == "indirect":
                    continue
                for t in s.targets:
                    if t.key not in seen:
                        seen[t.key] = (fi.key, s.node)
                        queue.append(t)
        return seen

    def path(self, seen, key):
        """Reconstruct root -> key path as list of (func key, lineno of call in parent)."""
        out = []
        cur = key
        while cur is not None:
            par = seen.get(cur)
            if par is None:
                out.append((cur, None))
                break
            out.append((cur, getattr(par[1], "lineno", None)))
            cur = par[0]
        out.reverse()
        return out

    def resolution_rate(self):
        t = max(1, self.stats["total"])
        return 1.0 - (self.stats["unresolved"]) / t
