# -*- coding: utf-8 -*-
"""
Tables read off the classifier (vsg/vhdlFile/classify/*.py, vhdlFile.py post passes, vhdlFile/utils.py):

  sites          every call of an assign_* helper with its literal argument (if any) and token class
  literal_of     token class -> set of lower-cased literals under which the classifier assigns it
                 (assign_next_token_required / assign_next_token_if with a constant first argument)
  open_classes   token classes assigned without a literal test (may hold any text, including
                 character/string literals and extended identifiers)
  const_value    token class -> the constant its constructor stores whatever argument it is given
                 (e.g. parser.comma -> "," when called without argument ... only classes whose
                 constructor *ignores* its argument count as constant-valued)
"""

import ast

from .model import norm, walk_function
from .ruletable import UNKNOWN, Interp, strip

LITERAL_APIS = {"assign_next_token_required": (0, 1), "assign_next_token_if": (0, 1)}
OPEN_APIS = {
    "assign_next_token": (None, 0),
    "assign_token": (None, 2),
    "assign_tokens_until": (0, 1),  # literal is the *stop* word, class is open
    "assign_tokens_until_ignoring_paren": (0, 1),
    "assign_next_token_if_not": (0, 1),
    "assign_next_token_if_not_one_of": (0, 1),
    "assign_tokens_until_matching_closing_paren": (None, 0),
    "classify_next_token": (None, 0),
    "tokenize_postponed": (None, 2),
}


class ClassifierTable:
    def __init__(self, program):
        self.p = program
        self.item = program.cls("vsg.parser:item")
        self.sites = []
        self.literal_of = {}
        self.open_classes = {}
        self.const_value = {}
        self._interp = Interp(program)
        self._scan()
        self._consts()

    def _token_class(self, fi, e):
        if not isinstance(e, (ast.Name, ast.Attribute)):
            return None
        ent = self.p.resolve_expr(fi.module, e)
        if ent and ent[0] == "class" and self.item in ent[1].mro:
            return ent[1]
        return None

    def _scan(self):
        for fi in self.p.functions.values():
            mn = fi.module.name
            if not (mn.startswith("vsg.vhdlFile.classify") or mn in ("vsg.vhdlFile.vhdlFile", "vsg.vhdlFile.utils")):
                continue
            for n in walk_function(fi.node):
                if not isinstance(n, ast.Call):
                    continue
                api = None
                if isinstance(n.func, ast.Attribute):
                    api = n.func.attr
                elif isinstance(n.func, ast.Name):
                    api = n.func.id
                if api in LITERAL_APIS:
                    li, ci_ = LITERAL_APIS[api]
                    if len(n.args) <= max(li, ci_):
                        continue
                    lit = n.args[li]
                    cls = self._token_class(fi, n.args[ci_])
                    litv = lit.value if isinstance(lit, ast.Constant) and isinstance(lit.value, str) else None
                    self.sites.append((fi, n, api, litv, cls, lit))
                    if cls is not None and litv is not None:
                        self.literal_of.setdefault(cls.key, set()).add(litv.lower())
                    elif cls is not None:
                        self.open_classes.setdefault(cls.key, []).append((fi, n, api))
                elif api in OPEN_APIS:
                    li, ci_ = OPEN_APIS[api]
                    if len(n.args) <= ci_:
                        continue
                    cls = self._token_class(fi, n.args[ci_])
                    if cls is not None:
                        self.sites.append((fi, n, api, None, cls, None))
                        self.open_classes.setdefault(cls.key, []).append((fi, n, api))
                elif api == "tokenize_label" and len(n.args) >= 4:
                    for a in n.args[2:4]:
                        cls = self._token_class(fi, a)
                        if cls is not None:
                            self.sites.append((fi, n, api, None, cls, None))
                            self.open_classes.setdefault(cls.key, []).append((fi, n, api))

    def _consts(self):
        for ci in self.p.classes.values():
            if self.item not in (ci.mro or []):
                continue
            try:
                obj = self._interp.instantiate(ci, [UNKNOWN])
            except Exception:
                continue
            v = strip(obj.attrs.get("value", UNKNOWN))
            if v is not UNKNOWN and isinstance(v, str):
                self.const_value[ci.key] = v

    def keyword_classes(self):
        """Classes only ever assigned under a literal test."""
        return {k: v for k, v in self.literal_of.items() if k not in self.open_classes}
