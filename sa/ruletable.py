# -*- coding: utf-8 -*-
"""
Static rule table: mirrors rule_list.load_rules() without importing anything.

For every class `rule_*` exported by a package under vsg/rules (as seen from
vsg/rules/__init__.py), abstractly interpret the `__init__` chain up the MRO and record the
resulting instance attributes.

Abstract values
  python constants / list / dict        concrete
  ClassRef(ci)                          a class object (token classes mostly)
  Instance(ci, args, attrs)             result of calling a class of the analysed program
  GlobalAlias(modname, name, value)     value obtained by reading a module-level variable
                                        (alias of shared state; `.value` is its evaluated content)
  UNKNOWN                               anything else
"""

import ast

from .model import AnalysisError, norm


class _Unknown:
    def __repr__(self):
        return "UNKNOWN"


UNKNOWN = _Unknown()


class ClassRef:
    def __init__(self, ci):
        self.ci = ci

    def __repr__(self):
        return "<%s>" % self.ci.key

    def __eq__(self, o):
        return isinstance(o, ClassRef) and o.ci is self.ci

    def __hash__(self):
        return hash(self.ci.key)


class FuncRef:
    def __init__(self, fi):
        self.fi = fi

    def __repr__(self):
        return "<fn %s>" % self.fi.key


class Instance:
    def __init__(self, ci, args, kwargs=None):
        self.ci = ci
        self.args = args
        self.kwargs = kwargs or {}
        self.attrs = {}
        self.attr_origin = {}  # attr -> (class key that assigned it last, 'fresh'|'alias'|'param')
        self.unknown_writes = set()

    def __repr__(self):
        return "%s(%s)" % (self.ci.key, ", ".join(repr(a) for a in self.args))


class GlobalAlias:
    def __init__(self, modname, name, value):
        self.modname = modname
        self.name = name
        self.value = value

    def __repr__(self):
        return "global %s.%s=%r" % (self.modname, self.name, self.value)


def strip(v):
    """Remove the alias wrapper."""
    while isinstance(v, GlobalAlias):
        v = v.value
    return v


class Interp:
    def __init__(self, program):
        self.p = program
        self._global_cache = {}
        self.max_depth = 12

    # ------------------------------------------------------------ module globals
    def eval_global(self, modname, name):
        key = (modname, name)
        if key in self._global_cache:
            return self._global_cache[key]
        self._global_cache[key] = UNKNOWN  # cycle guard
        mod = self.p.modules.get(modname)
        val = UNKNOWN
        found = False
        if mod is not None:
            for node in mod.tree.body:
                if isinstance(node, ast.Assign):
                    for t in node.targets:
                        if isinstance(t, ast.Name) and t.id == name:
                            val = self.eval(node.value, mod, {}, None)
                            found = True
                        elif isinstance(t, ast.Subscript) and isinstance(t.value, ast.Name) and t.value.id == name:
                            k = self.eval(t.slice, mod, {}, None)
                            v = self.eval(node.value, mod, {}, None)
                            if isinstance(val, dict) and _hashable(k):
                                val[k] = v
                        elif (
                            isinstance(t, ast.Subscript)
                            and isinstance(t.value, ast.Subscript)
                            and isinstance(t.value.value, ast.Name)
                            and t.value.value.id == name
                        ):
                            k1 = self.eval(t.value.slice, mod, {}, None)
                            k2 = self.eval(t.slice, mod, {}, None)
                            v = self.eval(node.value, mod, {}, None)
                            if isinstance(val, dict) and _hashable(k1) and isinstance(val.get(k1), dict) and _hashable(k2):
                                val[k1][k2] = v
                elif isinstance(node, ast.Expr) and isinstance(node.value, ast.Call):
                    c = node.value
                    if isinstance(c.func, ast.Attribute) and isinstance(c.func.value, ast.Name) and c.func.value.id == name and found:
                        args = [self.eval(a, mod, {}, None) for a in c.args]
                        val = _list_method(val, c.func.attr, args)
                    elif (
                        isinstance(c.func, ast.Attribute)
                        and isinstance(c.func.value, ast.Subscript)
                        and isinstance(c.func.value.value, ast.Name)
                        and c.func.value.value.id == name
                        and found
                    ):
                        k = self.eval(c.func.value.slice, mod, {}, None)
                        args = [self.eval(a, mod, {}, None) for a in c.args]
                        if isinstance(val, dict) and _hashable(k) and k in val:
                            val[k] = _list_method(val[k], c.func.attr, args)
        self._global_cache[key] = val
        return val

    # --------------------------------------------------------------- expressions
    def eval(self, e, mod, env, selfobj):
        if e is None:
            return None
        if isinstance(e, ast.Constant):
            return e.value
        if isinstance(e, ast.List):
            return [self.eval(x, mod, env, selfobj) for x in e.elts]
        if isinstance(e, ast.Tuple):
            return tuple(self.eval(x, mod, env, selfobj) for x in e.elts)
        if isinstance(e, ast.Dict):
            out = {}
            for k, v in zip(e.keys, e.values):
                kk = self.eval(k, mod, env, selfobj)
                if not _hashable(kk):
                    return UNKNOWN
                out[kk] = self.eval(v, mod, env, selfobj)
            return out
        if isinstance(e, ast.Name):
            if e.id in env:
                return env[e.id]
            if e.id in ("True", "False", "None"):
                return {"True": True, "False": False, "None": None}[e.id]
            ent = self.p.resolve_name(mod, e.id)
            return self._entity_value(ent)
        if isinstance(e, ast.Attribute):
            if isinstance(e.value, ast.Name) and e.value.id == "self" and selfobj is not None:
                return selfobj.attrs.get(e.attr, UNKNOWN)
            ent = self.p.resolve_expr(mod, e, local_names=set(env))
            if ent is not None:
                return self._entity_value(ent)
            base = self.eval(e.value, mod, env, selfobj)
            base = strip(base)
            if isinstance(base, Instance):
                return base.attrs.get(e.attr, UNKNOWN)
            return UNKNOWN
        if isinstance(e, ast.Call):
            return self._eval_call(e, mod, env, selfobj)
        if isinstance(e, ast.BinOp):
            a = strip(self.eval(e.left, mod, env, selfobj))
            b = strip(self.eval(e.right, mod, env, selfobj))
            if a is UNKNOWN or b is UNKNOWN:
                return UNKNOWN
            try:
                if isinstance(e.op, ast.Add):
                    return a + b
                if isinstance(e.op, ast.Mult):
                    return a * b
                if isinstance(e.op, ast.Sub):
                    return a - b
            except Exception:
                return UNKNOWN
            return UNKNOWN
        if isinstance(e, ast.UnaryOp):
            a = strip(self.eval(e.operand, mod, env, selfobj))
            if a is UNKNOWN:
                return UNKNOWN
            if isinstance(e.op, ast.Not):
                return not a
            if isinstance(e.op, ast.USub) and isinstance(a, (int, float)):
                return -a
            return UNKNOWN
        if isinstance(e, ast.Compare) and len(e.ops) == 1:
            a = strip(self.eval(e.left, mod, env, selfobj))
            b = strip(self.eval(e.comparators[0], mod, env, selfobj))
            if a is UNKNOWN or b is UNKNOWN:
                return UNKNOWN
            op = e.ops[0]
            try:
                if isinstance(op, ast.Is):
                    return a is b if (a is None or b is None) else UNKNOWN
                if isinstance(op, ast.IsNot):
                    return a is not b if (a is None or b is None) else UNKNOWN
                if isinstance(op, ast.Eq):
                    return a == b
                if isinstance(op, ast.NotEq):
                    return a != b
            except Exception:
                return UNKNOWN
            return UNKNOWN
        if isinstance(e, ast.Subscript):
            base = strip(self.eval(e.value, mod, env, selfobj))
            idx = self.eval(e.slice, mod, env, selfobj)
            try:
                if isinstance(base, (list, tuple, dict, str)) and idx is not UNKNOWN:
                    return base[idx]
            except Exception:
                return UNKNOWN
            return UNKNOWN
        if isinstance(e, ast.JoinedStr):
            return UNKNOWN
        return UNKNOWN

    def _entity_value(self, ent):
        if ent is None:
            return UNKNOWN
        if ent[0] == "class":
            return ClassRef(ent[1])
        if ent[0] == "func":
            return FuncRef(ent[1])
        if ent[0] == "var":
            v = self.eval_global(ent[1], ent[2])
            return GlobalAlias(ent[1], ent[2], v)
        if ent[0] == "classattr":
            ci = ent[1]
            return self.eval(ci.class_attrs[ent[2]], ci.module, {}, None)
        return UNKNOWN

    def _eval_call(self, e, mod, env, selfobj):
        f = e.func
        # str(x)
        if isinstance(f, ast.Name) and f.id == "str" and len(e.args) == 1 and f.id not in env:
            v = strip(self.eval(e.args[0], mod, env, selfobj))
            return UNKNOWN if v is UNKNOWN else str(v)
        if isinstance(f, ast.Name) and f.id == "len" and len(e.args) == 1:
            v = strip(self.eval(e.args[0], mod, env, selfobj))
            return len(v) if isinstance(v, (list, tuple, dict, str)) else UNKNOWN
        fv = self.eval(f, mod, env, selfobj) if not isinstance(f, ast.Attribute) or not _is_method_on_value(f) else UNKNOWN
        fv = strip(fv)
        if isinstance(fv, ClassRef):
            args = [self.eval(a, mod, env, selfobj) for a in e.args]
            kwargs = {k.arg: self.eval(k.value, mod, env, selfobj) for k in e.keywords if k.arg}
            return self.instantiate(fv.ci, args, kwargs)
        if isinstance(f, ast.Attribute):
            base = strip(self.eval(f.value, mod, env, selfobj))
            if f.attr == "copy" and isinstance(base, (list, dict)):
                return base.copy()
            if f.attr == "lower" and isinstance(base, str):
                return base.lower()
        return UNKNOWN

    # ------------------------------------------------------------- instantiation
    def instantiate(self, ci, args, kwargs=None, depth=0):
        obj = Instance(ci, list(args), kwargs)
        init = ci.find_method("__init__")
        if init is None:
            return obj
        if depth > self.max_depth:
            obj.unknown_writes.add("*")
            return obj
        self._run_init(obj, init, list(args), kwargs or {}, depth)
        return obj

    def _bind(self, fi, args, kwargs, mod):
        env = {}
        params = fi.params[1:] if fi.params and fi.params[0] == "self" else list(fi.params)
        defaults = fi.node.args.defaults
        dvals = {}
        allparams = fi.params
        for name, d in zip(allparams[len(allparams) - len(defaults) :], defaults):
            dvals[name] = d
        for i, name in enumerate(params):
            if i < len(args):
                env[name] = args[i]
            elif name in kwargs:
                env[name] = kwargs[name]
            elif name in dvals:
                env[name] = self.eval(dvals[name], mod, {}, None)
            else:
                env[name] = UNKNOWN
        return env

    def _run_init(self, obj, fi, args, kwargs, depth):
        mod = fi.module
        env = self._bind(fi, args, kwargs, mod)
        self._exec_block(fi.node.body, obj, fi, env, depth)

    def _exec_block(self, body, obj, fi, env, depth):
        for s in body:
            self._exec(s, obj, fi, env, depth)

    def _exec(self, s, obj, fi, env, depth):
        mod = fi.module
        owner = fi.cls
        if isinstance(s, ast.Expr) and isinstance(s.value, ast.Constant):
            return
        if isinstance(s, ast.Pass):
            return
        if isinstance(s, ast.Expr) and isinstance(s.value, ast.Call):
            c = s.value
            f = c.func
            # super().__init__(...)
            if (
                isinstance(f, ast.Attribute)
                and isinstance(f.value, ast.Call)
                and isinstance(f.value.func, ast.Name)
                and f.value.func.id == "super"
            ):
                target = obj.ci.find_method_after(owner, f.attr) if owner in obj.ci.mro else None
                if target is None:
                    return
                args = [self.eval(a, mod, env, obj) for a in c.args]
                kwargs = {k.arg: self.eval(k.value, mod, env, obj) for k in c.keywords if k.arg}
                if f.attr == "__init__":
                    self._run_init(obj, target, args, kwargs, depth + 1)
                return
            # Base.__init__(self, ...)
            if isinstance(f, ast.Attribute) and f.attr == "__init__" and c.args and isinstance(c.args[0], ast.Name) and c.args[0].id == "self":
                ent = self.p.resolve_expr(mod, f.value, local_names=set(env))
                if ent and ent[0] == "class":
                    target = ent[1].find_method("__init__")
                    if target is not None:
                        args = [self.eval(a, mod, env, obj) for a in c.args[1:]]
                        kwargs = {k.arg: self.eval(k.value, mod, env, obj) for k in c.keywords if k.arg}
                        self._run_init(obj, target, args, kwargs, depth + 1)
                    return
                obj.unknown_writes.add("*")
                return
            # self.attr.method(args)
            if (
                isinstance(f, ast.Attribute)
                and isinstance(f.value, ast.Attribute)
                and isinstance(f.value.value, ast.Name)
                and f.value.value.id == "self"
            ):
                attr = f.value.attr
                cur = obj.attrs.get(attr, UNKNOWN)
                args = [self.eval(a, mod, env, obj) for a in c.args]
                if isinstance(cur, GlobalAlias):
                    # in-place mutation of an aliased module global from a constructor
                    obj.attr_origin[attr] = (owner.key if owner else None, "alias-mutated")
                    newv = _list_method(_copy(cur.value), f.attr, args)
                    obj.attrs[attr] = GlobalAlias(cur.modname, cur.name, newv)
                else:
                    obj.attrs[attr] = _list_method(cur, f.attr, args)
                return
            # self.add_option(o)
            if isinstance(f, attr_of_self := ast.Attribute) and isinstance(f.value, ast.Name) and f.value.id == "self":
                if f.attr == "add_option" and c.args:
                    o = strip(self.eval(c.args[0], mod, env, obj))
                    if isinstance(o, Instance):
                        name = o.attrs.get("name", UNKNOWN)
                        value = o.attrs.get("value", UNKNOWN)
                        obj.attrs["options"] = _list_method(obj.attrs.get("options", UNKNOWN), "append", [o])
                        if isinstance(name, str):
                            obj.attrs["configuration"] = _list_method(obj.attrs.get("configuration", UNKNOWN), "append", [name])
                            obj.attrs[name] = value
                            obj.attr_origin[name] = (owner.key if owner else None, "option")
                        else:
                            obj.unknown_writes.add("*option")
                    else:
                        obj.unknown_writes.add("*option")
                    return
                # other self.method(): find attributes it assigns and mark them unknown
                m = obj.ci.find_method(f.attr)
                if m is not None:
                    for n in ast.walk(m.node):
                        if isinstance(n, ast.Attribute) and isinstance(n.ctx, ast.Store) and isinstance(n.value, ast.Name) and n.value.id == "self":
                            obj.attrs[n.attr] = UNKNOWN
                            obj.unknown_writes.add(n.attr)
                return
            return
        if isinstance(s, ast.Assign):
            val = self.eval(s.value, mod, env, obj)
            for t in s.targets:
                self._assign(t, val, s.value, obj, fi, env)
            return
        if isinstance(s, ast.AugAssign):
            if isinstance(s.target, ast.Attribute) and isinstance(s.target.value, ast.Name) and s.target.value.id == "self":
                obj.attrs[s.target.attr] = UNKNOWN
            elif isinstance(s.target, ast.Name):
                env[s.target.id] = UNKNOWN
            return
        if isinstance(s, ast.If):
            cond = strip(self.eval(s.test, mod, env, obj))
            if cond is UNKNOWN:
                # join: run both on copies, attributes that differ become UNKNOWN
                a = _snapshot(obj)
                env_a = dict(env)
                self._exec_block(s.body, obj, fi, env_a, depth)
                after_a = _snapshot(obj)
                _restore(obj, a)
                env_b = dict(env)
                self._exec_block(s.orelse, obj, fi, env_b, depth)
                after_b = _snapshot(obj)
                merged = {}
                for k in set(after_a[0]) | set(after_b[0]):
                    va = after_a[0].get(k, UNKNOWN)
                    vb = after_b[0].get(k, UNKNOWN)
                    merged[k] = va if _same(va, vb) else UNKNOWN
                obj.attrs = merged
                for k in set(env_a) | set(env_b):
                    env[k] = env_a.get(k, UNKNOWN) if _same(env_a.get(k, UNKNOWN), env_b.get(k, UNKNOWN)) else UNKNOWN
            elif cond:
                self._exec_block(s.body, obj, fi, env, depth)
            else:
                self._exec_block(s.orelse, obj, fi, env, depth)
            return
        if isinstance(s, (ast.For, ast.While, ast.Try, ast.With)):
            for n in ast.walk(s):
                if isinstance(n, ast.Attribute) and isinstance(n.ctx, ast.Store) and isinstance(n.value, ast.Name) and n.value.id == "self":
                    obj.attrs[n.attr] = UNKNOWN
                    obj.unknown_writes.add(n.attr)
            return
        # anything else: ignore

    def _assign(self, t, val, valnode, obj, fi, env):
        owner = fi.cls
        if isinstance(t, ast.Attribute) and isinstance(t.value, ast.Name) and t.value.id == "self":
            obj.attrs[t.attr] = val
            kind = "fresh"
            if isinstance(val, GlobalAlias):
                kind = "alias"
            elif isinstance(valnode, ast.Name) and valnode.id in env:
                kind = "param-alias" if isinstance(env[valnode.id], GlobalAlias) else "param"
            obj.attr_origin[t.attr] = (owner.key if owner else None, kind)
        elif isinstance(t, ast.Name):
            env[t.id] = val
        elif isinstance(t, ast.Subscript):
            base = t.value
            if isinstance(base, ast.Attribute) and isinstance(base.value, ast.Name) and base.value.id == "self":
                cur = strip(obj.attrs.get(base.attr, UNKNOWN))
                k = self.eval(t.slice, fi.module, env, obj)
                if isinstance(cur, dict) and _hashable(k):
                    cur[k] = val
        elif isinstance(t, (ast.Tuple, ast.List)):
            for x in t.elts:
                self._assign(x, UNKNOWN, None, obj, fi, env)


def _is_method_on_value(f):
    return False


def _hashable(k):
    try:
        hash(k)
        return k is not UNKNOWN
    except TypeError:
        return False


def _copy(v):
    if isinstance(v, list):
        return list(v)
    if isinstance(v, dict):
        return dict(v)
    return v


def _list_method(cur, meth, args):
    cur0 = cur
    cur = strip(cur)
    if not isinstance(cur, list):
        return UNKNOWN
    cur = list(cur)
    try:
        if meth == "append" and len(args) == 1:
            cur.append(args[0])
        elif meth == "extend" and len(args) == 1 and isinstance(strip(args[0]), (list, tuple)):
            cur.extend(strip(args[0]))
        elif meth == "remove" and len(args) == 1:
            if args[0] in cur:
                cur.remove(args[0])
            else:
                return UNKNOWN
        elif meth == "insert" and len(args) == 2 and isinstance(args[0], int):
            cur.insert(args[0], args[1])
        else:
            return UNKNOWN
    except Exception:
        return UNKNOWN
    return cur


def _snapshot(obj):
    return ({k: _copy(v) for k, v in obj.attrs.items()}, dict(obj.attr_origin), set(obj.unknown_writes))


def _restore(obj, snap):
    obj.attrs = {k: _copy(v) for k, v in snap[0].items()}
    obj.attr_origin = dict(snap[1])
    obj.unknown_writes = set(snap[2])


def _same(a, b):
    if a is UNKNOWN or b is UNKNOWN:
        return False
    try:
        return repr(a) == repr(b)
    except Exception:
        return False


# =====================================================================================
class RuleEntry:
    def __init__(self, ci, obj, package):
        self.ci = ci
        self.obj = obj
        self.package = package
        a = obj.attrs
        self.attrs = a
        self.name = a.get("name", UNKNOWN)
        self.identifier = a.get("identifier", UNKNOWN)
        self.unique_id = a.get("unique_id", UNKNOWN)
        self.phase = a.get("phase", UNKNOWN)
        self.subphase = a.get("subphase", UNKNOWN)
        self.fixable = a.get("fixable", UNKNOWN)
        self.disable = a.get("disable", UNKNOWN)
        self.remap = a.get("remap", UNKNOWN)
        self.deprecated = a.get("deprecated", UNKNOWN)
        self.proposed = a.get("proposed", UNKNOWN)
        self.groups = strip(a.get("groups", UNKNOWN))
        self.configuration = strip(a.get("configuration", UNKNOWN))
        self.severity = strip(a.get("severity", UNKNOWN))

    @property
    def live(self):
        return self.deprecated is False and self.proposed is False

    def provider(self, method):
        m = self.ci.find_method(method)
        return m

    def family(self):
        """First class in the MRO that is not a rule_NNN class and defines _analyze or
        _fix_violation or _get_tokens_of_interest."""
        for c in self.ci.mro:
            if c.name.startswith("rule_"):
                if any(k in c.methods for k in ("_analyze", "_fix_violation", "_get_tokens_of_interest", "analyze")):
                    return c
                continue
            if any(k in c.methods for k in ("_analyze", "_fix_violation", "_get_tokens_of_interest", "analyze")):
                return c
        return self.ci.mro[-1]

    def __repr__(self):
        return "<rule %s>" % (self.unique_id,)


class RuleTable:
    def __init__(self, program):
        self.p = program
        self.interp = Interp(program)
        self.entries = []
        self.by_id = {}
        self._name_map = self._read_rule_name_exceptions()
        self._build()

    def _read_rule_name_exceptions(self):
        """Read get_rule_name's if-chain: module dir name -> rule name."""
        fi = self.p.function("vsg.rule:get_rule_name")
        m = {}
        for n in ast.walk(fi.node):
            if isinstance(n, ast.If) and isinstance(n.test, ast.Compare) and len(n.test.ops) == 1 and isinstance(n.test.ops[0], ast.Eq):
                l, r = n.test.left, n.test.comparators[0]
                if isinstance(l, ast.Name) and l.id == "rule_group_name" and isinstance(r, ast.Constant):
                    for s in n.body:
                        if isinstance(s, ast.Assign) and isinstance(s.value, ast.Constant):
                            m[r.value] = s.value.value
        return m

    def rule_packages(self):
        """Packages (modules) bound as attributes of vsg.rules, like inspect.getmembers(ismodule)."""
        root = self.p.module("vsg.rules")
        pkgs = {}
        # explicit bindings that are modules
        for name, b in root.bindings.items():
            ent = self.p._deref(b)
            if ent and ent[0] == "module":
                pkgs[name] = ent[1]
        # importing vsg.rules.X.Y binds X on vsg.rules as a side effect
        for b in list(root.bindings.values()):
            if b[0] == "from" and b[1].startswith("vsg.rules."):
                sub = b[1][len("vsg.rules.") :].split(".")[0]
                if "vsg.rules." + sub in self.p.modules and sub not in root.bindings:
                    pkgs.setdefault(sub, "vsg.rules." + sub)
        return pkgs

    def _build(self):
        seen = set()
        for attr, modname in sorted(self.rule_packages().items()):
            mod = self.p.modules[modname]
            names = {}
            for name, b in mod.bindings.items():
                if not name.startswith("rule_"):
                    continue
                ent = self.p._deref(b)
                if ent and ent[0] == "class":
                    names[name] = ent[1]
            for name, ci in sorted(names.items()):
                key = (modname, name)
                if key in seen:
                    continue
                seen.add(key)
                obj = self.interp.instantiate(ci, [])
                self._fix_identity(obj, ci)
                e = RuleEntry(ci, obj, modname)
                self.entries.append(e)
                if isinstance(e.unique_id, str):
                    self.by_id.setdefault(e.unique_id, e)

    def _fix_identity(self, obj, ci):
        # name/identifier come from helper functions of vsg.rule; model them from the class itself
        modname = ci.module.name
        name = None
        if modname.startswith("vsg.rules."):
            g = modname.split(".")[2]
            name = self._name_map.get(g, g)
        ident = ci.name[-3:] if ci.name.startswith("rule_") else None
        obj.attrs["name"] = name
        obj.attrs["identifier"] = ident
        obj.attrs["unique_id"] = "%s_%s" % (name, ident)

    def live(self):
        return [e for e in self.entries if e.live]

    def check_floors(self, total_floor=1000, live_floor=900):
        if len(self.entries) < total_floor or len(self.live()) < live_floor:
            raise AnalysisError(
                "rule table too small: %d classes / %d live (floors %d / %d) - rule loading not understood"
                % (len(self.entries), len(self.live()), total_floor, live_floor)
            )
