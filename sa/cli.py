# -*- coding: utf-8 -*-
import importlib
import json
import os
import sys
import time
import traceback

from . import report
from .context import Ctx
from .model import AnalysisError

PROPS = ["C%02d" % i for i in range(1, 21)]


def load_check(pid):
    return importlib.import_module("sa.checks.%s" % pid.lower())


def run_check(pid, tier, seed, repo=None, quiet=False):
    t0 = time.time()
    out = (lambda *a, **k: None) if quiet else print
    try:
        mod = load_check(pid)
        ctx = Ctx(repo=repo, tier=tier, seed=seed)
        res = mod.run(ctx)
        if tier == "thorough":
            # second pass over the name-based conservative call graph (every attribute call dispatches to every
            # method of that name).  It over-approximates so much that "not reachable" rules meet spurious paths;
            # what only this pass reports is listed as unproven, never alarmed.
            have = {(f.rule, f.key) for f in res.findings} | {(u["rule"], u["construct"]) for u in res.unproven}
            try:
                ctx2 = Ctx(repo=repo, tier=tier, seed=seed, conservative=True)
                ctx2._p = ctx._p
                ctx2._rt = ctx._rt
                res2 = mod.run(ctx2)
                extra = [f for f in res2.findings if (f.rule, f.key) not in have]
                for f in extra:
                    res.unknown(f.rule, f.key, "reported only under the name-based conservative call graph (dispatch by method name alone): " + f.message[:200])
                res.extra["conservative_pass"] = {"extra_reports": len(extra), "callgraph": dict(ctx2.callgraph().stats)}
            except AnalysisError as e:
                res.extra["conservative_pass"] = {"analysis_error": str(e)}
        files = {"count": len(ctx.program.modules), "tree_digest": ctx.program.digest()}
        cgs = None
        if ctx._cg:
            cg = list(ctx._cg.values())[0]
            cgs = dict(cg.stats)
            cgs["resolution_rate"] = round(cg.resolution_rate(), 4)
            cgs["functions"] = len(ctx.program.functions)
        level = getattr(mod, "LEVEL", "other")
        code = report.emit(res, tier, seed, level, time.time() - t0, files=files, callgraph_stats=cgs, out=out)
        if not quiet:
            print(
                "%s %s: %d obligations, %d discharged, %d unproven, %d finding(s) [%s] %.1fs"
                % (pid, tier, res.obligations, res.discharged, len(res.unproven), len(res.findings), "FAIL" if code else "ok", time.time() - t0)
            )
        return code, res
    except AnalysisError as e:
        print("ANALYSIS-ERROR property=%s %s" % (pid, e))
        return 2, None
    except Exception:
        print("ANALYSIS-ERROR property=%s analyser crashed:" % pid)
        traceback.print_exc(file=sys.stdout)
        return 2, None


def main(argv):
    if len(argv) < 1:
        print("usage: sa check <id> [--thorough] | sa all [--thorough] | sa explain <replay.json> | sa selftest [id...]")
        return 2
    cmd = argv[0]
    seed = int(os.environ.get("VERIF_SEED", "0") or 0)
    if cmd == "manifest":
        from . import manifest_gen

        man = manifest_gen.build()
        print("MANIFEST.json: %d checks, %d not applicable" % (len(man["checks"]), len(man["not_applicable"])))
        return 0
    if cmd == "setup":
        import compileall

        ok = compileall.compile_dir(os.path.join(report.VERIF, "sa"), quiet=1, legacy=False, ddir="sa")
        for pid in PROPS:
            try:
                load_check(pid)
            except ImportError:
                pass
        print("vsgsa setup: analyser sources compile; nothing to build or install")
        return 0 if ok else 2
    if cmd == "check":
        pid = argv[1].upper()
        tier = "thorough" if ("--thorough" in argv or os.environ.get("VERIF_TIER") == "thorough") else "quick"
        code, res = run_check(pid, tier, seed)
        if code == 0 and tier == "thorough":
            from . import selftest

            st = selftest.run([pid], jobs=int(os.environ.get("SA_JOBS", "16")))
            if st != 0:
                return st
        return code
    if cmd == "all":
        tier = "thorough" if "--thorough" in argv else "quick"
        worst = 0
        for pid in PROPS:
            try:
                load_check(pid)
            except ImportError:
                continue
            code, _ = run_check(pid, tier, seed)
            worst = max(worst, code)
        return worst
    if cmd == "explain":
        with open(argv[1]) as fh:
            r = json.load(fh)
        print(json.dumps(r, indent=1))
        pid = r["property"]
        code, res = run_check(pid, r.get("tier", "quick"), seed, quiet=True)
        still = res is not None and any(f.rule == r["rule"] and f.key == r["construct_key"] for f in res.findings)
        print("re-derived on the current tree: %s" % ("STILL PRESENT" if still else "not present"))
        return 1 if still else 0
    if cmd == "invariance":
        from . import invariance

        return invariance.run()
    if cmd == "selftest":
        from . import selftest

        return selftest.run([a.upper() for a in argv[1:] if not a.startswith("-")], jobs=int(os.environ.get("SA_JOBS", "16")))
    print("unknown command", cmd)
    return 2
